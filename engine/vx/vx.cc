// vx — fact extractor for the xiph/vorbis static checks (libTooling, clang 14).
//
// Emits one JSON object per translation unit: record layouts, static-storage variables with evaluated
// initialisers, public declarations, and for every function defined in a repo file its clang::CFG with
// every CFG element as a typed expression tree (constants folded by clang, callees and slots resolved).
// Rules (Python, /verif/engine/*.py) work on these facts only; nothing downstream looks at source text.
//
// usage: vx <repo-root> <out.json> <file.c> -- <compile flags>

#include "clang/AST/ASTConsumer.h"
#include "clang/AST/ASTContext.h"
#include "clang/AST/Expr.h"
#include "clang/AST/ParentMap.h"
#include "clang/AST/RecursiveASTVisitor.h"
#include "clang/AST/RecordLayout.h"
#include "clang/Analysis/CFG.h"
#include "clang/Frontend/CompilerInstance.h"
#include "clang/Frontend/FrontendAction.h"
#include "clang/Tooling/CompilationDatabase.h"
#include "clang/Tooling/Tooling.h"
#include "llvm/Support/raw_ostream.h"
#include "llvm/Support/JSON.h"

#include <map>
#include <set>
#include <string>
#include <vector>

using namespace clang;
namespace json = llvm::json;

static std::string gRepoRoot;
static std::string gOutPath;

namespace {

struct Ctx {
  ASTContext *AC;
  SourceManager *SM;
};

static std::string fileOf(const Ctx &C, SourceLocation L) {
  if (L.isInvalid()) return "";
  SourceLocation E = C.SM->getExpansionLoc(L);
  PresumedLoc P = C.SM->getPresumedLoc(E);
  if (P.isInvalid()) return "";
  return P.getFilename();
}
static bool inRepo(const Ctx &C, SourceLocation L) {
  std::string F = fileOf(C, L);
  return F.rfind(gRepoRoot, 0) == 0;
}
static json::Array locOf(const Ctx &C, SourceLocation L) {
  json::Array A;
  if (L.isInvalid()) { A.push_back(0); A.push_back(0); return A; }
  SourceLocation E = C.SM->getExpansionLoc(L);
  A.push_back((int64_t)C.SM->getPresumedLineNumber(E));
  A.push_back((int64_t)C.SM->getPresumedColumnNumber(E));
  return A;
}
static std::string typeStr(const Ctx &C, QualType T) {
  if (T.isNull()) return "?";
  PrintingPolicy PP(C.AC->getLangOpts());
  PP.SuppressTagKeyword = false;
  return T.getCanonicalType().getAsString(PP);
}
// constant array extents of a (possibly nested) array type: int[16][8] -> [16,8]
static json::Value extentsOf(const Ctx &C, QualType T) {
  json::Array A;
  QualType Q = T.getCanonicalType();
  while (const auto *CAT = dyn_cast<ConstantArrayType>(Q.getTypePtr())) {
    A.push_back((int64_t)CAT->getSize().getZExtValue());
    Q = CAT->getElementType().getCanonicalType();
  }
  if (A.empty()) return nullptr;
  return json::Value(std::move(A));
}
static bool deepConst(QualType T) {
  // true iff the object itself cannot be written (array element type / scalar is const)
  QualType Q = T.getCanonicalType();
  while (const auto *AT = dyn_cast<ArrayType>(Q.getTypePtr())) Q = AT->getElementType().getCanonicalType();
  return Q.isConstQualified();
}
static std::string recordNameOf(QualType T) {
  QualType Q = T.getCanonicalType();
  while (true) {
    if (const auto *PT = dyn_cast<PointerType>(Q.getTypePtr())) { Q = PT->getPointeeType().getCanonicalType(); continue; }
    if (const auto *AT = dyn_cast<ArrayType>(Q.getTypePtr())) { Q = AT->getElementType().getCanonicalType(); continue; }
    break;
  }
  if (const auto *RT = Q->getAs<RecordType>()) {
    const RecordDecl *RD = RT->getDecl();
    if (RD->getIdentifier()) return RD->getName().str();
    if (const TypedefNameDecl *TD = RD->getTypedefNameForAnonDecl()) return TD->getName().str();
    return "<anon>";
  }
  return "";
}

// ------------------------------------------------------------------------------------------------
// Per-function expression exporter
// ------------------------------------------------------------------------------------------------
struct FnExporter {
  Ctx &C;
  const FunctionDecl *FD;
  std::map<const Stmt *, int> Ids;
  json::Object Pool;              // id -> node
  std::map<const VarDecl *, int> VarIds;
  json::Array Locals;
  int NextId = 1;
  int NextVar = 1;

  FnExporter(Ctx &C, const FunctionDecl *FD) : C(C), FD(FD) {}

  int varId(const VarDecl *VD) {
    auto It = VarIds.find(VD);
    if (It != VarIds.end()) return It->second;
    int Id = NextVar++;
    VarIds[VD] = Id;
    return Id;
  }

  static const Expr *strip(const Expr *E) {
    // skip parens and casts that do not change meaning for the rules
    while (true) {
      if (const auto *P = dyn_cast<ParenExpr>(E)) { E = P->getSubExpr(); continue; }
      if (const auto *CE = dyn_cast<ConstantExpr>(E)) { E = CE->getSubExpr(); continue; }
      if (const auto *ICE = dyn_cast<ImplicitCastExpr>(E)) {
        switch (ICE->getCastKind()) {
        case CK_LValueToRValue: case CK_NoOp: case CK_FunctionToPointerDecay:
        case CK_ArrayToPointerDecay: case CK_BuiltinFnToFnPtr: case CK_LValueBitCast:
          E = ICE->getSubExpr(); continue;
        default: break;
        }
      }
      break;
    }
    return E;
  }

  json::Object declRef(const ValueDecl *D) {
    json::Object O;
    if (const auto *VD = dyn_cast<VarDecl>(D)) {
      if (isa<ParmVarDecl>(VD)) {
        O["kind"] = "param"; O["id"] = varId(VD); O["name"] = VD->getName().str();
      } else if (VD->hasGlobalStorage()) {
        O["kind"] = "global"; O["name"] = VD->getName().str();
        if (VD->isStaticLocal()) { O["fnlocal"] = true; }
        O["const"] = deepConst(VD->getType());
      } else {
        O["kind"] = "var"; O["id"] = varId(VD); O["name"] = VD->getName().str();
      }
      if (auto Ex = extentsOf(C, VD->getType()); Ex.kind() != json::Value::Null) O["extent"] = std::move(Ex);
    } else if (const auto *F = dyn_cast<FunctionDecl>(D)) {
      O["kind"] = "fn"; O["name"] = F->getName().str();
    } else if (const auto *EC = dyn_cast<EnumConstantDecl>(D)) {
      O["kind"] = "enum"; O["name"] = EC->getName().str();
    } else {
      O["kind"] = "other"; O["name"] = D->getNameAsString();
    }
    return O;
  }

  json::Value calleeOf(const CallExpr *CE) {
    json::Object O;
    if (const FunctionDecl *F = CE->getDirectCallee()) {
      O["d"] = F->getName().str();
      if (unsigned B = F->getBuiltinID()) O["builtin"] = (int64_t)B;
      return json::Value(std::move(O));
    }
    const Expr *Callee = strip(CE->getCallee());
    if (const auto *U = dyn_cast<UnaryOperator>(Callee))
      if (U->getOpcode() == UO_Deref) Callee = strip(U->getSubExpr());
    if (const auto *ME = dyn_cast<MemberExpr>(Callee)) {
      if (const auto *FDl = dyn_cast<FieldDecl>(ME->getMemberDecl())) {
        json::Array A;
        A.push_back(recordNameOf(C.AC->getRecordType(FDl->getParent())));
        A.push_back(FDl->getName().str());
        O["slot"] = std::move(A);
        return json::Value(std::move(O));
      }
    }
    if (const auto *DR = dyn_cast<DeclRefExpr>(Callee)) {
      if (const auto *VD = dyn_cast<VarDecl>(DR->getDecl())) {
        if (isa<ParmVarDecl>(VD)) { O["param"] = varId(VD); O["name"] = VD->getName().str(); }
        else { O["var"] = varId(VD); O["name"] = VD->getName().str(); }
        return json::Value(std::move(O));
      }
    }
    O["unknown"] = true;
    return json::Value(std::move(O));
  }

  static const char *unOp(UnaryOperatorKind K) {
    switch (K) {
    case UO_PostInc: return "post++"; case UO_PostDec: return "post--";
    case UO_PreInc: return "pre++"; case UO_PreDec: return "pre--";
    case UO_AddrOf: return "&"; case UO_Deref: return "*";
    case UO_Plus: return "+"; case UO_Minus: return "-";
    case UO_Not: return "~"; case UO_LNot: return "!";
    default: return "?";
    }
  }

  // Export statement/expression S; returns node id.
  int exp(const Stmt *S0) {
    if (!S0) return 0;
    const Stmt *S = S0;
    if (const auto *E = dyn_cast<Expr>(S)) S = strip(E);
    auto It = Ids.find(S);
    if (It != Ids.end()) return It->second;
    int Id = NextId++;
    Ids[S] = Id;
    json::Object N;
    json::Array Ch;
    if (const auto *E = dyn_cast<Expr>(S)) {
      N["t"] = typeStr(C, E->getType());
      N["loc"] = locOf(C, E->getExprLoc());
      // constant folding by clang: integers (and enum constants, sizeof, macro arithmetic)
      bool folded = false;
      if (!isa<IntegerLiteral>(E) && !isa<InitListExpr>(E) && !E->isValueDependent() &&
          E->getType()->isIntegralOrEnumerationType() && E->isPRValue()) {
        Expr::EvalResult R;
        if (E->EvaluateAsInt(R, *C.AC, Expr::SE_NoSideEffects)) {
          N["k"] = "int";
          llvm::APSInt V = R.Val.getInt();
          N["v"] = V.isSigned() ? (int64_t)V.getSExtValue() : (int64_t)V.getZExtValue();
          if (isa<UnaryExprOrTypeTraitExpr>(E)) N["from"] = "sizeof";
          else if (const auto *DR = dyn_cast<DeclRefExpr>(E)) { if (isa<EnumConstantDecl>(DR->getDecl())) N["from"] = "enum"; }
          else N["from"] = "fold";
          folded = true;
        }
      }
      if (folded) {
        // nothing more
      } else if (const auto *IL = dyn_cast<IntegerLiteral>(E)) {
        N["k"] = "int";
        llvm::APInt V = IL->getValue();
        N["v"] = E->getType()->isSignedIntegerType() ? (int64_t)V.getSExtValue() : (int64_t)V.getZExtValue();
      } else if (const auto *FL = dyn_cast<FloatingLiteral>(E)) {
        N["k"] = "flt";
        N["v"] = FL->getValueAsApproximateDouble();
      } else if (const auto *CL = dyn_cast<CharacterLiteral>(E)) {
        N["k"] = "int"; N["v"] = (int64_t)CL->getValue();
      } else if (const auto *SL = dyn_cast<StringLiteral>(E)) {
        N["k"] = "str";
        if (SL->getCharByteWidth() == 1) N["v"] = SL->getString().substr(0, 64).str();
        N["len"] = (int64_t)SL->getLength();
      } else if (const auto *DR = dyn_cast<DeclRefExpr>(E)) {
        N["k"] = "ref";
        N["decl"] = declRef(DR->getDecl());
      } else if (const auto *ME = dyn_cast<MemberExpr>(E)) {
        N["k"] = "member";
        N["arrow"] = ME->isArrow();
        N["field"] = ME->getMemberDecl()->getName().str();
        if (const auto *FDl = dyn_cast<FieldDecl>(ME->getMemberDecl())) {
          N["record"] = recordNameOf(C.AC->getRecordType(FDl->getParent()));
          if (auto Ex = extentsOf(C, FDl->getType()); Ex.kind() != json::Value::Null) N["extent"] = std::move(Ex);
        }
        Ch.push_back(exp(ME->getBase()));
      } else if (const auto *AS = dyn_cast<ArraySubscriptExpr>(E)) {
        N["k"] = "sub";
        const Expr *B = strip(AS->getBase());
        if (auto Ex = extentsOf(C, B->getType()); Ex.kind() != json::Value::Null) N["extent"] = std::move(Ex);
        Ch.push_back(exp(AS->getBase()));
        Ch.push_back(exp(AS->getIdx()));
      } else if (const auto *UO = dyn_cast<UnaryOperator>(E)) {
        N["k"] = "un";
        N["op"] = unOp(UO->getOpcode());
        Ch.push_back(exp(UO->getSubExpr()));
      } else if (const auto *BO = dyn_cast<BinaryOperator>(E)) {
        if (BO->isAssignmentOp()) {
          N["k"] = "assign";
          N["op"] = BO->getOpcodeStr().str();
        } else if (BO->getOpcode() == BO_Comma) {
          N["k"] = "comma";
        } else {
          N["k"] = "bin";
          N["op"] = BO->getOpcodeStr().str();
        }
        Ch.push_back(exp(BO->getLHS()));
        Ch.push_back(exp(BO->getRHS()));
      } else if (const auto *CO = dyn_cast<ConditionalOperator>(E)) {
        N["k"] = "cond";
        Ch.push_back(exp(CO->getCond()));
        Ch.push_back(exp(CO->getTrueExpr()));
        Ch.push_back(exp(CO->getFalseExpr()));
      } else if (const auto *CE = dyn_cast<CallExpr>(E)) {
        N["k"] = "call";
        N["callee"] = calleeOf(CE);
        if (!CE->getDirectCallee()) N["fnexpr"] = exp(CE->getCallee());
        for (const Expr *A : CE->arguments()) Ch.push_back(exp(A));
      } else if (const auto *CaE = dyn_cast<CastExpr>(E)) {
        N["k"] = "cast";
        N["ck"] = CaE->getCastKindName();
        N["explicit"] = isa<ExplicitCastExpr>(CaE);
        // qualifier-dropping pointer cast
        QualType From = CaE->getSubExpr()->getType().getCanonicalType();
        QualType To = CaE->getType().getCanonicalType();
        if (From->isPointerType() && To->isPointerType()) {
          QualType FP = From->getPointeeType().getCanonicalType(), TP = To->getPointeeType().getCanonicalType();
          bool drops = false;
          // walk pointer levels
          while (true) {
            if (FP.isConstQualified() && !TP.isConstQualified()) { drops = true; break; }
            if (FP->isPointerType() && TP->isPointerType()) {
              FP = FP->getPointeeType().getCanonicalType(); TP = TP->getPointeeType().getCanonicalType();
            } else break;
          }
          if (drops) N["drops_const"] = true;
        }
        N["from_t"] = typeStr(C, CaE->getSubExpr()->getType());
        Ch.push_back(exp(CaE->getSubExpr()));
      } else if (const auto *IL = dyn_cast<InitListExpr>(E)) {
        N["k"] = "init";
        for (const Expr *I : IL->inits()) Ch.push_back(exp(I));
      } else if (const auto *UE = dyn_cast<UnaryExprOrTypeTraitExpr>(E)) {
        N["k"] = "sizeof";   // only reached if not foldable (VLA)
        (void)UE;
      } else if (const auto *SE = dyn_cast<StmtExpr>(E)) {
        N["k"] = "stmtexpr"; (void)SE;
      } else if (isa<ImplicitValueInitExpr>(E)) {
        N["k"] = "int"; N["v"] = 0; N["from"] = "zeroinit";
      } else if (const auto *CLE = dyn_cast<CompoundLiteralExpr>(E)) {
        N["k"] = "complit";
        Ch.push_back(exp(CLE->getInitializer()));
      } else {
        N["k"] = "expr";
        N["cls"] = E->getStmtClassName();
        for (const Stmt *K : E->children()) if (K) Ch.push_back(exp(K));
      }
    } else if (const auto *DS = dyn_cast<DeclStmt>(S)) {
      N["k"] = "decl";
      N["loc"] = locOf(C, DS->getBeginLoc());
      json::Array Vars;
      for (const Decl *D : DS->decls()) {
        if (const auto *VD = dyn_cast<VarDecl>(D)) {
          json::Object V;
          if (VD->hasGlobalStorage()) { V["global"] = VD->getName().str(); }
          else V["id"] = varId(VD);
          V["name"] = VD->getName().str();
          V["t"] = typeStr(C, VD->getType());
          if (VD->hasInit() && !VD->hasGlobalStorage()) { int I = exp(VD->getInit()); V["init"] = I; Ch.push_back(I); }
          if (const auto *VAT = dyn_cast<VariableArrayType>(VD->getType().getCanonicalType().getTypePtr())) {
            int I = exp(VAT->getSizeExpr()); V["vla"] = I; Ch.push_back(I);
          }
          Vars.push_back(std::move(V));
        }
      }
      N["vars"] = std::move(Vars);
    } else if (const auto *RS = dyn_cast<ReturnStmt>(S)) {
      N["k"] = "ret";
      N["loc"] = locOf(C, RS->getBeginLoc());
      if (RS->getRetValue()) Ch.push_back(exp(RS->getRetValue()));
    } else if (isa<GCCAsmStmt>(S)) {
      N["k"] = "asm";
      N["loc"] = locOf(C, S->getBeginLoc());
    } else {
      N["k"] = "stmt";
      N["cls"] = S->getStmtClassName();
      N["loc"] = locOf(C, S->getBeginLoc());
    }
    if (!Ch.empty()) N["c"] = std::move(Ch);
    Pool[std::to_string(Id)] = std::move(N);
    return Id;
  }

  // structured statement tree (syntax level, expression ids shared with the pool)
  json::Value stree(const Stmt *S) {
    if (!S) return nullptr;
    json::Object N;
    N["loc"] = locOf(C, S->getBeginLoc());
    if (const auto *CS = dyn_cast<CompoundStmt>(S)) {
      N["k"] = "seq";
      json::Array A;
      for (const Stmt *K : CS->body()) A.push_back(stree(K));
      N["c"] = std::move(A);
    } else if (const auto *IS = dyn_cast<IfStmt>(S)) {
      N["k"] = "if";
      N["cond"] = exp(IS->getCond());
      N["then"] = stree(IS->getThen());
      if (IS->getElse()) N["else"] = stree(IS->getElse());
    } else if (const auto *FS = dyn_cast<ForStmt>(S)) {
      N["k"] = "for";
      if (FS->getInit()) N["init"] = stree(FS->getInit());
      if (FS->getCond()) N["cond"] = exp(FS->getCond());
      if (FS->getInc()) N["inc"] = exp(FS->getInc());
      N["body"] = stree(FS->getBody());
    } else if (const auto *WS = dyn_cast<WhileStmt>(S)) {
      N["k"] = "while";
      N["cond"] = exp(WS->getCond());
      N["body"] = stree(WS->getBody());
    } else if (const auto *DS = dyn_cast<DoStmt>(S)) {
      N["k"] = "do";
      N["cond"] = exp(DS->getCond());
      N["body"] = stree(DS->getBody());
    } else if (const auto *SS = dyn_cast<SwitchStmt>(S)) {
      N["k"] = "switch";
      N["cond"] = exp(SS->getCond());
      N["body"] = stree(SS->getBody());
    } else if (const auto *CaS = dyn_cast<CaseStmt>(S)) {
      N["k"] = "case";
      Expr::EvalResult R;
      if (CaS->getLHS()->EvaluateAsInt(R, *C.AC)) N["v"] = (int64_t)R.Val.getInt().getSExtValue();
      N["body"] = stree(CaS->getSubStmt());
    } else if (const auto *DfS = dyn_cast<DefaultStmt>(S)) {
      N["k"] = "default";
      N["body"] = stree(DfS->getSubStmt());
    } else if (const auto *LS = dyn_cast<LabelStmt>(S)) {
      N["k"] = "label";
      N["name"] = LS->getName();
      N["body"] = stree(LS->getSubStmt());
    } else if (const auto *GS = dyn_cast<GotoStmt>(S)) {
      N["k"] = "goto";
      N["name"] = GS->getLabel()->getName().str();
    } else if (isa<BreakStmt>(S)) {
      N["k"] = "break";
    } else if (isa<ContinueStmt>(S)) {
      N["k"] = "continue";
    } else if (isa<NullStmt>(S)) {
      N["k"] = "null";
    } else if (isa<ReturnStmt>(S)) {
      N["k"] = "ret";
      N["e"] = exp(S);
    } else if (isa<DeclStmt>(S)) {
      N["k"] = "decl";
      N["e"] = exp(S);
    } else if (isa<Expr>(S)) {
      N["k"] = "expr";
      N["e"] = exp(S);
    } else {
      N["k"] = "other";
      N["cls"] = S->getStmtClassName();
    }
    return json::Value(std::move(N));
  }

  json::Object run() {
    json::Object F;
    F["name"] = FD->getName().str();
    F["file"] = fileOf(C, FD->getLocation());
    F["line"] = (int64_t)C.SM->getPresumedLineNumber(C.SM->getExpansionLoc(FD->getBeginLoc()));
    F["end_line"] = (int64_t)C.SM->getPresumedLineNumber(C.SM->getExpansionLoc(FD->getEndLoc()));
    F["static"] = FD->getStorageClass() == SC_Static || FD->isInlineSpecified();
    F["ret_t"] = typeStr(C, FD->getReturnType());
    json::Array Params;
    for (const ParmVarDecl *P : FD->parameters()) {
      json::Object O;
      O["id"] = varId(P); O["name"] = P->getName().str(); O["t"] = typeStr(C, P->getType());
      std::string R = recordNameOf(P->getType());
      if (!R.empty()) O["record"] = R;
      Params.push_back(std::move(O));
    }
    F["params"] = std::move(Params);

    CFG::BuildOptions BO;
    BO.PruneTriviallyFalseEdges = false;   // keep `while(1)` exits etc. honest: no pruning by constant conditions
    BO.AddImplicitDtors = false;
    BO.AddInitializers = false;
    std::unique_ptr<CFG> G = CFG::buildCFG(FD, FD->getBody(), C.AC, BO);
    if (!G) { F["cfg_error"] = true; return F; }
    json::Array Blocks;
    for (const CFGBlock *B : *G) {
      json::Object JB;
      JB["id"] = (int64_t)B->getBlockID();
      json::Array Elems;
      for (const CFGElement &El : *B) {
        if (auto CS = El.getAs<CFGStmt>()) Elems.push_back(exp(CS->getStmt()));
      }
      JB["elems"] = std::move(Elems);
      json::Array Succs;
      for (auto SI = B->succ_begin(); SI != B->succ_end(); ++SI) {
        const CFGBlock *SB = SI->getReachableBlock();
        if (!SB) SB = SI->getPossiblyUnreachableBlock();
        if (SB) Succs.push_back((int64_t)SB->getBlockID()); else Succs.push_back(nullptr);
      }
      JB["succs"] = std::move(Succs);
      if (const Stmt *T = B->getTerminatorStmt()) {
        json::Object JT;
        const char *K = "other";
        if (isa<IfStmt>(T)) K = "if";
        else if (isa<ForStmt>(T) || isa<WhileStmt>(T) || isa<DoStmt>(T)) K = "loop";
        else if (isa<SwitchStmt>(T)) K = "switch";
        else if (isa<GotoStmt>(T)) K = "goto";
        else if (isa<BreakStmt>(T)) K = "break";
        else if (isa<ContinueStmt>(T)) K = "continue";
        else if (const auto *BOp = dyn_cast<BinaryOperator>(T)) K = BOp->getOpcode() == BO_LAnd ? "and" : "or";
        else if (isa<ConditionalOperator>(T)) K = "cond";
        JT["kind"] = K;
        JT["loc"] = locOf(C, T->getBeginLoc());
        if (B->succ_size() >= 2) {
          if (const Expr *LC = B->getLastCondition()) JT["cond"] = exp(LC);
          else if (const Stmt *TC = B->getTerminatorCondition()) JT["cond"] = exp(TC);
        }
        if (const auto *SS = dyn_cast<SwitchStmt>(T)) JT["cond"] = exp(SS->getCond());
        JB["term"] = std::move(JT);
      }
      if (const Stmt *L = B->getLabel()) {
        json::Object JL;
        if (const auto *CS = dyn_cast<CaseStmt>(L)) {
          Expr::EvalResult R;
          if (CS->getLHS()->EvaluateAsInt(R, *C.AC)) JL["case"] = (int64_t)R.Val.getInt().getSExtValue();
        } else if (isa<DefaultStmt>(L)) JL["default"] = true;
        else if (const auto *LS = dyn_cast<LabelStmt>(L)) JL["label"] = LS->getName();
        JB["label"] = std::move(JL);
      }
      if (B->getLoopTarget()) JB["loop_inc"] = true;
      Blocks.push_back(std::move(JB));
    }
    F["entry"] = (int64_t)G->getEntry().getBlockID();
    F["exit"] = (int64_t)G->getExit().getBlockID();
    F["blocks"] = std::move(Blocks);
    // locals (collected through varId during export)
    json::Array Ls;
    for (auto &KV : VarIds) {
      const VarDecl *VD = KV.first;
      json::Object O;
      O["id"] = KV.second; O["name"] = VD->getName().str(); O["t"] = typeStr(C, VD->getType());
      O["param"] = isa<ParmVarDecl>(VD);
      if (auto Ex = extentsOf(C, VD->getType()); Ex.kind() != json::Value::Null) O["extent"] = std::move(Ex);
      std::string R = recordNameOf(VD->getType());
      if (!R.empty()) O["record"] = R;
      Ls.push_back(std::move(O));
    }
    F["vars"] = std::move(Ls);
    F["body"] = stree(FD->getBody());
    // locals again: the statement tree may have introduced ids
    F["exprs"] = std::move(Pool);
    return F;
  }
};

// ------------------------------------------------------------------------------------------------
// Global initialisers
// ------------------------------------------------------------------------------------------------
static json::Value initOf(Ctx &C, const Expr *E, bool elide, int depth = 0) {
  if (!E) return nullptr;
  E = E->IgnoreParens();
  if (const auto *IL = dyn_cast<InitListExpr>(E)) {
    json::Object O;
    unsigned N = IL->getNumInits();
    bool allNum = N > 0;
    if (elide && N > 64) {
      O["kind"] = "elided"; O["n"] = (int64_t)N;
      return json::Value(std::move(O));
    }
    json::Array A;
    for (unsigned i = 0; i < N; i++) A.push_back(initOf(C, IL->getInit(i), elide, depth + 1));
    (void)allNum;
    O["kind"] = "list";
    O["elems"] = std::move(A);
    if (IL->hasArrayFiller()) O["filler"] = true;
    std::string R = recordNameOf(IL->getType());
    if (!R.empty() && IL->getType()->isRecordType()) {
      O["record"] = R;
      json::Array Fs;
      if (const auto *RT = IL->getType()->getAs<RecordType>())
        for (const FieldDecl *F : RT->getDecl()->fields()) Fs.push_back(F->getName().str());
      O["fields"] = std::move(Fs);
    }
    return json::Value(std::move(O));
  }
  if (isa<ImplicitValueInitExpr>(E)) { json::Object O; O["kind"] = "zero"; return json::Value(std::move(O)); }
  Expr::EvalResult R;
  if (E->getType()->isIntegralOrEnumerationType() && E->EvaluateAsInt(R, *C.AC)) {
    return json::Value((int64_t)R.Val.getInt().getSExtValue());
  }
  if (E->getType()->isRealFloatingType()) {
    llvm::APFloat F(0.0);
    if (E->EvaluateAsFloat(F, *C.AC)) {
      bool lose;
      F.convert(llvm::APFloat::IEEEdouble(), llvm::APFloat::rmNearestTiesToEven, &lose);
      return json::Value(F.convertToDouble());
    }
  }
  // pointers: &x, x (array/function decay), casts thereof, string literals, 0
  const Expr *P = E->IgnoreParenCasts();
  bool castDropsConst = false;
  {
    // record whether a const-dropping cast sits on the way
    const Expr *W = E->IgnoreParens();
    while (const auto *CE = dyn_cast<CastExpr>(W)) {
      QualType From = CE->getSubExpr()->getType().getCanonicalType(), To = CE->getType().getCanonicalType();
      if (From->isPointerType() && To->isPointerType() &&
          From->getPointeeType().isConstQualified() && !To->getPointeeType().isConstQualified())
        castDropsConst = true;
      W = CE->getSubExpr()->IgnoreParens();
    }
  }
  if (const auto *UO = dyn_cast<UnaryOperator>(P)) if (UO->getOpcode() == UO_AddrOf) P = UO->getSubExpr()->IgnoreParenCasts();
  if (const auto *DR = dyn_cast<DeclRefExpr>(P)) {
    json::Object O;
    O["kind"] = "ref";
    O["name"] = DR->getDecl()->getName().str();
    O["fn"] = isa<FunctionDecl>(DR->getDecl());
    if (castDropsConst) O["drops_const"] = true;
    return json::Value(std::move(O));
  }
  if (isa<StringLiteral>(P)) { json::Object O; O["kind"] = "str"; return json::Value(std::move(O)); }
  if (E->isNullPointerConstant(*C.AC, Expr::NPC_ValueDependentIsNotNull)) return json::Value((int64_t)0);
  json::Object O; O["kind"] = "other"; O["cls"] = P->getStmtClassName();
  return json::Value(std::move(O));
}

// ------------------------------------------------------------------------------------------------
class Visitor : public RecursiveASTVisitor<Visitor> {
public:
  Ctx C;
  json::Array Records, Globals, Functions, Decls;
  std::set<std::string> SeenRecords;
  explicit Visitor(ASTContext &AC) { C.AC = &AC; C.SM = &AC.getSourceManager(); }

  bool VisitRecordDecl(RecordDecl *RD) {
    if (!RD->isCompleteDefinition()) return true;
    std::string Name = recordNameOf(C.AC->getRecordType(RD));
    if (Name.empty() || Name == "<anon>") return true;
    std::string File = fileOf(C, RD->getLocation());
    bool ogg = File.find("/ogg/") != std::string::npos;
    if (!inRepo(C, RD->getLocation()) && !ogg) return true;
    if (!SeenRecords.insert(Name).second) return true;
    json::Object O;
    O["name"] = Name;
    O["file"] = File;
    const ASTRecordLayout &L = C.AC->getASTRecordLayout(RD);
    O["size"] = (int64_t)L.getSize().getQuantity();
    json::Array Fs;
    unsigned idx = 0;
    for (const FieldDecl *F : RD->fields()) {
      json::Object JF;
      JF["name"] = F->getName().str();
      JF["t"] = typeStr(C, F->getType());
      if (auto Ex = extentsOf(C, F->getType()); Ex.kind() != json::Value::Null) JF["extent"] = std::move(Ex);
      std::string R = recordNameOf(F->getType());
      if (!R.empty()) JF["record"] = R;
      JF["ptr"] = F->getType()->isPointerType();
      JF["fnptr"] = F->getType()->isFunctionPointerType();
      JF["off"] = (int64_t)L.getFieldOffset(idx);
      Fs.push_back(std::move(JF));
      idx++;
    }
    O["fields"] = std::move(Fs);
    Records.push_back(std::move(O));
    return true;
  }

  bool VisitVarDecl(VarDecl *VD) {
    if (!VD->hasGlobalStorage()) return true;
    if (isa<ParmVarDecl>(VD)) return true;
    if (!inRepo(C, VD->getLocation())) return true;
    if (!VD->isThisDeclarationADefinition() && !VD->isStaticLocal()) return true;
    json::Object O;
    O["name"] = VD->getName().str();
    std::string File = fileOf(C, VD->getLocation());
    O["file"] = File;
    O["line"] = (int64_t)C.SM->getPresumedLineNumber(C.SM->getExpansionLoc(VD->getLocation()));
    O["t"] = typeStr(C, VD->getType());
    O["const"] = deepConst(VD->getType());
    O["static"] = VD->getStorageClass() == SC_Static;
    if (VD->isStaticLocal()) {
      O["fnlocal"] = true;
      if (const auto *FD = dyn_cast<FunctionDecl>(VD->getDeclContext())) O["fn"] = FD->getName().str();
    }
    if (auto Ex = extentsOf(C, VD->getType()); Ex.kind() != json::Value::Null) O["extent"] = std::move(Ex);
    std::string R = recordNameOf(VD->getType());
    if (!R.empty()) O["record"] = R;
    bool elide = File.find("/books/") != std::string::npos;
    if (VD->hasInit()) O["init"] = initOf(C, VD->getInit(), elide);
    Globals.push_back(std::move(O));
    return true;
  }

  bool VisitFunctionDecl(FunctionDecl *FD) {
    if (!inRepo(C, FD->getLocation())) return true;
    if (!FD->getIdentifier()) return true;
    {
      json::Object D;
      D["name"] = FD->getName().str();
      D["file"] = fileOf(C, FD->getLocation());
      D["def"] = FD->isThisDeclarationADefinition();
      D["ret_t"] = typeStr(C, FD->getReturnType());
      json::Array Ps;
      for (const ParmVarDecl *P : FD->parameters()) Ps.push_back(typeStr(C, P->getType()));
      D["params"] = std::move(Ps);
      Decls.push_back(std::move(D));
    }
    if (!FD->isThisDeclarationADefinition() || !FD->hasBody()) return true;
    FnExporter X(C, FD);
    Functions.push_back(X.run());
    return true;
  }
};

class Consumer : public ASTConsumer {
public:
  void HandleTranslationUnit(ASTContext &AC) override {
    Visitor V(AC);
    V.TraverseDecl(AC.getTranslationUnitDecl());
    json::Object U;
    SourceManager &SM = AC.getSourceManager();
    if (auto FE = SM.getFileEntryForID(SM.getMainFileID())) U["file"] = FE->getName().str();
    U["records"] = std::move(V.Records);
    U["globals"] = std::move(V.Globals);
    U["functions"] = std::move(V.Functions);
    U["decls"] = std::move(V.Decls);
    U["errors"] = (int64_t)AC.getDiagnostics().getNumErrors();
    std::error_code EC;
    llvm::raw_fd_ostream OS(gOutPath, EC);
    if (EC) { llvm::errs() << "vx: cannot write " << gOutPath << "\n"; return; }
    OS << json::Value(std::move(U));
    OS << "\n";
  }
};

class Action : public ASTFrontendAction {
public:
  std::unique_ptr<ASTConsumer> CreateASTConsumer(CompilerInstance &, StringRef) override {
    return std::make_unique<Consumer>();
  }
};

} // namespace

int main(int argc, const char **argv) {
  if (argc < 5) {
    llvm::errs() << "usage: vx <repo-root> <out.json> <file.c> -- <flags>\n";
    return 2;
  }
  gRepoRoot = argv[1];
  gOutPath = argv[2];
  std::string File = argv[3];
  std::vector<std::string> Flags;
  int i = 4;
  if (std::string(argv[i]) == "--") i++;
  for (; i < argc; i++) Flags.push_back(argv[i]);
  clang::tooling::FixedCompilationDatabase DB(".", Flags);
  clang::tooling::ClangTool Tool(DB, {File});
  int rc = Tool.run(clang::tooling::newFrontendActionFactory<Action>().get());
  return rc;
}
