"""Pair invariant `lo-field <= hi-field` of one record, kept by every function that stores either field (DESIGN 3.3, K4
companion).  Used for vorbis_dsp_state: pcm_returned <= pcm_current ("what was handed out never passes what was decoded").

A small forward analysis over the CFG.  The abstract state is
    inv      the invariant is known to hold now
    touched  one of the two fields was stored on this path
    ub       for integer locals: a set of affine upper bounds  a*HI + b*LO + d  (all valid at once)
    hexp,lexp the text of the last plain value stored into HI / LO (equal texts = equal values)
    pend     a shift applied to one field that the next store applies to the other (`hi-=n; lo-=n;`)
The half-rate shift count is made concrete (the analysis is run for hs=0 and hs=1), so `x<<hs` and `x>>hs` are exact
scalings.  Transfer: a store `HI -= T` / `LO += T` keeps the invariant iff some upper bound of T is <= HI-LO; a store
`HI += T` / `LO -= T` keeps it iff K4 shows T >= 0; `LO = HI` and `HI = e; LO = e` establish it; `HI = LO' + T` with
T >= 0 establishes it.  Branches refine: `x > E` false gives x <= E, `LO + n > HI` false gives n <= HI-LO, `LO > HI`
false gives the invariant.  Joins intersect.  No value is computed; shifts of negative amounts are covered by the
separate K4 obligation that every trimmed amount is non-negative."""
import cfg


class St:
    __slots__ = ('inv', 'touched', 'ub', 'hexp', 'lexp', 'pend', 'nn')

    def __init__(self, inv=True, touched=False, ub=None, hexp=None, lexp=None, pend=None, nn=frozenset()):
        self.inv, self.touched, self.ub, self.hexp, self.lexp, self.pend = inv, touched, dict(ub or {}), hexp, lexp, pend
        self.nn = frozenset(nn)      # locals known to be >= 0

    def copy(self):
        return St(self.inv, self.touched, self.ub, self.hexp, self.lexp, self.pend, self.nn)

    def key(self):
        return (self.inv, self.touched, tuple(sorted((k, tuple(sorted(v))) for k, v in self.ub.items())), self.hexp, self.lexp,
                self.pend, tuple(sorted(self.nn)))


def leq(q, p):
    """affine bound q <= p for all HI >= LO"""
    d = (p[0] - q[0], p[1] - q[1], p[2] - q[2])
    return d[0] == -d[1] and d[0] >= 0 and d[2] >= 0


def join(a, b):
    if a is None:
        return b.copy()
    if b is None:
        return a.copy()
    ub = {}
    for k in set(a.ub) & set(b.ub):
        # a bound survives when the other side has a bound at least as tight (x<=0 on one path, x<=HI-LO on the other)
        s = {p for p in (a.ub[k] | b.ub[k]) if any(leq(q, p) for q in a.ub[k]) and any(leq(q, p) for q in b.ub[k])}
        if s:
            ub[k] = frozenset(s)
    return St(a.inv and b.inv, a.touched or b.touched, ub, a.hexp if a.hexp == b.hexp else None,
              a.lexp if a.lexp == b.lexp else None, a.pend if a.pend == b.pend else None, a.nn & b.nn)


class PairInv:
    def __init__(self, P, F, rec, lo, hi, k, nonneg, is_hs):
        """nonneg(eid) -> bool: K4 shows the expression is >= 0 wherever it is evaluated; is_hs(eid) -> shift count is the
        half-rate flag; k: its concrete value in this run"""
        self.P, self.F, self.rec, self.lo, self.hi, self.k = P, F, rec, lo, hi, k
        self.nonneg, self.is_hs = nonneg, is_hs
        self.problems = []     # (eid, message)
        self.stores = 0
        self.amount_nn = {}    # store eid -> the amount added / subtracted is >= 0 on every path

    # -- expressions ------------------------------------------------------------------------------------
    def fld(self, e):
        nd = self.F.ex[self.F.strip_casts(e)]
        if nd['k'] == 'member' and nd.get('record') == self.rec:
            if nd['field'] == self.hi:
                return 'H'
            if nd['field'] == self.lo:
                return 'L'
        return None

    def shift_count(self, e):
        F = self.F
        nd = F.ex[F.strip_casts(e)]
        if nd['k'] == 'int':
            return nd['v']
        if self.is_hs(F.strip_casts(e)):
            return self.k
        if nd['k'] == 'bin' and nd['op'] == '+':
            a, b = self.shift_count(nd['c'][0]), self.shift_count(nd['c'][1])
            return None if a is None or b is None else a + b
        return None

    def exact(self, e):
        """affine form over (HI, LO) of an expression built from the two fields and constants, or None"""
        F = self.F
        e = F.strip_casts(e)
        nd = F.ex[e]
        f = self.fld(e)
        if f == 'H':
            return (1, 0, 0)
        if f == 'L':
            return (0, 1, 0)
        if nd['k'] == 'int':
            return (0, 0, nd['v'])
        if nd['k'] == 'bin' and nd['op'] in ('+', '-'):
            a, b = self.exact(nd['c'][0]), self.exact(nd['c'][1])
            if a is None or b is None:
                return None
            s = 1 if nd['op'] == '+' else -1
            return (a[0] + s * b[0], a[1] + s * b[1], a[2] + s * b[2])
        if nd['k'] == 'bin' and nd['op'] == '<<':
            a, c = self.exact(nd['c'][0]), self.shift_count(nd['c'][1])
            if a is None or c is None or c < 0:
                return None
            return (a[0] << c, a[1] << c, a[2] << c)
        return None

    @staticmethod
    def nonneg_bound(p):
        return p == (1, -1, 0) or (p[0] == 0 and p[1] == 0 and p[2] >= 0)

    def ubs(self, st, e):
        """set of affine upper bounds of e"""
        F = self.F
        e = F.strip_casts(e)
        nd = F.ex[e]
        x = self.exact(e)
        if x is not None:
            return {x}
        if nd['k'] == 'ref' and nd['decl'].get('kind') in ('var', 'param'):
            return set(st.ub.get(nd['decl']['id'], ()))
        if nd['k'] == 'assign' and nd['op'] == '=':
            return self.ubs(st, nd['c'][1])
        if nd['k'] == 'bin' and nd['op'] == '+':
            a, b = self.ubs(st, nd['c'][0]), self.ubs(st, nd['c'][1])
            return {(p[0] + q[0], p[1] + q[1], p[2] + q[2]) for p in a for q in b}
        if nd['k'] == 'bin' and nd['op'] == '-':
            a, b = self.ubs(st, nd['c'][0]), self.exact(nd['c'][1])
            if b is None:
                return set()
            return {(p[0] - b[0], p[1] - b[1], p[2] - b[2]) for p in a}
        if nd['k'] == 'bin' and nd['op'] == '<<':
            c = self.shift_count(nd['c'][1])
            if c is None or c < 0:
                return set()
            return {(p[0] << c, p[1] << c, p[2] << c) for p in self.ubs(st, nd['c'][0])}
        if nd['k'] == 'bin' and nd['op'] == '>>':
            c = self.shift_count(nd['c'][1])
            if c is None or c < 0:
                return set()
            out = set()
            for p in self.ubs(st, nd['c'][0]):
                m = 1 << c
                if p[0] % m == 0 and p[1] % m == 0:
                    out.add((p[0] // m, p[1] // m, p[2] >> c))
                if self.nonneg_bound(p):
                    out.add(p)           # x>>c <= x for x >= 0, and x <= p with p >= 0
            return out
        if nd['k'] == 'cond':
            a, b = self.ubs(st, nd['c'][1]), self.ubs(st, nd['c'][2])
            return a & b
        return set()

    def is_nn(self, st, e):
        """e >= 0 in this state: a constant, a local known non-negative, HI-LO (+ a non-negative constant) while the
        invariant holds, shifts of those, or what K4 proved"""
        F = self.F
        e = F.strip_casts(e)
        nd = F.ex[e]
        if nd['k'] == 'int':
            return nd['v'] >= 0
        if nd['k'] == 'ref' and nd['decl'].get('id') in st.nn:
            return True
        x = self.exact(e)
        if x is not None and st.inv and x[0] == -x[1] and x[0] >= 0 and x[2] >= 0:
            return True
        if nd['k'] == 'bin' and nd['op'] in ('>>', '<<'):
            return self.is_nn(st, nd['c'][0])
        if nd['k'] == 'bin' and nd['op'] in ('+', '*'):
            if self.is_nn(st, nd['c'][0]) and self.is_nn(st, nd['c'][1]):
                return True
        if nd['k'] == 'assign' and nd['op'] == '=':
            return self.is_nn(st, nd['c'][1])
        return bool(self.nonneg(e))

    def within_window(self, st, e):
        """is e <= HI-LO (given LO <= HI)"""
        for p in self.ubs(st, e):
            if (p[0], p[1]) == (1, -1) and p[2] <= 0:
                return True
            if p[0] == 0 and p[1] == 0 and p[2] <= 0:
                return True
        return False

    # -- statements -------------------------------------------------------------------------------------
    def kill_field_bounds(self, st):
        for v in list(st.ub):
            s = {p for p in st.ub[v] if p[0] == 0 and p[1] == 0}
            if s:
                st.ub[v] = frozenset(s)
            else:
                del st.ub[v]

    def assign(self, st, e):
        F = self.F
        nd = F.ex[e]
        l = F.strip_casts(nd['c'][0])
        ln = F.ex[l]
        f = self.fld(l)
        op = nd['op']
        rhs = nd['c'][1]
        if f is None:
            if ln['k'] == 'ref' and ln['decl'].get('kind') in ('var', 'param'):
                vid = ln['decl']['id']
                if op == '=':
                    b = self.ubs(st, rhs)
                elif op == '>>=':
                    c = self.shift_count(rhs)
                    b = set()
                    if c is not None and c >= 0:
                        for p in st.ub.get(vid, ()):
                            m = 1 << c
                            if p[0] % m == 0 and p[1] % m == 0:
                                b.add((p[0] // m, p[1] // m, p[2] >> c))
                            if self.nonneg_bound(p):
                                b.add(p)
                elif op == '-=' and self.nonneg(F.strip_casts(rhs)):
                    b = set(st.ub.get(vid, ()))
                else:
                    b = set()
                if b:
                    st.ub[vid] = frozenset(b)
                else:
                    st.ub.pop(vid, None)
                if (op == '=' and self.is_nn(st, rhs)) or (op in ('>>=', '<<=', '+=', '*=') and vid in st.nn and
                                                            (op in ('>>=', '<<=') or self.is_nn(st, rhs))):
                    st.nn = st.nn | {vid}
                else:
                    st.nn = st.nn - {vid}
                # a local that names a stored value may change: forget texts that mention it
                nm = F.s(l)
                if st.hexp and nm in st.hexp:
                    st.hexp = None
                if st.lexp and nm in st.lexp:
                    st.lexp = None
            return
        self.stores += 1
        st.touched = True
        if op in ('+=', '-='):
            self.amount_nn[e] = self.amount_nn.get(e, True) and self.is_nn(st, rhs)
        txt = F.s(F.strip_casts(rhs))
        if op == '=':
            ok = False
            if f == 'L' and self.fld(rhs) == 'H':
                ok = True
                st.lexp = st.hexp
            elif f == 'H' and self.fld(rhs) == 'L':
                ok = True
                st.hexp = st.lexp
            else:
                if f == 'H':
                    st.hexp = txt
                else:
                    st.lexp = txt
                if st.hexp is not None and st.hexp == st.lexp:
                    ok = True
                elif f == 'H' and st.lexp == '0' and self.nonneg(F.strip_casts(rhs)):
                    ok = True
                elif f == 'H' and st.lexp is not None:
                    r = F.ex[F.strip_casts(rhs)]
                    if r['k'] == 'bin' and r['op'] == '+':
                        a, b = F.strip_casts(r['c'][0]), F.strip_casts(r['c'][1])
                        if F.s(a) == st.lexp and self.nonneg(b):
                            ok = True
                        elif F.s(b) == st.lexp and self.nonneg(a):
                            ok = True
                elif f == 'L':
                    c = F.ex[F.strip_casts(rhs)]
                    if c['k'] == 'int' and c['v'] <= 0 and self.nonneg_field_hi:
                        ok = True
                    if c['k'] == 'un' and c['op'] == '-' and F.ex[F.strip_casts(c['c'][0])]['k'] == 'int' and self.nonneg_field_hi:
                        ok = True
            st.inv = ok
            st.pend = None
            self.kill_field_bounds(st)
            return
        if op in ('+=', '-='):
            shrink = (f == 'H' and op == '-=') or (f == 'L' and op == '+=')
            key = (op, txt)
            if st.pend is not None and st.pend[0] != f and st.pend[1:3] == key:
                # the same shift applied to the other field: the difference is what it was
                st.inv = st.pend[3]
                st.pend = None
            elif shrink:
                if not (st.inv and self.within_window(st, rhs)):
                    if st.inv:
                        self.problems.append((e, f'{F.s(e)}: the amount is not bounded by {self.hi}-{self.lo} on this path'))
                    st.pend = (f,) + key + (st.inv,)
                    st.inv = False
                else:
                    st.pend = None
            else:
                st.pend = (f,) + key + (st.inv,)
                st.inv = st.inv and self.nonneg(F.strip_casts(rhs))
            if f == 'H':
                st.hexp = None
            else:
                st.lexp = None
            self.kill_field_bounds(st)
            return
        st.inv = False
        st.pend = None
        self.kill_field_bounds(st)

    nonneg_field_hi = True     # HI >= 0 is a separate K4 state invariant (checked by the caller)

    def step(self, st, e):
        F = self.F
        for n in F.walk(e, into_elems=False) if hasattr(F, 'walk') else [e]:
            pass
        nd = F.ex[e]
        # evaluate nested assignments first (innermost first)
        for c in nd.get('c', []):
            if c:
                self.step(st, c)
        if nd['k'] == 'assign':
            self.assign(st, e)
        elif nd['k'] == 'un' and nd['op'] in ('pre++', 'post++', 'pre--', 'post--'):
            f = self.fld(nd['c'][0])
            if f is not None:
                st.touched = True
                st.inv = False
                self.kill_field_bounds(st)
            else:
                ln = F.ex[F.strip_casts(nd['c'][0])]
                if ln['k'] == 'ref':
                    st.ub.pop(ln['decl'].get('id'), None)
                    if nd['op'] in ('pre--', 'post--'):
                        st.nn = st.nn - {ln['decl'].get('id')}
        elif nd['k'] == 'call' and nd['callee'].get('d') == 'memset' and len(nd.get('c', [])) >= 2:
            a0 = F.ex[F.strip_casts(nd['c'][0])]
            z = F.ex[F.strip_casts(nd['c'][1])]
            if a0['k'] == 'ref' and str(a0.get('t', '')).replace('struct ', '').replace(' ', '') == self.rec + '*' and \
                    z['k'] == 'int' and z['v'] == 0:
                st.hexp = st.lexp = '0'
                st.inv = True
                st.touched = True
                st.pend = None
                self.kill_field_bounds(st)
        elif nd['k'] == 'decl':
            for v in nd.get('vars', []):
                if v.get('init') is not None and 'id' in v:
                    self.step(st, v['init'])
                    b = self.ubs(st, v['init'])
                    if b:
                        st.ub[v['id']] = frozenset(b)
                    else:
                        st.ub.pop(v['id'], None)
                    st.nn = (st.nn | {v['id']}) if self.is_nn(st, v['init']) else (st.nn - {v['id']})

    def refine(self, st, cond, truth):
        F = self.F
        c = F.strip_casts(cond)
        nd = F.ex[c]
        if nd['k'] == 'un' and nd['op'] == '!':
            return self.refine(st, nd['c'][0], not truth)
        if nd['k'] == 'ref' and nd['decl'].get('kind') in ('var', 'param') and not truth:
            vid = nd['decl']['id']            # if(x) false: x == 0
            st.ub[vid] = frozenset(set(st.ub.get(vid, ())) | {(0, 0, 0)})
            return st
        if nd['k'] != 'bin' or nd['op'] not in ('<', '<=', '>', '>='):
            return st
        op = nd['op']
        a, b = nd['c']
        if not truth:
            op = {'<': '>=', '<=': '>', '>': '<=', '>=': '<'}[op]
        if op in ('>', '>='):
            a, b, op = b, a, {'>': '<', '>=': '<='}[op]
        # now a op b with op in < <=
        fa, fb = self.fld(a), self.fld(b)
        if fa == 'L' and fb == 'H':
            st.inv = True
            return st
        if fa == 'H' and fb == 'L' and op == '<':
            st.inv = False
            return st
        an = F.ex[F.strip_casts(a)]
        eb = self.exact(b)
        bn = F.ex[F.strip_casts(b)]
        # c <= x / c < x with a constant c >= 0 (from `x<0` being false, `x>=0`, `x>0` being true)
        if bn['k'] == 'ref' and bn['decl'].get('kind') in ('var', 'param') and an['k'] == 'int' and \
                (an['v'] >= 0 if op == '<=' else an['v'] >= -1):
            st.nn = st.nn | {bn['decl']['id']}
        if an['k'] == 'ref' and an['decl'].get('kind') in ('var', 'param'):
            vid = an['decl']['id']
            new = set(self.ubs(st, b))
            if op == '<':
                new = {(p[0], p[1], p[2] - 1) for p in new} | new
            if new:
                st.ub[vid] = frozenset(set(st.ub.get(vid, ())) | new)
            return st
        # LO + x <= HI  ->  x <= HI - LO
        if an['k'] == 'bin' and an['op'] == '+' and eb is not None:
            for u, w in ((an['c'][0], an['c'][1]), (an['c'][1], an['c'][0])):
                eu = self.exact(u)
                wn = F.ex[F.strip_casts(w)]
                if eu is not None and wn['k'] == 'ref' and wn['decl'].get('kind') in ('var', 'param'):
                    p = (eb[0] - eu[0], eb[1] - eu[1], eb[2] - eu[2])
                    vid = wn['decl']['id']
                    st.ub[vid] = frozenset(set(st.ub.get(vid, ())) | {p})
        return st

    # -- fixpoint ---------------------------------------------------------------------------------------
    def run(self):
        F = self.F
        inn = {F.entry: St()}
        work = [F.entry]
        self.exits = []
        guard = 0
        while work:
            guard += 1
            if guard > 20000:
                raise RuntimeError('pairinv: no fixpoint')
            b = work.pop()
            st = inn[b].copy()
            blk = F.blocks[b]
            for e in blk['elems']:
                self.step(st, e)
            t = blk.get('term')
            succs = blk['succs']
            outs = []
            if t and t.get('cond') is not None and len(succs) == 2 and t.get('kind') != 'switch':
                for si, truth in ((0, True), (1, False)):
                    if succs[si] is not None:
                        outs.append((succs[si], self.refine(st.copy(), t['cond'], truth)))
            else:
                for s in succs:
                    if s is not None:
                        outs.append((s, st.copy()))
            for s, o in outs:
                old = inn.get(s)
                new = join(old, o)
                if old is None or new.key() != old.key():
                    inn[s] = new
                    if s not in work:
                        work.append(s)
        self.problems = []
        self.stores = 0
        self.amount_nn = {}
        # final pass: collect problems and exit states with the stable inputs
        for b in sorted(inn):
            st = inn[b].copy()
            for e in F.blocks[b]['elems']:
                self.step(st, e)
                if F.ex[e]['k'] == 'ret':
                    self.exits.append((e, st.copy()))
        if F.exit in inn:
            self.exit_state = inn[F.exit]
        return self
