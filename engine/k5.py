"""K5 — typestate of the OggVorbis_File handle (DESIGN 3.3/K5).

Abstract state of one handle: (ready_state, vd_live, vb_live).  ready_state is the K4 value of vf->ready_state
(0 NOTOPEN .. 4 INITSET); vd_live / vb_live say whether vf->vd / vf->vb currently hold an initialised decoder / block.
The K4 interpreter is partitioned by the liveness flags; every internal function that takes a handle gets an exact
relational summary per *entry state* (ready_state constant, flags, constant integer arguments), computed on demand and
memoised: entry state -> set of (result class, ready_state range at exit, flags at exit).  At a call site the caller's
state is enumerated (ready_state is a small range), the callee's outcomes are applied by forking the state.

Checked by the clients (rules/c03.py, c12.py):
  * at every call of a decode function that needs a live decoder / block, the object is live;
  * at every exit of a public API function entered in a consistent state, the state is consistent again
    (ready_state==INITSET  <=>  vd and vb live);
  * OV_EFAULT ("internal logic fault") is not returned from a consistent entry state."""
import absint
import k6
from absint import V, K, INF, Hooks, join, int_type_range
from facts import AnalysisBroken

NOTOPEN, PARTOPEN, OPENED, STREAMSET, INITSET = 0, 1, 2, 3, 4
OV_EFAULT = -129
HANDLE = 'OggVorbis_File'
# decode functions and what they need alive: name -> (needs vd, needs vb) keyed by which member is passed
NEEDS_LIVE = {
    'vorbis_synthesis_trackonly': 'vb',     # dereferences vb->vd->vi
    'vorbis_synthesis_blockin': 'vd',       # dereferences v->vi->codec_setup
    'vorbis_synthesis_lapout': 'vd',
    'vorbis_synthesis_pcmout': 'vd',
    'vorbis_synthesis_halfrate_p': None,
}


def consistent(rs, vd, vb):
    return (rs == INITSET) == bool(vd) and (rs == INITSET) == bool(vb)


class TS(Hooks):
    def __init__(self, K5, F, entry):
        self.K5, self.F, self.P = K5, F, K5.P
        self.entry = entry          # {param idx: (rs, vd, vb)}
        self.hparams = {p['id']: i for i, p in enumerate(F.params) if k6.base_record(p['t']) == HANDLE and p['t'].endswith('*')}
        self.uses = []              # (eid, callee, member, live?) final pass
        self.ready_calls = []       # (eid, ready_state value before the call) for _make_decode_ready
        self.info_clears = []       # (eid, decoder cleared?, ready_state) for vorbis_info_clear on the handle's set-up
        self.calls_unknown = []
        self.link_stores = []       # (eid, decoder live?, ready_state) for stores to the handle's current_link

    # -- state ------------------------------------------------------------------------------------
    def flags(self, env):
        return env.get('$ts', frozenset())

    def on_entry(self, A, env):
        fl = set()
        for pid, i in self.hparams.items():
            env[f'v{pid}'] = V(nn=True)        # the model covers calls with a handle; a NULL handle is API misuse
            ent = self.entry.get(i, (None, False, False, False))
            rs, vd, vb = ent[0], ent[1], ent[2]
            qe = ent[3] if len(ent) > 3 else False
            if qe:
                fl.add(f'qe@{i}')
            if rs is not None:
                env[f'v{pid}->ready_state'] = K(rs)
                A.keyinfo[f'v{pid}->ready_state'] = ((HANDLE, 'ready_state', False), (-2 ** 31, 2 ** 31 - 1))
            if vd:
                fl.add(f'vd@{i}')
            if vb:
                fl.add(f'vb@{i}')
        env['$ts'] = frozenset(fl)
        return env

    def join_special(self, k, a, b):
        return a if a == b else None

    def handle_member(self, A, env, a):
        """argument `&vf->vd` / `&vf->vb` / `vf` -> (param idx, member or None) when vf is a handle parameter"""
        F = self.F
        x = F.ex[F.strip_casts(a)]
        if x['k'] == 'un' and x['op'] == '&':
            m = F.ex[F.strip_casts(x['c'][0])]
            if m['k'] == 'member' and m.get('record') == HANDLE and m['field'] in ('vd', 'vb', 'os'):
                b = F.ex[F.strip_casts(m['c'][0])]
                if b['k'] == 'ref' and b['decl'].get('id') in self.hparams:
                    return self.hparams[b['decl']['id']], m['field']
        if x['k'] == 'ref' and x['decl'].get('id') in self.hparams:
            return self.hparams[x['decl']['id']], None
        # vf->vi, vf->vi+link, &vf->vi[link]: the handle's set-up array
        y = x
        if y['k'] == 'un' and y['op'] == '&':
            y = F.ex[F.strip_casts(y['c'][0])]
            if y['k'] == 'sub':
                y = F.ex[F.strip_casts(y['c'][0])]
        if y['k'] == 'bin' and y['op'] == '+':
            y = F.ex[F.strip_casts(y['c'][0])]
        if y['k'] == 'member' and y.get('record') == HANDLE and y['field'] in ('vi',):
            b = F.ex[F.strip_casts(y['c'][0])]
            if b['k'] == 'ref' and b['decl'].get('id') in self.hparams:
                return self.hparams[b['decl']['id']], y['field']
        return None

    def set_live(self, env, i, member, live):
        fl = set(self.flags(env))
        key = f'{member}@{i}'
        if live:
            fl.add(key)
        else:
            fl.discard(key)
        env['$ts'] = frozenset(fl)

    # -- events -------------------------------------------------------------------------------------
    def on_node(self, A, env, e, v):
        if not A.final:
            return
        nd = A.ex[e]
        tgt = None
        if nd['k'] == 'assign':
            tgt = nd['c'][0]
        elif nd['k'] == 'un' and nd['op'] in ('pre++', 'post++', 'pre--', 'post--'):
            tgt = nd['c'][0]
        if tgt is None:
            return
        l = A.ex[self.F.strip_casts(tgt)]
        if l['k'] == 'member' and l.get('record') == HANDLE and l['field'] == 'current_link':
            b = A.ex[self.F.strip_casts(l['c'][0])]
            if b['k'] == 'ref' and b['decl'].get('id') in self.hparams:
                i = self.hparams[b['decl']['id']]
                self.link_stores.append((e, f'vd@{i}' in self.flags(env), self._rs(A, env, i)))

    def on_call(self, A, env, e, avals):
        nd = A.ex[e]
        d = nd['callee'].get('d')
        args = nd.get('c', [])
        if d in ('vorbis_dsp_clear', 'vorbis_block_clear') and args:
            hm = self.handle_member(A, env, args[0])
            if hm and hm[1]:
                self.set_live(env, hm[0], hm[1], False)
            return None
        if d == 'vorbis_block_init' and len(args) > 1:
            hm = self.handle_member(A, env, args[1])
            if hm and hm[1] == 'vb':
                self.set_live(env, hm[0], 'vb', True)
            return None
        if d in ('ogg_stream_pagein',) and args:
            hm = self.handle_member(A, env, args[0])
            if hm and hm[1] == 'os':
                self.set_live(env, hm[0], 'qe', False)
            return None
        if d in ('ogg_stream_reset', 'ogg_stream_reset_serialno', 'ogg_stream_init', 'ogg_stream_clear') and args:
            hm = self.handle_member(A, env, args[0])
            if hm and hm[1] == 'os':
                self.set_live(env, hm[0], 'qe', True)
            return None
        if d == 'memset' and args:
            hm = self.handle_member(A, env, args[0])
            if hm and hm[1] is None and avals[1].const() == 0:
                self.set_live(env, hm[0], 'vd', False)
                self.set_live(env, hm[0], 'vb', False)
            return None
        # remember the handle states as they are before the call's own effects are applied (the fork runs afterwards)
        pre = {}
        for pid, i in self.hparams.items():
            v = env.get(f'v{pid}->ready_state')
            pre[i] = v
        env['$pre'] = (e, pre)
        if d == '_make_decode_ready' and args and A.final:
            hm = self.handle_member(A, env, args[0])
            if hm:
                self.ready_calls.append((e, pre.get(hm[0])))
        if d == 'vorbis_info_clear' and args and A.final:
            hm = self.handle_member(A, env, args[0])
            if hm and hm[1] == 'vi':
                self.info_clears.append((e, f'vd@{hm[0]}' not in self.flags(env), self._rs(A, env, hm[0])))
        if d in NEEDS_LIVE and NEEDS_LIVE[d] and args and A.final:
            hm = self.handle_member(A, env, args[0])
            if hm and hm[1]:
                need = NEEDS_LIVE[d]
                # blockin(&vd,&vb): both
                ok = f'{need}@{hm[0]}' in self.flags(env)
                self.uses.append((e, d, need, ok, self._rs(A, env, hm[0])))
        return None

    def _rs(self, A, env, i, call=None):
        if call is not None:
            pre = env.get('$pre')
            if pre and pre[0] == call and pre[1].get(i) is not None:
                return pre[1][i]
        for pid, j in self.hparams.items():
            if j == i:
                v = env.get(f'v{pid}->ready_state')
                return v if v is not None else V(0, 4)
        return V(0, 4)

    def fork(self, A, env, e):
        nd = A.ex[e]
        if nd['k'] != 'call':
            return None
        d = nd['callee'].get('d')
        args = nd.get('c', [])
        if d == 'vorbis_synthesis_init' and args:
            hm = self.handle_member(A, env, args[0])
            if hm and hm[1] == 'vd':
                outs = []
                for cls, live in (('zero', True), ('pos', False), ('neg', False)):
                    e2 = env.copy()
                    tmp = dict(e2.get('$tmp') or {})
                    cur = tmp.get(e)
                    nv = k6.class_value(cls, (-2 ** 31, 2 ** 31 - 1))
                    if cur is not None:
                        nv = cur.copy(lo=max(cur.lo, nv.lo), hi=min(cur.hi, nv.hi))
                        if nv.is_bottom():
                            continue
                    tmp[e] = nv
                    e2['$tmp'] = tmp
                    self.set_live(e2, hm[0], 'vd', live)
                    outs.append(e2)
                return outs
            return None
        if d in ('ogg_stream_packetpeek', 'ogg_stream_packetout') and args:
            hm = self.handle_member(A, env, args[0])
            if hm and hm[1] == 'os':
                # libogg contract: a result <= 0 means no complete packet is queued, and only ogg_stream_pagein changes that
                outs = []
                known_empty = f'qe@{hm[0]}' in self.flags(env)
                for cls, empty in ((('nonpos'), True), ('pos', False)):
                    if known_empty and not empty:
                        continue
                    e2 = env.copy()
                    tmp = dict(e2.get('$tmp') or {})
                    cur = tmp.get(e)
                    nv = k6.class_value(cls, (-2 ** 31, 2 ** 31 - 1))
                    if cur is not None:
                        nv = cur.copy(lo=max(cur.lo, nv.lo), hi=min(cur.hi, nv.hi))
                        if nv.is_bottom():
                            continue
                    tmp[e] = nv
                    e2['$tmp'] = tmp
                    self.set_live(e2, hm[0], 'qe', empty)
                    outs.append(e2)
                return outs
            return None
        tg = self.P.call_targets(self.F, e)
        tg = [t for t in tg if not t.startswith(('ext:', 'cb:', 'unk:'))] if tg and all(not t.startswith(('cb:', 'unk:')) for t in tg) else tg
        if not tg or any(t.startswith(('ext:', 'cb:', 'unk:')) for t in tg):
            return None
        outs = []
        for t in tg:
            r = self._fork_target(A, env.copy() if len(tg) > 1 else env, e, t, args)
            if r is None:
                return None
            outs += r
        return outs

    def _fork_target(self, A, env, e, target, args):
        tg = [target]
        G = self.P.fn[tg[0]]
        gh = [i for i, p in enumerate(G.params) if k6.base_record(p['t']) == HANDLE and p['t'].endswith('*')]
        if not gh:
            return None
        # bind the callee's handle parameters to ours
        bind = {}
        for gi in gh:
            if gi < len(args):
                hm = self.handle_member(A, env, args[gi])
                if hm and hm[1] is None:
                    bind[gi] = hm[0]
        if not bind:
            return None
        # constant integer arguments are part of the summary key
        consts = []
        for i, p in enumerate(G.params):
            if i < len(args) and int_type_range(p['t']):
                c = A.peek(env, args[i]).const()
                consts.append((i, c))
        consts = tuple(consts)
        # enumerate our current state for the bound handles
        per = []
        for gi, mi in sorted(bind.items()):
            rs = self._rs(A, env, mi, call=e)
            lo, hi = max(0, int(rs.lo) if rs.lo != -INF else 0), min(4, int(rs.hi) if rs.hi != INF else 4)
            vd, vb, qe = f'vd@{mi}' in self.flags(env), f'vb@{mi}' in self.flags(env), f'qe@{mi}' in self.flags(env)
            per.append([(gi, mi, r, vd, vb, qe) for r in range(lo, hi + 1)])
        import itertools
        outcomes = set()
        for combo in itertools.product(*per):
            entry = {gi: (r, vd, vb, qe) for (gi, mi, r, vd, vb, qe) in combo}
            sm = self.K5.summary(tg[0], entry, consts)
            if sm is None:
                self.calls_unknown.append((e, tg[0]))
                return None
            for o in sm:
                outcomes.add((tuple(sorted((gi, mi) for (gi, mi, r, vd, vb, qe) in combo)), o))
        if not outcomes:
            # the callee never returns from this state
            return []
        tr = int_type_range(G.d.get('ret_t', ''))
        outs = []
        seen = set()
        for (bnd, (cls, rv_lo, rv_hi, exits)) in sorted(outcomes, key=str):
            if (cls, rv_lo, rv_hi, exits, bnd) in seen:
                continue
            seen.add((cls, rv_lo, rv_hi, exits, bnd))
            e2 = env.copy()
            tmp = dict(e2.get('$tmp') or {})
            cur = tmp.get(e)
            nv = V(rv_lo, rv_hi) if cls != 'void' else V()
            if cur is not None and cls != 'void':
                nv = cur.copy(lo=max(cur.lo, nv.lo), hi=min(cur.hi, nv.hi))
                if nv.is_bottom():
                    continue
            tmp[e] = nv
            e2['$tmp'] = tmp
            bm = dict(bnd)
            variants = [e2]
            for (gi, rlo, rhi, vd, vb, qe) in exits:
                mi = bm.get(gi)
                if mi is None:
                    continue
                nxt = []
                for ev_ in variants:
                    for r in range(rlo, rhi + 1):
                        e3 = ev_.copy() if rhi > rlo else ev_
                        for pid, j in self.hparams.items():
                            if j == mi:
                                e3[f'v{pid}->ready_state'] = K(r)
                        self.set_live(e3, mi, 'vd', vd)
                        self.set_live(e3, mi, 'vb', vb)
                        self.set_live(e3, mi, 'qe', qe)
                        nxt.append(e3)
                variants = nxt
            outs += variants
        return outs


class K5:
    def __init__(self, P):
        self.P = P
        absint.writers_of(P)
        self.memo = {}
        self.inprogress = set()
        self.runs = 0
        self.recursion_assumed = set()

    def handle_params(self, F):
        return [i for i, p in enumerate(F.params) if k6.base_record(p['t']) == HANDLE and p['t'].endswith('*')]

    def analyse(self, key, entry, consts=()):
        F = self.P.fn[key]
        h = TS(self, F, entry)
        pinit = {}
        for (i, c) in consts:
            if c is not None and i < len(F.params):
                pinit[F.params[i]['name']] = K(c)
        hkeys = [f'v{pid}->ready_state' for pid in sorted(h.hparams)]

        def part(A_, env):
            rs = []
            for k_ in hkeys:
                v = env.get(k_)
                rs.append(v.const() if isinstance(v, V) else None)
            return (env.get('$ts', frozenset()), tuple(rs))
        A = absint.Analyzer(self.P, F, hooks=h, param_init=pinit, partition=part)
        A.run()
        self.runs += 1
        return A, h

    def summary(self, key, entry, consts=()):
        """set of (result class, result lo, result hi, ((handle param, rs lo, rs hi, vd, vb), ...)) or None (unknown)"""
        mk = (key, tuple(sorted(entry.items())), consts)
        if mk in self.memo:
            return self.memo[mk]
        if key in self.inprogress:
            # recursion: the state is assumed unchanged by the inner call (recorded)
            self.recursion_assumed.add(key)
            F = self.P.fn[key]
            tr = int_type_range(F.d.get('ret_t', '')) or (-INF, INF)
            ex = tuple((gi, en[0], en[0], en[1], en[2], en[3] if len(en) > 3 else False) for gi, en in sorted(entry.items()))
            return {('neg', tr[0], -1, ex), ('zero', 0, 0, ex)}
        self.inprogress.add(key)
        try:
            A, h = self.analyse(key, entry, consts)
        except AnalysisBroken:
            self.inprogress.discard(key)
            self.memo[mk] = None
            return None
        F = self.P.fn[key]
        outs = set()
        hp = self.handle_params(F)
        for (e, env, v) in k6.K6.exit_states(A, F):
            cls = k6.ret_class(v, F.d.get('ret_t', '').endswith('*'))
            fl = env.get('$ts', frozenset())
            ex = []
            for gi in hp:
                pid = F.params[gi]['id']
                rs = env.get(f'v{pid}->ready_state')
                if rs is None:
                    if any(f'v{pid}->ready_state'.startswith(z) for z in env.get('$zero', ())):
                        rs = K(0)           # the handle was wiped (memset)
                    else:
                        er = entry.get(gi, (None,))[0]
                        rs = K(er) if er is not None else V(0, 4)
                lo = max(0, int(rs.lo)) if rs.lo != -INF else 0
                hi = min(4, int(rs.hi)) if rs.hi != INF else 4
                ex.append((gi, lo, hi, f'vd@{gi}' in fl, f'vb@{gi}' in fl, f'qe@{gi}' in fl))
            if v is None:
                outs.add(('void', 0, 0, tuple(ex)))
            else:
                tr = int_type_range(F.d.get('ret_t', '')) or (-2 ** 63, 2 ** 63 - 1)
                lo = tr[0] if v.lo == -INF else max(v.lo, tr[0])
                hi = tr[1] if v.hi == INF else min(v.hi, tr[1])
                outs.add((cls, lo, hi, tuple(ex)))
        self.inprogress.discard(key)
        self.memo[mk] = outs
        self.memo[(mk, 'hook')] = h
        rets = []
        for (e, env, v) in A.ret_states:
            c = F.ex[e].get('c') or []
            own = bool(c) and F.ex[F.strip_casts(c[0])]['k'] == 'int' and F.ex[F.strip_casts(c[0])]['v'] == 0     # literal `return 0`
            for gi in hp:
                pid = F.params[gi]['id']
                rs = env.get(f'v{pid}->ready_state')
                rets.append((e, own, v, rs, gi))
        self.memo[(mk, 'rets')] = rets
        return outs
