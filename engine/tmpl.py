"""Template-instantiated range analysis (R15.1).

The encoder set-up indexes the constant mode tables of one `ve_setup_data_template` with the integer part of a setting
(`x[is]`, `x[is+1]`) and with values read from those tables (`in+(int)x[is]`, `in[(int)interpolated+1]`, `res+map[i].residuesubmap[j]`).
Whether every such subscript stays inside its table depends on the *data* of the template: the extents of the arrays its
pointer members designate, its `mappings` count, the numbers stored in its mapping tables.  The set of templates is finite
(`setup_list`), every one of them is a constant initialiser that the extractor has evaluated, so the question is decided
exhaustively: K4 is run once per template over `vorbis_encode_setup_init` and the helpers it calls, with

  * an abstract pointer domain over constant globals: a pointer is a set of (global, path to an array object, element index
    interval, extent of that array object); a subscript or `->` through such a pointer is an *obligation* (index interval
    within the extent) and yields the designated sub-object; a scalar load is the hull of the selected initialiser elements,
    a pointer load the set of globals they refer to;
  * the settings premise: every `*_setting` lies in [0, mappings - 0.001] (what get_setup_template stores: R15.2);
  * two arithmetic lemmas, named in evidence when used: CONVEX -- `a*(1.-d)+b*d` with d in [0,1] lies in the hull of a and b;
    FRAC -- after `i=(int)x; x-=i;` with x >= 0, x is in [0,1) and on the branch where x is not 0 the old x was not an
    integer, so i < hi(old x).

Nothing here executes libvorbis; the tables are read from the evaluated initialisers in the fact base."""
import math

import absint
from absint import V, K, TOP, INF, join


class Ptr:
    __slots__ = ('g', 'path', 'idx', 'ext')

    def __init__(self, g, path, idx, ext):
        self.g, self.path, self.idx, self.ext = g, path, idx, ext

    def key(self):
        return (self.g, self.path, self.idx.lo, self.idx.hi, self.ext)

    def __repr__(self):
        return f'&{self.g}{fmt_path(self.path)}[{absint.fmt(self.idx.lo)}..{absint.fmt(self.idx.hi)}]/{self.ext}'


NULL = 'null'


def fmt_path(path):
    out = ''
    for st in path or ():
        out += f'.{st[1]}' if st[0] == 'f' else (f'[{st[1]}]' if st[1] == st[2] else f'[{st[1]}..{st[2]}]')
    return out


class Tables:
    """navigation in the evaluated initialisers of constant globals"""

    def __init__(self, P):
        self.P = P

    def glob(self, name):
        gs = self.P.globals.get(name)
        if not gs:
            return None
        for g in gs:
            if 'init' in g:
                return g
        return gs[0]

    def select(self, gname, path):
        """initialiser nodes designated by path (None: unknown / elided)"""
        g = self.glob(gname)
        if g is None or 'init' not in g:
            return None
        cur = [g['init']]
        for st in path:
            nxt = []
            for nd in cur:
                if not isinstance(nd, dict):
                    if nd == 0:
                        nxt.append(0)       # zero-initialised aggregate
                        continue
                    return None
                if nd.get('kind') != 'list':
                    return None
                el = nd['elems']
                if st[0] == 'f':
                    fl = nd.get('fields')
                    if not fl or st[1] not in fl:
                        return None
                    i = fl.index(st[1])
                    nxt.append(el[i] if i < len(el) else 0)
                else:
                    if nd.get('fields'):
                        return None
                    for i in range(int(st[1]), int(st[2]) + 1):
                        nxt.append(el[i] if i < len(el) else 0)
            cur = nxt
        return cur

    def scalars(self, gname, path):
        sel = self.select(gname, path)
        if sel is None or not sel:
            return None
        lo, hi = INF, -INF
        for x in sel:
            if isinstance(x, bool) or not isinstance(x, (int, float)):
                return None
            lo, hi = min(lo, x), max(hi, x)
        return V(lo, hi)

    def pointers(self, gname, path):
        sel = self.select(gname, path)
        if sel is None or not sel:
            return None
        out = {}
        for x in sel:
            if x == 0 and not isinstance(x, dict):
                out[NULL] = NULL
                continue
            if not isinstance(x, dict) or x.get('kind') != 'ref' or x.get('fn'):
                return None
            g = self.glob(x['name'])
            if g is None:
                return None
            ext = g['extent'][0] if g.get('extent') else 1
            p = Ptr(x['name'], () if g.get('extent') else None, K(0), ext)
            out[p.key()] = p
        return list(out.values())


class TemplateAnalyzer(absint.Analyzer):
    def __init__(self, P, F, ctx, pbind=None, record=True, **kw):
        super().__init__(P, F, **kw)
        self.record = record
        self.ctx = ctx                  # shared: tables, template name, obligations, memo of analysed callees
        self.pbind = pbind or {}        # 'v<param id>' -> [Ptr | NULL]
        self._single = None

    # -- helpers ----------------------------------------------------------------------------------------------------------
    def _pure(self, e):
        for n in self.F.walk(e):
            nd = self.ex[n]
            if nd['k'] in ('assign', 'call', 'decl') or (nd['k'] == 'un' and nd['op'] in ('pre++', 'pre--', 'post++', 'post--')):
                return False
        return True

    def _defs(self):
        """local variable id -> list of defining expressions (decl initialisers and plain assignments); None marks a
        definition that is not a plain one (compound assignment, ++, address taken)"""
        if self._single is None:
            d = {}
            for n, nd in self.ex.items():
                if nd['k'] == 'decl':
                    for v in nd['vars']:
                        if 'id' in v:
                            d.setdefault(v['id'], [])
                            if v.get('init'):
                                d[v['id']].append(v['init'])
                elif nd['k'] == 'assign' or (nd['k'] == 'un' and nd['op'] in ('pre++', 'pre--', 'post++', 'post--', '&')):
                    t = self.ex[self.F.strip_casts(nd['c'][0])]
                    if t['k'] == 'ref' and t['decl'].get('kind') in ('var', 'param'):
                        d.setdefault(t['decl']['id'], []).append(nd['c'][1] if nd['k'] == 'assign' and nd['op'] == '=' else None)
            self._single = d
        return self._single

    def _ptr_defs(self, vid):
        """defining expressions of a local pointer variable (flow-insensitive: the variable holds one of them); None when
        a definition is not a plain one or reads a variable that is assigned more than once (the definition would not mean
        now what it meant then)"""
        ds = self._defs().get(vid)
        if not ds or any(d is None for d in ds):
            return None
        for d in ds:
            for n in self.F.walk(d):
                nd = self.ex[n]
                if nd['k'] == 'ref' and nd['decl'].get('kind') in ('var', 'param') and nd['decl']['id'] != vid:
                    d2 = self._defs().get(nd['decl']['id'], [])
                    if nd['decl'].get('kind') == 'param':
                        if d2:
                            return None
                    elif len(d2) != 1 or d2[0] is None:
                        return None
        return ds

    def ob(self, e, idx, ext, what, deref=True):
        if not (self.final and self.record):
            return
        key = (self.P.key(self.F), e)
        cur = self.ctx['obs'].get(key)
        ok = idx.lo >= 0 and idx.hi <= (ext - 1 if deref else ext)
        if cur is None:
            self.ctx['obs'][key] = {'F': self.F, 'e': e, 'idx': idx, 'ext': ext, 'what': {what}, 'ok': ok, 'deref': deref}
        else:
            cur['idx'] = join(cur['idx'], idx)
            cur['ext'] = min(cur['ext'], ext)
            cur['what'].add(what)
            cur['ok'] = cur['ok'] and ok

    # -- abstract objects and pointers -----------------------------------------------------------------------------------
    def aobj(self, env, e):
        """list of (global, path) the lvalue expression designates inside constant globals, or None"""
        nd = self.ex[e]
        k = nd['k']
        c = nd.get('c', [])
        if k == 'cast' or k == 'paren':
            return self.aobj(env, c[0])
        if k == 'ref':
            d = nd['decl']
            if d.get('kind') in ('var', 'param'):
                return None
            g = self.ctx['tab'].glob(d['name'])
            if g is None or 'init' not in g:
                return None
            return [(d['name'], ())]
        if k == 'sub' or (k == 'un' and nd['op'] == '*'):
            base = c[0]
            if k == 'sub':
                if not self._pure(c[1]):
                    return None
                iv = self.ev(env, c[1])
            else:
                iv = K(0)
            bn = self.ex[base]
            if bn.get('t', '').endswith(']') and bn['k'] != 'cast':
                objs = self.aobj(env, base)
                if objs is None:
                    return None
                ext = (nd.get('extent') or [None])[0] if k == 'sub' else None
                if ext is None:
                    return None
                self.ob(e, iv, ext, ','.join(sorted(g + fmt_path(p) for g, p in objs)))
                lo, hi = max(0, iv.lo), min(ext - 1, iv.hi)
                if lo > hi:
                    return None
                return [(g, p + (('i', lo, hi),)) for g, p in objs]
            ps = self.aptr(env, base)
            return self._through(e, ps, iv)
        if k == 'member':
            if nd.get('arrow'):
                objs = self._through(e, self.aptr(env, c[0]), K(0))
            else:
                objs = self.aobj(env, c[0])
            if objs is None:
                return None
            return [(g, p + (('f', nd['field']),)) for g, p in objs]
        return None

    @staticmethod
    def _own_extent(n):
        """first dimension of an array-typed expression node (a `sub` node carries the dimensions of the array it subscripts)"""
        ex = n.get('extent')
        if not ex:
            return None
        if n['k'] == 'sub':
            return ex[1] if len(ex) > 1 else None
        return ex[0]

    def _through(self, e, ps, iv):
        if not ps:
            return None
        out = []
        for p in ps:
            if p == NULL:
                continue            # null dereferences are not this rule's subject (the code guards them: `if(p)`)
            idx = absint.Analyzer.arith(self, '+', p.idx, iv)
            self.ob(e, idx, p.ext, repr(p))
            lo, hi = max(0, idx.lo), min(p.ext - 1, idx.hi)
            if lo > hi or lo == -INF or hi == INF:
                continue
            if p.path is None:
                out.append((p.g, ()))
            else:
                out.append((p.g, p.path + (('i', lo, hi),)))
        return out or None

    def aptr(self, env, e):
        """list of Ptr/NULL the pointer-valued expression may hold, or None when it does not point into constant globals"""
        nd = self.ex[e]
        k = nd['k']
        c = nd.get('c', [])
        if k == 'int':
            return [NULL] if nd.get('v') == 0 else None
        if k in ('cast', 'paren'):
            cn = self.ex[c[0]]
            if cn.get('t', '').endswith(']'):
                objs = self.aobj(env, c[0])
                if objs is None:
                    return None
                ext = self._own_extent(cn)
                if ext is None:
                    return None
                return [Ptr(g, p, K(0), ext) for g, p in objs]
            return self.aptr(env, c[0])
        if k == 'ref':
            d = nd['decl']
            if d.get('kind') == 'param':
                return self.pbind.get(f'v{d["id"]}')
            if d.get('kind') == 'var':
                dfs = self._ptr_defs(d['id'])
                if dfs is None:
                    return None
                out = {}
                for df in dfs:
                    ps = self.aptr(env, df)
                    if ps is None:
                        return None
                    for x in ps:
                        out[x if x == NULL else x.key()] = x
                return list(out.values())
            return None
        if k == 'member' and nd.get('record') == 'highlevel_encode_setup' and nd.get('field') == 'setup':
            return [Ptr(self.ctx['template'], None, K(0), 1)]
        if k in ('member', 'sub') or (k == 'un' and nd['op'] == '*'):
            objs = self.aobj(env, e)
            if objs is None:
                return None
            out = {}
            for g, p in objs:
                ps = self.ctx['tab'].pointers(g, p)
                if ps is None:
                    return None
                for x in ps:
                    out[x if x == NULL else x.key()] = x
            return list(out.values())
        if k == 'un' and nd['op'] == '&':
            objs = self.aobj(env, c[0])
            if objs is None:
                return None
            out = []
            for g, p in objs:
                if p and p[-1][0] == 'i':
                    # address of an array element: the enclosing array's extent is what the subscript was checked against
                    cn = self.ex[self.F.strip_casts(c[0])]
                    ext = (cn.get('extent') or [None])[0] if cn['k'] == 'sub' else None
                    if ext is None:
                        return None
                    out.append(Ptr(g, p[:-1], V(p[-1][1], p[-1][2]), ext))
                else:
                    out.append(Ptr(g, None if not p else p, K(0), 1))
            return out
        if k == 'bin' and nd['op'] in ('+', '-') and nd.get('t', '').endswith('*'):
            ps = self.aptr(env, c[0])
            if ps is None or not self._pure(c[1]):
                return None
            iv = self.ev(env, c[1])
            if nd['op'] == '-':
                iv = V(-iv.hi, -iv.lo)
            out = []
            for p in ps:
                if p == NULL:
                    continue
                idx = absint.Analyzer.arith(self, '+', p.idx, iv)
                self.ob(e, idx, p.ext, repr(p), deref=False)
                out.append(Ptr(p.g, p.path, V(max(0, idx.lo), min(p.ext, idx.hi)), p.ext))
            return out or None
        if k == 'cond':
            a, b = self.aptr(env, c[1]), self.aptr(env, c[2])
            if a is None or b is None:
                return None
            return a + b
        return None

    # -- evaluation --------------------------------------------------------------------------------------------------------
    def _ev(self, env, e):
        nd = self.ex[e]
        k = nd['k']
        t = nd.get('t', '')
        if (k in ('member', 'sub') or (k == 'un' and nd['op'] == '*')) and not t.endswith('*') and not t.endswith(']'):
            v = self._table_scalar(env, e)
            if v is not None:
                return v
        elif k in ('member', 'sub', 'cast') and t.endswith('*') and self.final:
            self.aptr(env, e)       # obligations of subscripts that only produce a pointer
        if k == 'bin' and nd['op'] == '+':
            v = self._convex(env, nd)
            if v is not None:
                return v
        if k in ('assign', 'decl'):
            tr0 = dict(env.get('$trunc') or {})
            r = super()._ev(env, e)
            r2 = self._frac_post(env, e, nd, tr0)
            return r2 if r2 is not None else r
        return super()._ev(env, e)

    def _convex(self, env, nd):
        F = self.F
        l, r = (self.ex[F.strip_casts(x)] for x in nd['c'])
        if not (l['k'] == 'bin' and l['op'] == '*' and r['k'] == 'bin' and r['op'] == '*'):
            return None
        for (p, q) in ((l, r), (r, l)):
            # p = a*(1-d), q = b*d  (either operand order)
            for pa, pd in ((p['c'][0], p['c'][1]), (p['c'][1], p['c'][0])):
                one = self.ex[F.strip_casts(pd)]
                if not (one['k'] == 'bin' and one['op'] == '-'):
                    continue
                o1 = self.ex[F.strip_casts(one['c'][0])]
                if not (o1['k'] in ('int', 'flt') and o1.get('v') == 1):
                    continue
                d = F.strip_casts(one['c'][1])
                if self.ex[d]['k'] != 'ref':
                    continue
                for qb, qd in ((q['c'][0], q['c'][1]), (q['c'][1], q['c'][0])):
                    d2 = F.strip_casts(qd)
                    if self.ex[d2]['k'] == 'ref' and self.ex[d2]['decl'] == self.ex[d]['decl']:
                        dv = self.ev(env, d)
                        if dv.lo >= 0 and dv.hi <= 1:
                            a, b = self.ev(env, pa), self.ev(env, qb)
                            if a.lo != -INF and b.lo != -INF and a.hi != INF and b.hi != INF:
                                self.lemmas_used.add('CONVEX')
                                return V(min(a.lo, b.lo), max(a.hi, b.hi))
        return None

    def _varkey(self, e):
        n = self.ex[self.F.strip_casts(e)]
        if n['k'] == 'ref' and n['decl'].get('kind') in ('var', 'param'):
            return f'v{n["decl"]["id"]}'
        return None

    def _frac_post(self, env, e, nd, tr0):
        """FRAC lemma bookkeeping after an assignment / initialised declaration has been evaluated"""
        pairs = []
        if nd['k'] == 'decl':
            for v in nd['vars']:
                if 'id' in v and v.get('init'):
                    pairs.append((f'v{v["id"]}', '=', v['init'], None))
        else:
            lk = self._varkey(nd['c'][0])
            if lk is not None:
                pairs.append((lk, nd['op'], nd['c'][1], nd['c'][0]))
        out = None
        for lk, op, rhs, lnode in pairs:
            rn = self.ex[rhs]
            tr = env.get('$trunc') or {}
            if op == '=' and rn['k'] == 'cast' and rn.get('ck') == 'FloatingToIntegral':
                sk = self._varkey(rn['c'][0])
                if sk is not None and sk != lk:
                    tr = dict(tr)
                    tr[lk] = (sk, self.get(env, sk))
                    env['$trunc'] = tr
                continue
            ik = xk = None
            if op == '-=':
                ik, xk = self._varkey(rhs), lk
            elif op == '=':
                r0 = self.ex[self.F.strip_casts(rhs)]
                if r0['k'] == 'bin' and r0['op'] == '-':
                    xk, ik = self._varkey(r0['c'][0]), self._varkey(r0['c'][1])
            if ik is None or xk is None or ik not in tr0 or tr0[ik][0] != xk or ik == lk:
                continue
            old = tr0[ik][1]
            if not (old.lo >= 0 and old.hi != INF):
                continue
            nv = V(0.0, 1.0)
            absint.Analyzer.store(self, env, lk, nv, lnode)
            fr = dict(env.get('$frac') or {})
            fr[lk] = (ik, old.hi)
            env['$frac'] = fr
            self.lemmas_used.add('FRAC')
            out = nv
        return out

    def store(self, env, key, val, e=None, weak=False):
        tr = env.get('$trunc')
        if tr and (key in tr or any(v[0] == key for v in tr.values())):
            env['$trunc'] = {k_: v_ for k_, v_ in tr.items() if k_ != key and v_[0] != key}
        fr = env.get('$frac')
        if fr and (key in fr or any(v[0] == key for v in fr.values())):
            env['$frac'] = {k_: v_ for k_, v_ in fr.items() if k_ != key and v_[0] != key}
        return super().store(env, key, val, e, weak)

    def peek(self, env, e):
        nd = self.ex[e]
        t = nd.get('t', '')
        if (nd['k'] in ('member', 'sub') or (nd['k'] == 'un' and nd['op'] == '*')) and not t.endswith('*') and not t.endswith(']'):
            v = self._table_scalar(env, e)
            if v is not None:
                return v
        return super().peek(env, e)

    def _table_scalar(self, env, e):
        objs = self.aobj(env, e)
        if not objs:
            return None
        out = None
        for g, p in objs:
            v = self.ctx['tab'].scalars(g, p)
            if v is None:
                return None
            out = v if out is None else join(out, v)
        return out

    def refine(self, env, c, truth):
        out = super().refine(env, c, truth)
        if out is None:
            return None
        fr = out.get('$frac')
        if fr:
            cn = self.ex[self.F.strip_casts(c)]
            if cn['k'] == 'bin' and cn['op'] in ('==', '!=') :
                a, b = (self.ex[self.F.strip_casts(x)] for x in cn['c'])
                if b['k'] == 'ref':
                    a, b = b, a
                if a['k'] == 'ref' and a['decl'].get('kind') in ('var', 'param') and b['k'] in ('int', 'flt') and b.get('v') == 0:
                    fk = f'v{a["decl"]["id"]}'
                    nonzero = (cn['op'] == '==') != truth
                    if fk in fr and nonzero:
                        ik, hi0 = fr[fk]
                        lim = hi0 - 1 if hi0 == math.floor(hi0) else math.floor(hi0)
                        iv = self.get(out, ik)
                        if iv.hi > lim:
                            super().store(out, ik, iv.copy(hi=lim))
        return out

    # -- calls -----------------------------------------------------------------------------------------------------------
    def call(self, env, e):
        nd = self.ex[e]
        args = nd.get('c', [])
        name = nd['callee'].get('d')
        G = self.P.get(name, self.F) if name else None
        if name == 'memcpy' and len(args) == 3 and self.final:
            ps = self.aptr(env, args[1])
            for p in ps or ():
                if p != NULL:
                    self.ob(args[1], p.idx, p.ext, repr(p) + ' (memcpy source)')
        post = None
        if G is not None and G.blocks and len(self.ctx['stack']) < 4 and self.P.key(G) not in self.ctx['stack']:
            binds, pin, roots = {}, {}, {}
            for i, a in enumerate(args[:len(G.params)]):
                pa = G.params[i]
                if self.ex[a].get('t', '').endswith('*') or self.ex[a].get('t', '').endswith(']'):
                    ps = self.aptr(env, a) if self._pure(a) else None
                    if ps is not None:
                        binds[f'v{pa["id"]}'] = ps
                        if all(p == NULL for p in ps):
                            pin[pa['name']] = V(0, 0, nn=False)
                        elif all(p != NULL for p in ps):
                            pin[pa['name']] = V(nn=True)
                    else:
                        rp = self.rpath(a, env)
                        if rp and not rp.startswith('&'):
                            roots[f'v{pa["id"]}'] = rp
                else:
                    av = self.ev(env, a)
                    if av.lo != -INF or av.hi != INF:
                        pin[pa['name']] = av
            if binds:
                rec = bool(self.final and self.record)
                mk = (self.P.key(G), rec, tuple(sorted((k, tuple(sorted(repr(p) for p in v))) for k, v in binds.items())),
                      tuple(sorted((k, v.lo, v.hi) for k, v in pin.items())))
                if mk not in self.ctx['memo']:
                    self.ctx['memo'][mk] = []
                    self.ctx['stack'].append(self.P.key(G))
                    A = TemplateAnalyzer(self.P, G, self.ctx, pbind=binds, record=rec, param_init=pin, field_inv=self.field_inv)
                    A.run()
                    self.ctx['lemmas'] |= A.lemmas_used
                    self.ctx['stack'].pop()
                    self.ctx['analysed'].add(self.P.key(G))
                    self.ctx['memo'][mk] = A.post_facts()
                post = [(roots[pk] + suf, v) for (pk, suf, v) in self.ctx['memo'][mk] if pk in roots]
        r = super().call(env, e)
        # what the callee stored, as constants of this context, through its pointer parameters (`ci->blocksizes[0]=shortb[is]`
        # with a table whose entries are all equal): known at the call site afterwards
        for key, v in post or ():
            absint.Analyzer.store(self, env, key, v)
        return r

    def post_facts(self):
        """(parameter key, path suffix, value) for the locations behind pointer parameters that this function assigns and that
        hold a finite range at every exit"""
        F = self.F
        exits = list((self.block_in.get(F.exit) or {}).values())
        if not exits:
            return []
        pk = {f'v{p["id"]}' for p in F.params}
        keys = set()
        for n, nd in self.ex.items():
            if nd['k'] == 'assign' and n in F.pos:
                p = self.path(nd['c'][0])
                if p and '->' in p and p.split('->', 1)[0] in pk and '[v' not in p and '[*]' not in p:
                    keys.add(p)
        out = []
        for k_ in sorted(keys):
            v = None
            for env in exits:
                x = env.get(k_)
                if x is None or not isinstance(x, V):
                    v = None
                    break
                v = x if v is None else join(v, x)
            if v is not None and v.lo != -INF and v.hi != INF and not v.is_bottom():
                root, suf = k_.split('->', 1)
                out.append((root, '->' + suf, V(v.lo, v.hi)))
        return out


def analyse_template(P, tname, roots, settings_fields):
    """run the analysis for one template; returns ctx with obligations"""
    tab = Tables(P)
    g = tab.glob(tname)
    m = tab.scalars(tname, (('f', 'mappings'),))
    if g is None or m is None or m.lo != m.hi or m.lo < 1:
        raise absint_broken(f'template {tname}: no constant mappings count')
    M = int(m.lo)
    sv = V(0.0, M - 0.001)
    finv = {(rec, fld, False): sv for rec, fld in settings_fields}
    ctx = {'tab': tab, 'template': tname, 'obs': {}, 'memo': {}, 'stack': [], 'lemmas': set(), 'analysed': set(), 'M': M}
    for rn in roots:
        F = P.get(rn)
        if F is None:
            continue
        ctx['stack'] = [P.key(F)]
        A = TemplateAnalyzer(P, F, ctx, field_inv=finv)
        A.run()
        ctx['lemmas'] |= A.lemmas_used
        ctx['analysed'].add(P.key(F))
    return ctx


def absint_broken(msg):
    import facts
    return facts.AnalysisBroken(msg)
