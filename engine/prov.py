"""Value provenance with last-writer tracking (a forward may-analysis over one function's CFG).

For a set of tracked state locations S (fields of an object reached through a parameter) the analysis keeps, at every
program point, the set of *last writers* of S -- 'entry', a direct store, or the nearest preceding call that may write S
(strong update at every may-writer: the question asked is "which call does this read see the result of") -- and for every
scalar local the set of provenance atoms of its value:

    ('state', S, writer, line)   a read of S that sees `writer`
    ('param', i)                 the value of parameter i on entry
    ('table', field)             an element of an array field (not followed further)
    ('ret', callee) ('out', callee) ('uninit',) ('opaque', text)

Sets are joined by union at merges.  Nothing here is specific to a function or a field name: the client supplies
`state_of(F, node)` (which tracked location a member node denotes) and `call_writes(F, call node)` (which tracked locations a
call may write)."""
import cfg


class Prov:
    def __init__(self, P, F, state_of, call_writes, array_fields=()):
        self.P, self.F = P, F
        self.state_of, self.call_writes = state_of, call_writes
        self.array_fields = set(array_fields)
        self.read_lw = {}       # member read node -> frozenset(writer labels)
        self.at = {}            # elem node -> (lw, vp) state *before* the element
        self._run()

    # -- helpers ----------------------------------------------------------------------------------
    def _is_store_target(self, n):
        F = self.F
        p = F.sparent.get(n)
        c = n
        while p is not None and F.ex[p]['k'] == 'cast':
            c, p = p, F.sparent.get(p)
        return p is not None and F.ex[p]['k'] == 'assign' and F.ex[p]['op'] == '=' and F.ex[p]['c'][0] == c

    def prov(self, e, st):
        """provenance atoms of expression e evaluated in state st=(lw, vp)"""
        F = self.F
        lw, vp = st
        out = set()
        stack = [e]
        while stack:
            n = stack.pop()
            if not n:
                continue
            nd = F.ex[n]
            k = nd['k']
            if k in ('int', 'flt', 'str'):
                continue
            if k == 'ref':
                d = nd['decl']
                if d.get('kind') in ('var', 'param'):
                    out |= vp.get(d.get('id'), frozenset({('uninit',)}))
                else:
                    out.add(('opaque', d.get('name')))
                continue
            if k == 'member':
                S = self.state_of(F, n)
                if S is not None:
                    for w in self.read_lw.get(n, lw.get(S, frozenset({'entry'}))):
                        out.add(('state', S, w, F.loc(n)))
                    continue
                out.add(('opaque', F.s(n)))
                continue
            if k == 'sub':
                b = F.ex[F.strip_casts(nd['c'][0])]
                if b['k'] == 'member' and b['field'] in self.array_fields:
                    out.add(('table', b['field']))
                    continue
                out.add(('opaque', F.s(n)))
                continue
            if k == 'call':
                out.add(('ret', nd['callee'].get('d') or '?'))
                continue
            if k == 'cond':
                stack += nd['c'][1:]
                continue
            if k == 'assign':
                stack.append(nd['c'][1])
                continue
            stack += [c for c in nd.get('c', []) if c]
        return frozenset(out)

    # -- transfer ---------------------------------------------------------------------------------
    def _elem(self, e, st, record):
        F = self.F
        lw, vp = st
        nd = F.ex[e]
        k = nd['k']
        if record:
            self.at[e] = (lw, vp)
        if k == 'member':
            S = self.state_of(F, e)
            if S is not None and not self._is_store_target(e) and record:
                self.read_lw[e] = lw.get(S, frozenset({'entry'}))
            return st
        if k == 'call':
            ws = self.call_writes(F, e)
            name = nd['callee'].get('d') or ('.'.join(nd['callee']['slot']) if 'slot' in nd['callee'] else '?')
            if ws:
                lw = dict(lw)
                for S in ws:
                    lw[S] = frozenset({('call', name, F.loc(e))})
            nvp = None
            for a in nd.get('c', []):
                an = F.ex[F.strip_casts(a)]
                if an['k'] == 'un' and an['op'] == '&':
                    t = F.ex[F.strip_casts(an['c'][0])]
                    if t['k'] == 'ref' and t['decl'].get('kind') == 'var':
                        nvp = dict(vp) if nvp is None else nvp
                        nvp[t['decl']['id']] = frozenset({('out', name)})
            return (lw, nvp if nvp is not None else vp)
        if k == 'decl':
            nvp = dict(vp)
            for v in nd['vars']:
                if 'id' in v:
                    nvp[v['id']] = self.prov(v['init'], (lw, nvp)) if v.get('init') else frozenset({('uninit',)})
            return (lw, nvp)
        if k == 'assign':
            l = F.ex[F.strip_casts(nd['c'][0])]
            if l['k'] == 'ref' and l['decl'].get('kind') in ('var', 'param'):
                pv = self.prov(nd['c'][1], st)
                if nd['op'] != '=':
                    pv = pv | vp.get(l['decl']['id'], frozenset())
                nvp = dict(vp)
                nvp[l['decl']['id']] = pv
                return (lw, nvp)
            if l['k'] == 'member':
                S = self.state_of(F, l['id'])
                if S is not None:
                    lw = dict(lw)
                    lw[S] = frozenset({('store', F.loc(e))})
                    return (lw, vp)
            return st
        if k == 'un' and nd['op'] in ('pre++', 'post++', 'pre--', 'post--'):
            return st
        return st

    @staticmethod
    def _join(a, b):
        if a is None:
            return b
        if b is None:
            return a
        ent = frozenset({'entry'})
        lw = {k: a[0].get(k, ent) | b[0].get(k, ent) for k in set(a[0]) | set(b[0])}
        vp = dict(a[1])
        for k, v in b[1].items():
            vp[k] = (vp[k] | v) if k in vp else v
        return (lw, vp)

    def _run(self):
        F = self.F
        init_vp = {p['id']: frozenset({('param', i)}) for i, p in enumerate(F.params)}
        inn = {F.entry: ({}, init_vp)}
        out = {}
        order = cfg.rpo(F)
        changed = True
        rounds = 0
        while changed and rounds < 50:
            changed = False
            rounds += 1
            for b in order:
                st = inn.get(b)
                if b != F.entry:
                    st = None
                    for p in F.preds[b]:
                        st = self._join(st, out.get(p))
                if st is None:
                    continue
                inn[b] = st
                for e in F.blocks[b]['elems']:
                    st = self._elem(e, st, False)
                if out.get(b) != st:
                    out[b] = st
                    changed = True
        for b in order:
            st = inn.get(b)
            if st is None:
                continue
            for e in F.blocks[b]['elems']:
                st = self._elem(e, st, True)

    def prov_at(self, e, at):
        """provenance of expression e in the state before element `at` (an element of the CFG that contains or follows e)"""
        st = self.at.get(at)
        if st is None:
            return frozenset({('opaque', 'unreachable')})
        return self.prov(e, st)
