"""K3 — effect (mod-set) analysis with a small flow-insensitive points-to abstraction.

Abstract objects
  ('P', k, d)      memory reached from parameter k by d dereferences (d>=1), opaque to the callee
  ('L', varid)     a local variable (scalar, array or struct) of the function under analysis
  ('A', fn, site)  memory allocated at a call site (malloc/calloc/alloca/realloc/_vorbis_block_alloc)
  ('G', name)      a static-storage object
  ('F', rec, fld, d)  memory reached through pointer field `fld` of a `rec` record by d dereferences
                   (type-based heap abstraction: one class per field)
  ('U',)           unknown

A *store effect* is (object, record|None, field|None): the object written and, when the store went through a
member access, the (record, field) class of the member.  Summaries are propagated bottom-up with call-site
instantiation of parameter objects; global contents of field classes (`alias`) are iterated to a fixpoint.
"""
from facts import AnalysisBroken

ALLOC = {'malloc', 'calloc', '__builtin_alloca', 'alloca', 'realloc'}
# external functions: which pointer arguments' pointees are written; what is returned
EXT_WRITES = {
    'memset': [0], 'memcpy': [0], 'memmove': [0], 'strcpy': [0], 'strcat': [0], 'strncpy': [0],
    'qsort': [0], 'frexp': [1], 'modf': [1],
    'oggpack_write': [0], 'oggpack_writeinit': [0], 'oggpack_writeclear': [0], 'oggpack_writetrunc': [0],
    'oggpack_reset': [0], 'oggpack_readinit': [0], 'oggpack_adv': [0], 'oggpack_read': [0], 'oggpack_look': [],
    'oggpack_bytes': [], 'oggpack_get_buffer': [],
    'ogg_stream_init': [0], 'ogg_stream_clear': [0], 'ogg_stream_reset': [0], 'ogg_stream_reset_serialno': [0],
    'ogg_stream_pagein': [0], 'ogg_stream_packetout': [0, 1], 'ogg_stream_packetpeek': [1],
    'ogg_sync_init': [0], 'ogg_sync_clear': [0], 'ogg_sync_reset': [0], 'ogg_sync_wrote': [0],
    'ogg_sync_buffer': [0], 'ogg_sync_pageseek': [0, 1],
    'ogg_page_bos': [], 'ogg_page_eos': [], 'ogg_page_continued': [], 'ogg_page_granulepos': [],
    'ogg_page_serialno': [],
    'free': [], 'realloc': [], 'malloc': [], 'calloc': [], '__builtin_alloca': [],
    'fopen': [], 'fclose': [0], 'fseek': [0], 'exit': [], '__errno_location': [],
    'memcmp': [], 'strlen': [], 'abs': [], 'labs': [],
    '_mm_cvtsd_si32': [], '_mm_load_sd': [],
}
EXT_PURE_MATH = {'acos', 'atan', 'ceil', 'cos', 'exp', 'fabs', 'floor', 'ldexp', 'log', 'pow', 'rint', 'sin',
                 'sqrt', 'toupper', 'tolower'}
EXT_RET_ARG0 = {'memset', 'memcpy', 'memmove', 'strcpy', 'strcat', 'strncpy'}
CB_WRITES = {'read_func': [0], 'seek_func': [], 'tell_func': [], 'close_func': []}

U = ('U',)


def is_ptr_type(t):
    return t.endswith('*') or '(*)' in t or '*' in t.split('[')[0][-2:]


def is_array_type(t):
    return t.endswith(']')


class FnState:
    def __init__(self, F):
        self.F = F
        self.vpts = {}        # var id -> set(obj)
        self.contents = {}    # local/alloc obj -> set(obj)
        self.stores = set()   # (obj, rec, fld, eid, direct)
        self.frees = set()    # (obj, eid, direct)
        self.ret = set()      # objects the return value may point to
        self.pstores = set()  # (target obj, value obj): pointer stores into parameter-reached/field memory
        self.unknown_calls = set()
        self.callargs = {}    # call eid -> [(pts depth1, pts depth2)] per argument
        self.lv_pts = {}      # assign eid / ('decl', var id) -> objects the assigned pointer lvalue then points to


class Effects:
    def __init__(self, P):
        self.P = P
        self.alias = {}       # ('F',rec,fld,d) or ('G',name) -> set(obj) of objects the class may designate
        self.st = {}
        self.summ = {}        # key -> dict(stores=set((obj,rec,fld)), frees=set(obj), ret=set(obj), pstores=set)
        self._global_init()
        self._solve()

    # -- globals: pointers stored in static initialisers ------------------------------------------
    def _global_init(self):
        def visit(g, init, rec, fld):
            if not isinstance(init, dict):
                return
            k = init.get('kind')
            if k == 'list':
                r = init.get('record')
                fs = init.get('fields')
                for i, e in enumerate(init['elems']):
                    if r and fs and i < len(fs):
                        visit(g, e, r, fs[i])
                    else:
                        visit(g, e, rec, fld)
            elif k == 'ref' and not init.get('fn'):
                tgt = ('G', init['name'])
                self.alias.setdefault(('G', g['name']), set()).add(tgt)
                if rec and fld:
                    self.alias.setdefault(('F', rec, fld, 1), set()).add(tgt)
        for g in self.P.global_list:
            visit(g, g.get('init'), None, None)

    # -- per function -------------------------------------------------------------------------------
    def _param_index(self, F):
        return {p['id']: i for i, p in enumerate(F.params)}

    def _analyse(self, F):
        P = self.P
        key = P.key(F)
        S = self.st.get(key)
        if S is None:
            S = self.st[key] = FnState(F)
            for i, p in enumerate(F.params):
                S.vpts[p['id']] = {('P', i, 1)}
        ex = F.ex
        pidx = self._param_index(F)
        changed = False
        # effect sets are recomputed in every round (only points-to facts accumulate), so that a class used
        # before the contents of a fresh object were known does not stick
        old_sets = (S.stores, S.frees, S.pstores, S.ret)
        S.stores, S.frees, S.pstores, S.ret = set(), set(), set(), set()

        def add(dct, k, vals):
            nonlocal changed
            if not vals:
                return
            s = dct.setdefault(k, set())
            n = len(s)
            s |= vals
            if len(s) != n:
                changed = True

        def addset(s, v):
            s.add(v)

        def load(objs, mem, want_ptr=True):
            out = set()
            for o in objs:
                t = o[0]
                if mem and not (t in ('L', 'A') and S.contents.get(o)):
                    # type-based field class; for an object created in this function whose pointer contents are
                    # known, the contents are used instead
                    out.add(('F', mem[0], mem[1], 1))
                if t in ('L', 'A'):
                    out |= S.contents.get(o, set())
                elif t == 'P':
                    if not mem:
                        out.add(('P', o[1], o[2] + 1))
                elif t == 'F':
                    if not mem:
                        out.add(('F', o[1], o[2], o[3] + 1))
                    for a in self.alias.get(o, ()):
                        if a[0] == 'G':
                            out |= self.alias.get(a, set())
                elif t == 'G':
                    out |= self.alias.get(o, set())
                else:
                    out.add(U)
            return out

        memo = {}

        def lvobjs(e):
            """objects designated by lvalue e"""
            n = ex[e]
            k = n['k']
            if k == 'ref':
                d = n['decl']
                if d['kind'] in ('var', 'param'):
                    return {('L', d['id'])}
                if d['kind'] == 'global':
                    return {('G', d['name'])}
                return set()
            if k == 'member':
                if n['arrow']:
                    return pts(n['c'][0])
                return lvobjs(n['c'][0])
            if k == 'sub':
                b = n['c'][0]
                if 'extent' in n:
                    return lvobjs(b)
                return pts(b)
            if k == 'un' and n['op'] == '*':
                return pts(n['c'][0])
            if k == 'cast':
                return lvobjs(n['c'][0])
            if k == 'cond':
                return lvobjs(n['c'][1]) | lvobjs(n['c'][2])
            if k == 'comma':
                return lvobjs(n['c'][1])
            if k == 'assign':
                return lvobjs(n['c'][0])
            if k == 'call':
                return pts(e)
            if k == 'complit':
                return {('L', -e)}
            return set()

        def member_of(e):
            """(record, field) if lvalue e is a member access (looking through subscripts of array fields)"""
            n = ex[e]
            while n['k'] in ('sub', 'cast') and (n['k'] == 'cast' or 'extent' in n):
                n = ex[n['c'][0]]
            if n['k'] == 'member' and 'record' in n:
                return (n['record'], n['field'])
            return None

        def pts(e):
            """objects the (pointer) value of e may point to"""
            if e in memo:
                return memo[e]
            memo[e] = set()
            n = ex[e]
            k = n['k']
            t = n.get('t', '')
            r = set()
            if k == 'ref':
                d = n['decl']
                if d['kind'] in ('var', 'param'):
                    if 'extent' in d or is_array_type(t):
                        r = {('L', d['id'])}
                    else:
                        r = set(S.vpts.get(d['id'], ()))
                elif d['kind'] == 'global':
                    if 'extent' in d or is_array_type(t):
                        r = {('G', d['name'])}
                    else:
                        r = set(self.alias.get(('G', d['name']), ()))
            elif k in ('member', 'sub') or (k == 'un' and n['op'] == '*'):
                if is_array_type(t):
                    r = lvobjs(e)          # array lvalue decays: same object
                else:
                    mem = member_of(e) if k == 'member' else None
                    if k == 'sub' and 'extent' in n:
                        mem = member_of(e)
                    r = load(lvobjs(e), mem)
            elif k == 'un':
                if n['op'] == '&':
                    r = lvobjs(n['c'][0])
                elif n['op'] in ('pre++', 'pre--', 'post++', 'post--'):
                    r = pts(n['c'][0])
            elif k == 'bin':
                if n['op'] in ('+', '-'):
                    for c in n['c']:
                        ct = ex[c].get('t', '')
                        if is_ptr_type(ct) or is_array_type(ct):
                            r |= pts(c)
            elif k == 'cast':
                r = pts(n['c'][0])
            elif k == 'cond':
                r = pts(n['c'][1]) | pts(n['c'][2])
            elif k == 'comma':
                r = pts(n['c'][1])
            elif k == 'assign':
                r = pts(n['c'][1]) if n['op'] == '=' else pts(n['c'][0])
            elif k == 'call':
                r = call_ret(e)
            elif k == 'complit':
                r = {('L', -e)}
            memo[e] = r
            return r

        def call_ret(e):
            n = ex[e]
            out = set()
            for t in P.call_targets(F, e):
                if t.startswith('ext:'):
                    nm = t[4:]
                    if nm in ALLOC:
                        out.add(('A', key, F.loc(e)))
                        if nm == 'realloc':
                            out |= pts(n['c'][0])
                    elif nm in EXT_RET_ARG0:
                        out |= pts(n['c'][0])
                    elif nm == 'ogg_sync_buffer':
                        out.add(('F', 'ogg_sync_state', 'data', 1))
                    elif nm == 'oggpack_get_buffer':
                        out.add(('F', 'oggpack_buffer', 'buffer', 1))
                    elif nm == 'fopen':
                        out.add(('A', key, F.loc(e)))
                elif t.startswith(('cb:', 'unk:')):
                    pass
                else:
                    sm = self.summ.get(t)
                    if sm:
                        out |= inst(e, sm['ret'])
            return out

        def inst(e, objs):
            """map callee objects to caller objects at call e"""
            n = ex[e]
            args = n.get('c', [])
            out = set()
            for o in objs:
                if o[0] == 'P':
                    k_, d = o[1], o[2]
                    if k_ < len(args):
                        cur = pts(args[k_])
                        for _ in range(d - 1):
                            cur = load(cur, None)
                        out |= cur
                elif o[0] in ('L',):
                    continue
                else:
                    out.add(o)
            return out

        def arg_mem(a):
            """(record, field) when argument a is &x->f / x->f (array field): the write goes to that member"""
            a = F.strip_casts(a)
            n = ex[a]
            if n['k'] == 'un' and n['op'] == '&':
                m = member_of(F.strip_casts(n['c'][0]))
                if m:
                    return m
            elif n['k'] in ('member', 'sub') and is_array_type(n.get('t', '')):
                m = member_of(a)
                if m:
                    return m
            return (None, None)

        def store(e_lv, val_e, eid):
            objs = lvobjs(e_lv)
            mem = member_of(e_lv)
            if is_ptr_type(ex[e_lv].get('t', '')):
                S.lv_pts[eid] = frozenset(pts(e_lv))
            for o in objs:
                addset(S.stores, (o, mem[0] if mem else None, mem[1] if mem else None, eid, True))
            if val_e is not None:
                vt = ex[val_e].get('t', '')
                lt = ex[e_lv].get('t', '')
                if is_ptr_type(lt) or is_ptr_type(vt):
                    v = pts(val_e)
                    if v:
                        for o in objs:
                            if o[0] in ('L', 'A'):
                                add(S.contents, o, v)
                            if mem:
                                add(self.alias, ('F', mem[0], mem[1], 1), {x for x in v if x[0] in ('G', 'A', 'F')})
                            elif o[0] == 'F':
                                add(self.alias, ('F', o[1], o[2], o[3] + 1), {x for x in v if x[0] in ('G', 'A', 'F')})
                            if o[0] in ('P', 'F', 'G'):
                                for x in v:
                                    addset(S.pstores, (o, x))
                # assignment to a plain local pointer variable
            n = ex[e_lv]
            if n['k'] == 'ref' and n['decl']['kind'] in ('var', 'param') and val_e is not None:
                if 'extent' not in n['decl']:
                    add(S.vpts, n['decl']['id'], pts(val_e))

        for e in sorted(F.pos):
            n = ex[e]
            k = n['k']
            if k == 'assign':
                store(n['c'][0], n['c'][1] if n['op'] in ('=', '+=', '-=') else None, e)
            elif k == 'un' and n['op'] in ('pre++', 'pre--', 'post++', 'post--'):
                store(n['c'][0], None, e)
            elif k == 'decl':
                for v in n['vars']:
                    if v.get('init') and 'id' in v:
                        it = ex[v['init']]
                        if is_ptr_type(v['t']):
                            add(S.vpts, v['id'], pts(v['init']))
                            S.lv_pts[('decl', v['id'])] = frozenset(S.vpts.get(v['id'], ()))
                        elif it['k'] == 'init':
                            for c in F.walk(v['init']):
                                add(S.contents, ('L', v['id']), pts(c))
            elif k == 'ret':
                if n.get('c'):
                    v = pts(n['c'][0])
                    for o in v:
                        addset(S.ret, o)
            elif k == 'call':
                args = n.get('c', [])
                S.callargs[e] = [(frozenset(pts(a)), frozenset(load(pts(a), None))) for a in args]
                for t in P.call_targets(F, e):
                    if t.startswith('ext:'):
                        nm = t[4:]
                        if nm in EXT_PURE_MATH:
                            continue
                        if nm not in EXT_WRITES:
                            addset(S.unknown_calls, nm)
                            ws = list(range(len(args)))
                        else:
                            ws = EXT_WRITES[nm]
                        for i in ws:
                            if i < len(args):
                                am = arg_mem(args[i])
                                for o in pts(args[i]):
                                    addset(S.stores, (o, am[0], am[1], e, True))
                        if nm in ('free', 'realloc') and args:
                            for o in pts(args[0]):
                                addset(S.frees, (o, e, True))
                        if nm in ('memcpy', 'memmove') and len(args) > 1:
                            # copying pointers: contents flow
                            src = load(pts(args[1]), None)
                            for o in pts(args[0]):
                                if o[0] in ('L', 'A'):
                                    add(S.contents, o, src)
                    elif t.startswith('cb:'):
                        for i in CB_WRITES.get(t[3:], []):
                            if i < len(args):
                                for o in pts(args[i]):
                                    addset(S.stores, (o, None, None, e, True))
                    elif t.startswith('unk:'):
                        addset(S.unknown_calls, t)
                        for a in args:
                            for o in pts(a):
                                addset(S.stores, (o, None, None, e, True))
                    else:
                        sm = self.summ.get(t)
                        if not sm:
                            continue
                        for (o, rec, fld) in sm['stores']:
                            for o2 in inst(e, {o}):
                                addset(S.stores, (o2, rec, fld, e, False))
                        for o in sm['frees']:
                            for o2 in inst(e, {o}):
                                addset(S.frees, (o2, e, False))
                        for (tg, val) in sm['pstores']:
                            tgs = inst(e, {tg})
                            vals = inst(e, {val})
                            for o in tgs:
                                if o[0] in ('L', 'A'):
                                    add(S.contents, o, vals)
                                elif o[0] in ('P', 'F', 'G'):
                                    for x in vals:
                                        addset(S.pstores, (o, x))
        if (S.stores, S.frees, S.pstores, S.ret) != old_sets:
            changed = True
        # summary
        sm = {
            'stores': {(o, r, f) for (o, r, f, _, _d) in S.stores if o[0] not in ('L',)},
            'frees': {o for (o, _, _d) in S.frees if o[0] not in ('L',)},
            'ret': {o for o in S.ret if o[0] != 'L'},
            'pstores': {(t, v) for (t, v) in S.pstores if v[0] != 'L'},
        }
        old = self.summ.get(key)
        if old != sm:
            self.summ[key] = sm
            changed = True
        return changed

    def _solve(self):
        fns = self.P.functions()
        for it in range(30):
            ch = False
            for F in fns:
                if self._analyse(F):
                    ch = True
            if not ch:
                self.iterations = it + 1
                return
        raise AnalysisBroken('K3 effect analysis did not reach a fixpoint in 30 rounds')

    # -- static objects -----------------------------------------------------------------------------
    def statics_of(self, o):
        """static-storage objects that abstract object o may designate (not through parameters)"""
        if o[0] == 'G':
            return {o}
        out = set()
        if o[0] == 'F':
            if o[3] == 1:
                out |= {a for a in self.alias.get(o, ()) if a[0] == 'G'}
            else:
                for x in self.statics_of(('F', o[1], o[2], o[3] - 1)):
                    out |= {a for a in self.alias.get(x, ()) if a[0] == 'G'}
        return out

    def param_statics(self):
        """(function key, param index, depth) -> static objects that may be bound to it at some call site"""
        if hasattr(self, '_pstat'):
            return self._pstat
        bind = {}
        changed = True
        while changed:
            changed = False
            for k, S in self.st.items():
                F = S.F
                for e, args in S.callargs.items():
                    for t in self.P.call_targets(F, e):
                        if t not in self.st:
                            continue
                        for i, (d1, d2) in enumerate(args):
                            for d, objs in ((1, d1), (2, d2)):
                                acc = set()
                                for o in objs:
                                    if o[0] == 'P':
                                        acc |= bind.get((k, o[1], o[2]), set())
                                    else:
                                        acc |= self.statics_of(o)
                                if acc:
                                    cur = bind.setdefault((t, i, d), set())
                                    n = len(cur)
                                    cur |= acc
                                    if len(cur) != n:
                                        changed = True
        self._pstat = bind
        return bind

    def site_statics(self, key, o):
        if o[0] == 'P':
            return self.param_statics().get((key, o[1], o[2]), set())
        return self.statics_of(o)

    # -- queries ----------------------------------------------------------------------------------
    def stores(self, key):
        """Transitive store effects of function `key`: set of (obj, rec, fld) (callee locals dropped)."""
        return self.summ[key]['stores']

    def direct(self, key):
        """All store effects observed in function `key` including instantiated callee effects, with site."""
        return self.st[key].stores

    def may_designate(self, obj):
        """objects a class may stand for (itself plus aliases, transitively one level)"""
        out = {obj}
        for a in self.alias.get(obj, ()):
            out.add(a)
        return out


def fmt(o):
    if o[0] == 'P':
        return f'param{o[1]}' + '*' * o[2]
    if o[0] == 'L':
        return f'local#{o[1]}'
    if o[0] == 'A':
        return f'alloc@{o[1]}:{o[2]}'
    if o[0] == 'G':
        return f'static:{o[1]}'
    if o[0] == 'F':
        return f'{o[1]}.{o[2]}' + '*' * o[3]
    return 'unknown'
