"""K4 — forward abstract interpreter over the clang CFG facts.

Domain per location: interval [lo,hi] + symbolic strict/non-strict upper bounds (names of set-up quantities or locals)
+ end-of-packet tag for values read from the bit packer.  Locations are canonical access paths.  The state can be
partitioned by a client key (used by the typestate rules).  See DESIGN 3.3/K4 and Appendix E."""
import math
import struct

import cfg
from facts import AnalysisBroken

INF = math.inf


class V:
    """abstract integer/pointer value"""
    __slots__ = ('lo', 'hi', 'lt', 'le', 'eop', 'rd', 'nn', 'tag', 'ne')

    def __init__(self, lo=-INF, hi=INF, lt=frozenset(), le=frozenset(), eop=None, rd=0, nn=None, tag=None, ne=frozenset()):
        self.lo, self.hi, self.lt, self.le = lo, hi, lt, le
        self.ne = ne        # interior constants the value is known not to equal
        self.eop = eop      # value this location holds iff the read hit end-of-packet (None: not a read)
        self.rd = rd        # read sequence number
        self.nn = nn        # pointer nullness: True non-null, False null, None unknown
        self.tag = tag      # client tag (ownership/provenance), joined by equality

    def copy(self, **kw):
        v = V(self.lo, self.hi, self.lt, self.le, self.eop, self.rd, self.nn, self.tag, self.ne)
        for k, x in kw.items():
            setattr(v, k, x)
        return v

    def is_bottom(self):
        return self.lo > self.hi

    def const(self):
        return self.lo if self.lo == self.hi and self.lo not in (INF, -INF) else None

    def __eq__(self, o):
        return isinstance(o, V) and (self.lo, self.hi, self.lt, self.le, self.eop, self.nn, self.tag, self.ne) == \
            (o.lo, o.hi, o.lt, o.le, o.eop, o.nn, o.tag, o.ne)

    def __hash__(self):
        return hash((self.lo, self.hi))

    def __repr__(self):
        s = f'[{fmt(self.lo)},{fmt(self.hi)}]'
        if self.lt:
            s += '<' + '|'.join(sorted(self.lt))
        if self.le:
            s += '<=' + '|'.join(sorted(self.le))
        if self.eop is not None:
            s += f' eop={self.eop}'
        if self.nn is not None:
            s += ' nonnull' if self.nn else ' null'
        if self.tag is not None:
            s += f' #{self.tag}'
        return s


def fmt(x):
    if x == INF:
        return '+inf'
    if x == -INF:
        return '-inf'
    return str(int(x))


TOP = V()
BOT = V(1, 0)


def K(c):
    return V(c, c)


def join(a, b, la=None, lb=None):
    """la/lb: functions symbol -> known lower bound of that symbol in the environment a/b came from.  A symbolic bound
    held by one side survives when the other side's interval lies below the symbol's lower bound."""
    if a is None:
        return b
    if b is None:
        return a
    if a.is_bottom():
        return b
    if b.is_bottom():
        return a
    lt = set(a.lt & b.lt)
    le = set((a.le | a.lt) & (b.le | b.lt)) - lt
    if lb is not None:
        for s_ in a.lt - b.lt:
            l = lb(s_)
            if l is not None and b.hi < l:
                lt.add(s_)
        for s_ in a.le - b.le - b.lt:
            l = lb(s_)
            if l is not None and b.hi <= l:
                le.add(s_)
    if la is not None:
        for s_ in b.lt - a.lt:
            l = la(s_)
            if l is not None and a.hi < l:
                lt.add(s_)
        for s_ in b.le - a.le - a.lt:
            l = la(s_)
            if l is not None and a.hi <= l:
                le.add(s_)
    lt = frozenset(lt)
    le = frozenset(le) - lt
    eop = a.eop if a.eop == b.eop else (a.eop if b.eop is None and b.lo > (a.eop if a.eop is not None else -INF) - 0 else
                                        (b.eop if a.eop is None else None))
    if a.eop is not None and b.eop is not None and a.eop != b.eop:
        eop = None
    ne = frozenset(c for c in (a.ne | b.ne) if (c in a.ne or not (a.lo <= c <= a.hi)) and (c in b.ne or not (b.lo <= c <= b.hi)))
    # the few integers between two disjoint operands stay excluded ({-1} joined with [1,N] is not 0)
    lo_, hi_ = (a, b) if a.hi < b.lo else ((b, a) if b.hi < a.lo else (None, None))
    if lo_ is not None and lo_.hi not in (INF, -INF) and hi_.lo not in (INF, -INF) and 0 < hi_.lo - lo_.hi - 1 <= 3 \
            and float(lo_.hi).is_integer() and float(hi_.lo).is_integer() and len(ne) < 4:
        ne = ne | frozenset(range(int(lo_.hi) + 1, int(hi_.lo)))
    return V(min(a.lo, b.lo), max(a.hi, b.hi), lt, le, eop, max(a.rd, b.rd),
             a.nn if a.nn == b.nn else None, a.tag if a.tag == b.tag else None, ne)


def widen(old, new, thresholds):
    if old is None or old.is_bottom():
        return new
    if new.is_bottom():
        return old
    j = join(old, new)
    lo, hi = j.lo, j.hi
    if new.lo < old.lo:
        lo = max([t for t in thresholds if t <= new.lo], default=-INF)
    if new.hi > old.hi:
        hi = min([t for t in thresholds if t >= new.hi], default=INF)
    return j.copy(lo=lo, hi=hi)


def meet_range(v, lo=-INF, hi=INF):
    return v.copy(lo=max(v.lo, lo), hi=min(v.hi, hi))


# ----------------------------------------------------------------------------------------------------
def int_type_range(t):
    """value range of C integer type string t (LP64)"""
    t = t.replace('const ', '').replace('volatile ', '').strip()
    tbl = {
        'char': (-128, 127), 'signed char': (-128, 127), 'unsigned char': (0, 255),
        'short': (-2 ** 15, 2 ** 15 - 1), 'unsigned short': (0, 2 ** 16 - 1),
        'int': (-2 ** 31, 2 ** 31 - 1), 'unsigned int': (0, 2 ** 32 - 1),
        'long': (-2 ** 63, 2 ** 63 - 1), 'unsigned long': (0, 2 ** 64 - 1),
        'long long': (-2 ** 63, 2 ** 63 - 1), 'unsigned long long': (0, 2 ** 64 - 1),
        '_Bool': (0, 1),
    }
    return tbl.get(t)


class Env(dict):
    """location key -> V.  Special keys: '$zero' (frozenset of zero-initialised path prefixes), '$rd' (read counter)."""

    def copy(self):
        e = Env(self)
        return e


_WR = {}


def writers_of(P):
    """function key -> parameter indices it may write through (from the K3 effect summaries), computed once"""
    if id(P) not in _WR:
        import k3
        import k2
        E = getattr(P, '_effects', None)
        if E is None:
            E = P._effects = k3.Effects(P)
        _WR[id(P)] = k2.writers_through_arg(P, E)
    return _WR[id(P)]


def _syntactic_written_fields(P, gk, i, depth=0):
    """first-level field names of the record behind parameter i that function gk stores to, when every store in it can be
    attributed: direct member stores, stores through a single-definition pointer local that points into a field of the
    parameter (`int *sub=info->class_subbook[j]`), and the same for callees it hands the parameter to.  None = unknown"""
    cache = P.__dict__.setdefault('_synwf', {})
    if (gk, i) in cache:
        return cache[(gk, i)]
    cache[(gk, i)] = None
    G = P.fn.get(gk)
    if G is None or G.entry is None or depth > 3 or i >= len(G.params):
        return None
    pid = G.params[i]['id']
    rec = G.params[i].get('record')
    # another pointer parameter of the same record type could alias the object
    if any(j != i and p_.get('record') == rec and p_['t'].rstrip().endswith('*') for j, p_ in enumerate(G.params)):
        return None
    from rules import common as _common
    defs = _common.single_defs(G)

    def root_field(e, seen=0):
        """(is rooted at the parameter, first-level field) of an lvalue / pointer expression"""
        if seen > 6:
            return None, None
        nd = G.ex[G.strip_casts(e)]
        k = nd['k']
        if k == 'ref':
            if nd['decl'].get('id') == pid:
                return True, None
            d = defs.get(nd['decl'].get('id'))
            if d is not None and str(nd.get('t', '')).rstrip().endswith('*'):
                return root_field(d, seen + 1)
            return False, None
        if k == 'member':
            r, f = root_field(nd['c'][0], seen + 1)
            if r:
                return True, (f if f is not None else nd['field'])
            return r, None
        if k == 'sub' or (k == 'un' and nd['op'] in ('*', '&')) or (k == 'bin' and nd['op'] in ('+', '-')):
            return root_field(nd['c'][0], seen + 1)
        return False, None
    out = set()
    for n in G.pos:
        nd = G.ex[n]
        tgt = None
        if nd['k'] == 'assign':
            tgt = nd['c'][0]
        elif nd['k'] == 'un' and nd['op'] in ('pre++', 'pre--', 'post++', 'post--'):
            tgt = nd['c'][0]
        if tgt is not None:
            t = G.ex[G.strip_casts(tgt)]
            if t['k'] == 'ref':
                continue                      # a local
            r, f = root_field(tgt)
            if r is None:
                return None
            if r:
                if f is None:
                    return None
                out.add(f)
        if nd['k'] == 'call':
            for j, a in enumerate(nd.get('c', [])):
                if not str(G.ex[a].get('t', '')).rstrip().endswith(('*', ']')):
                    continue
                r, f = root_field(a)
                if not r:
                    continue
                if f is not None:
                    # a pointer into one field is handed on: that field may be written
                    out.add(f)
                    continue
                tg = P.call_targets(G, n)
                for t_ in tg:
                    if t_.startswith(('ext:', 'cb:', 'unk:')):
                        return None
                    sub = _syntactic_written_fields(P, t_, j, depth + 1)
                    if sub is None:
                        return None
                    out |= sub
    cache[(gk, i)] = out
    return out


def _predicate_body(G):
    """the expression a helper returns when its body is one `return <comparisons over parameters and constants>;`"""
    c = getattr(G, '_predbody', 0)
    if c != 0:
        return c
    out = None
    body = G.d.get('body')
    st = body
    while st and st.get('k') == 'seq' and len(st.get('c', [])) == 1:
        st = st['c'][0]
    if st and st.get('k') == 'ret' and G.params and all(int_type_range(p['t']) for p in G.params):
        rn = G.ex[st['e']]
        if rn.get('c'):
            e = rn['c'][0]
            ok = True
            for q in G.walk(e):
                nd = G.ex[q]
                if nd['k'] in ('int', 'cast'):
                    continue
                if nd['k'] == 'ref' and nd['decl'].get('kind') == 'param':
                    continue
                if nd['k'] == 'bin' and nd['op'] in ('&&', '||', '<', '<=', '>', '>=', '==', '!='):
                    continue
                if nd['k'] == 'un' and nd['op'] in ('!', '-'):
                    continue
                ok = False
                break
            if ok:
                out = e
    G._predbody = out
    return out


def eq_summary(P, gk):
    """what a helper establishes on every path to its exit about the object behind a parameter:
    [(j, '->field', ('param', k))]  the field equals parameter k (stored there, or found equal by the branch taken);
    [(j, '->field', ('const', c))]  the field holds the constant c.
    Computed by a plain K4 run of the callee; only small helpers that contain such a store are tried."""
    cache = P.__dict__.setdefault('_eqsum', {})
    if gk in cache:
        return cache[gk]
    cache[gk] = []
    G = P.fn[gk]
    if G.entry is None or G.exit is None or not G.params or len(G.blocks) > 80:
        return []
    pid = {p['id']: i for i, p in enumerate(G.params)}
    cand = False
    assigned = set()
    for n, nd in G.ex.items():
        if nd['k'] == 'assign' or (nd['k'] == 'un' and nd['op'] in ('pre++', 'pre--', 'post++', 'post--')):
            l = G.ex[G.strip_casts(nd['c'][0])]
            if l['k'] == 'ref' and l['decl'].get('id') in pid:
                assigned.add(l['decl']['id'])
            if nd['k'] == 'assign' and nd['op'] == '=' and l['k'] == 'member' and l.get('arrow'):
                lb = G.ex[G.strip_casts(l['c'][0])]
                if lb['k'] == 'ref' and lb['decl'].get('id') in pid:
                    r = G.ex[G.strip_casts(nd['c'][1])]
                    if (r['k'] == 'ref' and r['decl'].get('id') in pid) or r['k'] == 'int':
                        cand = True
    if not cand:
        return []
    A = Analyzer(P, G)
    A.run()
    envs = list((A.block_in.get(G.exit) or {}).values())
    if not envs:
        return []
    common = None
    for env in envs:
        eq = env.get('$eq') or {}
        here = set()
        for a, b in eq.items():
            if b.startswith('v') and b[1:].isdigit() and int(b[1:]) in pid and int(b[1:]) not in assigned and '->' in a:
                base, suffix = a[:a.index('->')], a[a.index('->'):]
                if base.startswith('v') and base[1:].isdigit() and int(base[1:]) in pid and int(base[1:]) not in assigned \
                        and suffix.count('->') == 1 and '[' not in suffix:
                    here.add((pid[int(base[1:])], suffix, ('param', pid[int(b[1:])])))
        for k, v in env.items():
            if isinstance(k, str) and isinstance(v, V) and k.startswith('v') and k.count('->') == 1 and '[' not in k and '.' not in k:
                base, suffix = k[:k.index('->')], k[k.index('->'):]
                if base[1:].isdigit() and int(base[1:]) in pid and int(base[1:]) not in assigned and v.const() is not None:
                    here.add((pid[int(base[1:])], suffix, ('const', v.const())))
        common = here if common is None else (common & here)
    cache[gk] = sorted(common or (), key=str)
    return cache[gk]


class Hooks:
    """client hooks; every attribute may stay None"""
    on_node = None          # (A, env, eid, value): after every evaluated node, all passes
    on_call = None          # (A, env, eid, argvalues) -> V or None
    post_call = None        # (A, env, eid, result V) -> V or None
    on_edge = None          # (A, env, cond eid, truth): after refinement along a branch edge
    on_store = None         # (A, env, eid, key, value) -> V or None
    on_entry = None         # (A, env) -> env
    after_elem = None
    on_refine_call = None
    join_special = None
    fork = None             # (A, env, eid) -> None | list of envs replacing env after element eid


class Analyzer:
    """One function, one run.  Subclass or pass hooks to specialise."""

    def __init__(self, P, F, hooks=None, field_inv=None, param_init=None, partition=None, thresholds=None,
                 uninit_summaries=False, entry_zero=None, widen_delay=2, unroll=0):
        self.P, self.F = P, F
        self.uninit_summaries = uninit_summaries
        self.entry_zero = entry_zero or ()      # path prefixes holding zero at function entry
        self.widen_delay = widen_delay
        self.escalate = True
        self.narrow_passes = 2
        self.unroll = unroll                    # iteration partitioning: the first `unroll` iterations of a loop are kept apart
        self.loop_entry = {}                    # loop header -> env joined over the loop's entry edges
        self.acc_c = {}                         # accumulate statement -> largest increment seen
        self.lemmas_used = set()
        self.last_index = (None, None)
        self.param_elems = {}                   # 'v<param id>' -> element invariant of the memory the pointer designates
        self.sumq = {}                          # (increment canon, bound canon) -> bound of a named sum (k4dec)
        self.hooks = hooks
        self.field_inv = field_inv or {}      # (record, field, elem:bool) -> V   assumed for memory not written here
        self.param_init = param_init or {}
        self.partition = partition
        self.ex = F.ex
        self.writers = writers_of(P)
        self.keyinfo = {}
        self.alias = self._alias_locals()
        self.puredefs = self._pure_defs()
        fic = []
        for v in self.field_inv.values():
            for x in (v.lo, v.hi):
                if x not in (INF, -INF):
                    fic += [x - 1, x, x + 1]
        self.thresholds = sorted(set((thresholds or []) + self._constants() + fic))
        self.block_in = {}      # block -> {pkey: Env}
        self.sites = {}         # eid -> list of (env snapshot values needed by obligations)  (filled by observers)
        self.observers = []     # callables (self, env, eid) called for every evaluated node (final pass only)
        self.final = False
        self.ret_states = []    # (ret eid, env, value) at return statements (final pass)
        self.loops = cfg.loops(F)
        self.iterations = 0
        self.acc_info = self._accumulators()

    # -- helpers ----------------------------------------------------------------------------------
    def _constants(self):
        cs = {0, 1, -1}
        for n, nd in self.ex.items():
            if nd['k'] == 'int' and isinstance(nd.get('v'), int) and abs(nd['v']) < 2 ** 40:
                cs.add(nd['v'])
                cs.add(nd['v'] - 1)
                cs.add(nd['v'] + 1)
        for nd in self.ex.values():
            for x in (nd.get('extent') or []):
                cs.add(x)
                cs.add(x - 1)
        return sorted(cs)

    def _alias_locals(self):
        """single-definition pointer locals defined by a pure path expression: var id -> defining expr id.
        The definition is the declaration's initialiser or the only assignment.  A path through a subscript with a local
        index (`mode=ci->mode_param[i]`) qualifies when every use of the pointer sees the index unchanged since the
        definition (no path definition -> store to the index or to the slot -> use that does not pass the definition again)"""
        F = self.F
        defs, cnt, defnode = {}, {}, {}
        self.alias_assign = set()
        for n in F.pos:
            nd = F.ex[n]
            if nd['k'] == 'decl':
                for v in nd['vars']:
                    if 'id' in v and v.get('init'):
                        defs[v['id']] = v['init']
                        defnode[v['id']] = n
                        cnt[v['id']] = cnt.get(v['id'], 0) + 1
            elif nd['k'] == 'assign':
                l = F.ex[F.strip_casts(nd['c'][0])]
                if l['k'] == 'ref' and l['decl']['kind'] in ('var', 'param'):
                    vid = l['decl']['id']
                    if nd['op'] == '=' and l['decl']['kind'] == 'var' and F.sparent.get(n) is None:
                        cnt[vid] = cnt.get(vid, 0) + 1
                        defs.setdefault(vid, nd['c'][1]) if cnt[vid] == 1 else None
                        defnode[vid] = n
                    else:
                        cnt[vid] = cnt.get(vid, 0) + 2
            elif nd['k'] == 'un' and nd['op'] in ('&', 'pre++', 'pre--', 'post++', 'post--'):
                l = F.ex[F.strip_casts(nd['c'][0])]
                if l['k'] == 'ref' and l['decl']['kind'] in ('var', 'param'):
                    cnt[l['decl']['id']] = cnt.get(l['decl']['id'], 0) + 2
        out = {}
        for v, d in defs.items():
            if cnt.get(v) != 1:
                continue
            t = F.vars.get(v, {}).get('t', '')
            if not t.endswith('*'):
                continue
            dn = defnode[v]
            by_assign = F.ex[dn]['k'] == 'assign'
            if self._pure_path(d) and not by_assign:
                out[v] = d
                continue
            idx = set()
            if not self._pure_path(d, idxvars=idx):
                continue
            if self._alias_stable(v, d, dn, idx):
                out[v] = d
                if by_assign:
                    self.alias_assign.add(dn)
        return out

    def _alias_stable(self, v, d, dn, idx):
        """every use of pointer local v is dominated by its definition dn and sees the index variables `idx` and the slot
        the path names unchanged since"""
        F = self.F
        slot = F.s(F.strip_casts(d))

        def mod(n):
            x = F.ex[n]
            if x['k'] == 'assign' or (x['k'] == 'un' and x['op'] in ('pre++', 'pre--', 'post++', 'post--')):
                l = F.ex[F.strip_casts(x['c'][0])]
                if l['k'] == 'ref' and l['decl'].get('id') in idx:
                    return True
                if n != dn and F.s(F.strip_casts(x['c'][0])) == slot:
                    return True
            return False
        mods = [n for n in F.pos if mod(n)]
        uses = [n for n in F.pos if F.ex[n]['k'] == 'ref' and F.ex[n]['decl'].get('id') == v
                and not (F.ex[dn]['k'] == 'assign' and F.strip_casts(F.ex[dn]['c'][0]) == n)]
        for u in uses:
            if not cfg.pos_dominates(F, dn, u):
                return False
        for m in mods:
            # is m reachable from the definition, and a use reachable from m, without passing the definition again?
            if cfg.search(F, F.pos[dn], lambda n: n == m, lambda n: n == dn) is None:
                continue
            if cfg.search(F, F.pos[m], lambda n: n in uses, lambda n: n == dn) is not None:
                return False
        return True

    def _pure_defs(self):
        """integer locals with exactly one definition that is pure arithmetic over other locals/parameters:
        var id -> (def expr id, set of variable ids it depends on)"""
        F = self.F
        defs, cnt = {}, {}
        for n in F.pos:
            nd = F.ex[n]
            if nd['k'] == 'decl':
                for v in nd['vars']:
                    if 'id' in v and v.get('init'):
                        defs[v['id']] = v['init']
                        cnt[v['id']] = cnt.get(v['id'], 0) + 1
            elif nd['k'] == 'assign':
                l = F.ex[F.strip_casts(nd['c'][0])]
                if l['k'] == 'ref' and l['decl']['kind'] in ('var', 'param'):
                    cnt[l['decl']['id']] = cnt.get(l['decl']['id'], 0) + 2
            elif nd['k'] == 'un' and nd['op'] in ('&', 'pre++', 'pre--', 'post++', 'post--'):
                l = F.ex[F.strip_casts(nd['c'][0])]
                if l['k'] == 'ref' and l['decl']['kind'] in ('var', 'param'):
                    cnt[l['decl']['id']] = cnt.get(l['decl']['id'], 0) + 2
        out = {}
        for v, d in defs.items():
            if cnt.get(v) != 1 or not int_type_range(F.vars.get(v, {}).get('t', '')):
                continue
            deps = set()
            ok = True
            for n in F.walk(d):
                nd = F.ex[n]
                if nd['k'] in ('int', 'cast'):
                    continue
                if nd['k'] == 'bin' and nd['op'] in ('+', '-', '*', '&', '|', '>>', '<<', '/', '%'):
                    continue
                if nd['k'] == 'ref' and nd['decl']['kind'] in ('var', 'param') and 'extent' not in nd['decl']:
                    deps.add(nd['decl']['id'])
                    continue
                ok = False
                break
            if ok and deps and all(cnt.get(x, 0) == 0 or x in defs and cnt.get(x) == 1 for x in deps):
                out[v] = (d, deps)
        return out

    def _pure_path(self, e, depth=0, idxvars=None):
        nd = self.ex[e]
        k = nd['k']
        if k == 'cast':
            return self._pure_path(nd['c'][0], depth, idxvars)
        if k == 'ref':
            return nd['decl']['kind'] in ('var', 'param', 'global')
        if k == 'member':
            return self._pure_path(nd['c'][0], depth + 1, idxvars)
        if k == 'cond':
            # `vb ? vb->vd : 0` idiom: path of the non-null arm
            a, b = nd['c'][1], nd['c'][2]
            za = self.ex[self.F.strip_casts(a)]
            zb = self.ex[self.F.strip_casts(b)]
            if zb['k'] == 'int' and zb['v'] == 0:
                return self._pure_path(a, depth, idxvars)
            if za['k'] == 'int' and za['v'] == 0:
                return self._pure_path(b, depth, idxvars)
            return False
        if k == 'un' and nd['op'] == '&':
            return self._pure_path(nd['c'][0], depth + 1, idxvars)
        if k == 'sub':
            i = self.ex[self.F.strip_casts(nd['c'][1])]
            if i['k'] == 'int':
                return self._pure_path(nd['c'][0], depth + 1, idxvars)
            if idxvars is not None and i['k'] == 'ref' and i['decl']['kind'] in ('var', 'param') and \
                    int_type_range(i.get('t', '') or self.F.vars.get(i['decl'].get('id'), {}).get('t', '')):
                idxvars.add(i['decl']['id'])
                return self._pure_path(nd['c'][0], depth + 1, idxvars)
            return False
        return False

    # -- accumulator lemma -------------------------------------------------------------------------
    def _accumulators(self):
        """Loops `for(i=i0; i<N; i++)` with a loop-invariant bound N, and local integer variables that such loops only
        ever increase by `a += e` / `a++`.  Lemma (DESIGN 3.3/K4): inside and after the loops
        a <= a_at_entry + sum over accumulate statements s of max(0,hi(e_s)) * (product of trip counts of the loops
        around s).  Returns {stmt eid: (var id, [loop headers inner..outer], outermost header)}."""
        F = self.F
        self.acc_headers, self.acc_keys, self.ind = set(), set(), {}
        self.addr_taken = self._addr_taken()
        if not self.loops:
            return {}
        # innermost loop of each block
        inner = {}
        for h, body in self.loops.items():
            for b in body:
                if b not in inner or len(self.loops[h]) < len(self.loops[inner[b]]):
                    inner[b] = h
        # modifications of local scalars: var id -> [(eid, block, kind, inc expr or None)]
        mods, addr = {}, set()
        for n, (b, _) in F.pos.items():
            nd = F.ex[n]
            tgt, kind, inc = None, None, None
            if nd['k'] == 'assign':
                tgt = nd['c'][0]
                if nd['op'] == '+=':
                    kind, inc = 'acc', nd['c'][1]
                elif nd['op'] == '=':
                    r = F.ex[F.strip_casts(nd['c'][1])]
                    l = F.ex[F.strip_casts(nd['c'][0])]
                    if r['k'] == 'bin' and r['op'] == '+' and l['k'] == 'ref':
                        x, y = (F.ex[F.strip_casts(c)] for c in r['c'])
                        if x['k'] == 'ref' and x['decl'].get('id') == l['decl'].get('id'):
                            kind, inc = 'acc', r['c'][1]
                        elif y['k'] == 'ref' and y['decl'].get('id') == l['decl'].get('id'):
                            kind, inc = 'acc', r['c'][0]
                    kind = kind or 'set'
                else:
                    kind = 'set'
            elif nd['k'] == 'un' and nd['op'] in ('pre++', 'post++'):
                tgt, kind = nd['c'][0], 'inc'
            elif nd['k'] == 'un' and nd['op'] in ('pre--', 'post--'):
                tgt, kind = nd['c'][0], 'set'
            elif nd['k'] == 'un' and nd['op'] == '&':
                l = F.ex[F.strip_casts(nd['c'][0])]
                if l['k'] == 'ref' and l['decl']['kind'] in ('var', 'param'):
                    addr.add(l['decl']['id'])
                continue
            elif nd['k'] == 'decl':
                for v in nd['vars']:
                    if 'id' in v:
                        mods.setdefault(v['id'], []).append((n, b, 'set', None))
                continue
            if tgt is None:
                continue
            l = F.ex[F.strip_casts(tgt)]
            if l['k'] == 'ref' and l['decl']['kind'] in ('var', 'param') and int_type_range(l.get('t', '')):
                mods.setdefault(l['decl']['id'], []).append((n, b, kind, inc))
        # induction variables
        for h in self.loops:
            t = F.blocks[h].get('term')
            if not t or t.get('cond') is None or len(F.blocks[h]['succs']) != 2:
                continue
            tr, fa = F.blocks[h]['succs']
            if tr not in self.loops[h] or fa in self.loops[h]:
                continue
            c = F.ex[F.strip_casts(t['cond'])]
            if c['k'] != 'bin' or c['op'] not in ('<', '<='):
                continue
            iv = F.ex[F.strip_casts(c['c'][0])]
            if iv['k'] != 'ref' or iv['decl']['kind'] not in ('var', 'param') or iv['decl']['id'] in addr:
                continue
            vid = iv['decl']['id']
            inl = [m for m in mods.get(vid, []) if m[1] in self.loops[h]]
            if len(inl) != 1 or inl[0][2] != 'inc' or inner.get(inl[0][1]) != h:
                continue
            if not self._invariant_in(h, c['c'][1], mods, addr):
                continue
            self.ind[h] = (vid, c['c'][1], 1 if c['op'] == '<=' else 0)
        out = {}

        def parent(h):
            par = None
            for h2, body in self.loops.items():
                if h2 != h and h in body and self.loops[h] < body:
                    if par is None or len(body) < len(self.loops[par]):
                        par = h2
            return par
        for vid, ms in mods.items():
            if vid in addr:
                continue
            if any(self.ind.get(h, (None,))[0] == vid for h in self.loops):
                continue
            for (n, b, kind, inc) in ms:
                if b not in inner or kind not in ('acc', 'inc'):
                    continue
                chain = []
                h = inner[b]
                while h is not None:
                    chain.append(h)
                    h = parent(h)
                # the largest enclosing loop inside which the variable is only ever increased
                keep = []
                for h in chain:
                    if any(m[2] == 'set' for m in ms if m[1] in self.loops[h]):
                        break
                    keep.append(h)
                chain = keep
                if not chain:
                    continue
                hout = chain[-1]
                if any(h not in self.ind for h in chain):
                    continue
                out[n] = (vid, chain, hout, inc)
        for n, (vid, chain, hout, inc) in out.items():
            self.acc_headers.add(hout)
            self.acc_keys.add(f'v{vid}')
            for h in chain:
                self.acc_headers.add(h)
                self.acc_keys.add(f'v{self.ind[h][0]}')
        return out

    def _addr_taken(self):
        F = self.F
        out = set()
        for n in F.ex:
            nd = F.ex[n]
            if nd['k'] == 'un' and nd['op'] == '&':
                l = F.ex[F.strip_casts(nd['c'][0])]
                while l['k'] in ('sub', 'member') and l.get('c'):
                    l = F.ex[F.strip_casts(l['c'][0])]
                if l['k'] == 'ref' and l['decl']['kind'] in ('var', 'param'):
                    out.add(l['decl']['id'])
        return out

    def _invariant_in(self, h, e, mods, addr):
        """is expression e unchanged by the natural loop of header h?"""
        F = self.F
        body = self.loops[h]
        stored_fields, calls = set(), []
        for n, (b, _) in F.pos.items():
            if b not in body:
                continue
            nd = F.ex[n]
            tgt = None
            if nd['k'] == 'assign':
                tgt = nd['c'][0]
            elif nd['k'] == 'un' and nd['op'] in ('pre++', 'post++', 'pre--', 'post--'):
                tgt = nd['c'][0]
            elif nd['k'] == 'call':
                calls.append(n)
            if tgt is not None:
                mk = self.member_key(tgt)
                if mk:
                    stored_fields.add((mk[0], mk[1]))
                l = F.ex[F.strip_casts(tgt)]
                if l['k'] == 'un' and l['op'] == '*':
                    stored_fields.add(('*', '*'))
        for n in F.walk(e):
            nd = F.ex[n]
            k = nd['k']
            if k in ('int', 'cast') or (k == 'bin' and nd['op'] in ('+', '-', '*', '>>', '<<', '/')):
                continue
            if k == 'ref' and nd['decl']['kind'] in ('var', 'param'):
                vid = nd['decl']['id']
                if vid in addr and not nd.get('t', '').endswith('*'):
                    return False
                if any(m[1] in body for m in mods.get(vid, [])):
                    if vid in self.alias:
                        continue
                    return False
                continue
            if k == 'member' and 'record' in nd:
                if (nd['record'], nd['field']) in stored_fields or ('*', '*') in stored_fields:
                    return False
                for c in calls:
                    for t in self.P.call_targets(F, c):
                        if t.startswith('ext:'):
                            import k3
                            if t[4:] in k3.EXT_WRITES or t[4:] in k3.EXT_PURE_MATH:
                                continue
                            return False
                        if t.startswith(('cb:', 'unk:')):
                            return False
                        E = getattr(self.P, '_effects', None)
                        sm = E.summ.get(t) if E else None
                        if sm is None:
                            return False
                        if any(r == nd['record'] and f == nd['field'] for (_, r, f) in sm['stores']):
                            return False
                continue
            return False
        return True

    def trips(self, env, h):
        """upper bound of the number of iterations of the loop with header h (needs its entry state), or None"""
        vid, nexp, extra = self.ind[h]
        ent = self.loop_entry.get(h)
        if ent is None or f'v{vid}' not in ent:
            return None
        i0 = ent[f'v{vid}']
        nv = self.peek(env, nexp)
        if i0.lo == -INF or nv.hi == INF:
            return None
        return max(0, nv.hi + extra - i0.lo)

    def acc_clamp(self, env, e, key, old, incv, new):
        info = self.acc_info.get(e)
        if info is None:
            return old, new
        vid, chain, hout, inc = info
        c = max(0, incv.hi)
        if c == INF:
            return old, new
        self.acc_c[e] = max(self.acc_c.get(e, 0), c)
        ent = self.loop_entry.get(hout)
        if ent is None or f'v{vid}' not in ent or ent[f'v{vid}'].hi == INF:
            return old, new
        total = 0
        for n2, (vid2, chain2, hout2, _) in self.acc_info.items():
            if vid2 != vid or hout2 != hout:
                continue
            if n2 not in self.acc_c:
                return old, new
            t = 1
            for h in chain2:
                th = self.trips(env, h)
                if th is None:
                    return old, new
                t *= th
            total += self.acc_c[n2] * t
        bound = ent[f'v{vid}'].hi + total
        if self.sumq and len(chain) == 1:
            # a named sum over a set-up structure whose total the unpacker has bounded (k4dec): same operand, same range
            iv, bexp, extra = self.ind[chain[0]]
            i0 = (self.loop_entry.get(chain[0]) or {}).get(f'v{iv}')
            qk = (self.canon_named(inc) if inc else '1', self.canon_named(bexp))
            q = self.sumq.get(qk)
            if q is not None and i0 is not None and i0.lo >= 0 and extra == 0 and ent[f'v{vid}'].hi + q < bound \
                    and sum(1 for x in self.acc_info.values() if x[0] == vid and x[2] == hout) == 1:
                bound = ent[f'v{vid}'].hi + q
                self.lemmas_used.add('named-sum ' + qk[0])
        self.lemmas_used.add('accumulator')
        return (old.copy(hi=min(old.hi, bound - c)) if old.hi > bound - c else old,
                new.copy(hi=min(new.hi, bound)) if new.hi > bound else new)

    def canon_named(self, e, depth=0):
        """canonical text of an expression for cross-function matching: locals anonymous, fields by name; a pointer
        local that stands for a path (`int *cls=info->partitionclass`) and an integer local that is a single copy of a
        field (`const int parts=info->partitions`) print as what they stand for"""
        F = self.F
        n = F.ex.get(e)
        if n is None:
            return '?'
        k = n['k']
        c = n.get('c', [])
        if k == 'ref' and n['decl'].get('kind') in ('var', 'param') and depth < 4:
            vid = n['decl'].get('id')
            if vid in self.alias:
                return self.canon_named(F.strip_casts(self.alias[vid]), depth + 1)
            if not hasattr(self, '_copydefs'):
                from rules import common as _c
                self._copydefs = _c.single_defs(F)
            d = self._copydefs.get(vid)
            if d is not None and F.ex[F.strip_casts(d)]['k'] == 'member' and int_type_range(n.get('t', '') or ''):
                return self.canon_named(F.strip_casts(d), depth + 1)
            # ... or that is stored, unmodified, into one field (`parts=read(); info->partitions=parts;`)
            if d is not None:
                if not hasattr(self, '_storedto'):
                    st = {}
                    for q in F.pos:
                        qn = F.ex[q]
                        if qn['k'] == 'assign' and qn['op'] == '=':
                            l, r = F.ex[F.strip_casts(qn['c'][0])], F.ex[F.strip_casts(qn['c'][1])]
                            if l['k'] == 'member' and r['k'] == 'ref' and r['decl'].get('kind') == 'var':
                                st.setdefault(r['decl']['id'], []).append(F.strip_casts(qn['c'][0]))
                    self._storedto = st
                tg = self._storedto.get(vid) or []
                if len(tg) == 1:
                    return self.canon_named(tg[0], depth + 1)
            return '$'
        if k == 'member':
            return self.canon_named(c[0], depth) + ('->' if n['arrow'] else '.') + n['field']
        if k == 'sub':
            return f'{self.canon_named(c[0], depth)}[{self.canon_named(c[1], depth)}]'
        if k in ('bin', 'assign'):
            return f'({self.canon_named(c[0], depth)}{n["op"]}{self.canon_named(c[1], depth)})'
        if k == 'cast':
            return self.canon_named(c[0], depth) if not n.get('explicit') else f'({n["t"]}){self.canon_named(c[0], depth)}'
        return F.s(e, names=False)

    # -- access paths -----------------------------------------------------------------------------
    def path(self, e, env=None):
        """canonical location key of lvalue expression e, or None"""
        p = self._path(e, env)
        if p is not None and p not in self.keyinfo:
            nd = self.ex[e]
            if nd['k'] != 'cast':
                self.keyinfo[p] = (self.member_key(e), int_type_range(nd.get('t', '')))
        return p

    def _path(self, e, env=None):
        nd = self.ex[e]
        k = nd['k']
        if k == 'cast':
            return self.path(nd['c'][0], env)
        if k == 'ref':
            d = nd['decl']
            if d['kind'] in ('var', 'param'):
                if d['id'] in self.alias:
                    return self.rpath(self.alias[d['id']], env)
                return f'v{d["id"]}'
            if d['kind'] == 'global':
                return 'g:' + d['name']
            return None
        if k == 'member':
            b = nd['c'][0]
            if nd['arrow']:
                bp = self.rpath(b, env)
                return None if bp is None else f'{bp}->{nd["field"]}'
            bp = self.path(b, env)
            return None if bp is None else f'{bp}.{nd["field"]}'
        if k == 'sub':
            b, i = nd['c']
            if 'extent' in nd:
                bp = self.path(b, env)
            else:
                bp = self.rpath(b, env)
            if bp is None:
                return None
            ix = self.ex[self.F.strip_casts(i)]
            if ix['k'] == 'int':
                return f'{bp}[{ix["v"]}]'
            if ix['k'] == 'ref' and ix['decl']['kind'] in ('var', 'param') and ix['decl']['id'] not in self.alias:
                return f'{bp}[v{ix["decl"]["id"]}]'
            return f'{bp}[*]'
        if k == 'un' and nd['op'] == '*':
            bp = self.rpath(nd['c'][0], env)
            if bp is not None and bp.startswith('&'):
                return bp[1:]           # *(&lv) is lv (a pointer local that holds the address of an element)
            return None if bp is None else f'*{bp}'
        if k == 'cond':
            a, b = nd['c'][1], nd['c'][2]
            zb = self.ex[self.F.strip_casts(b)]
            za = self.ex[self.F.strip_casts(a)]
            if zb['k'] == 'int' and zb['v'] == 0:
                return self.path(a, env)
            if za['k'] == 'int' and za['v'] == 0:
                return self.path(b, env)
        return None

    def rpath(self, e, env=None):
        """path of the object a pointer-valued expression designates when dereferenced (the pointer's own location)"""
        nd = self.ex[e]
        k = nd['k']
        if k == 'cast':
            return self.rpath(nd['c'][0], env)
        if k == 'un' and nd['op'] == '&':
            p = self.path(nd['c'][0], env)
            return None if p is None else '&' + p
        if k in ('ref', 'member', 'sub', 'cond') or (k == 'un' and nd['op'] == '*'):
            p = self.path(e, env)
            return p
        if k == 'bin' and nd['op'] in ('+', '-'):
            # pointer arithmetic: stays within the same object
            a, b = nd['c']
            if self.ex[a].get('t', '').endswith(('*', ']')):
                return self.rpath(a, env)
            if self.ex[b].get('t', '').endswith(('*', ']')):
                return self.rpath(b, env)
        return None

    @staticmethod
    def norm(p):
        """'&x->f' dereferenced is 'x->f': `(&a)->b` == a.b"""
        return p

    def member_key(self, e):
        """(record, field, is_elem) of an lvalue whose last step is a member access (through subscripts)"""
        nd = self.ex[self.F.strip_casts(e)]
        elem = False
        for _ in range(8):
            # *p with p = &lv (single definition): the location is lv
            if nd['k'] == 'un' and nd['op'] == '*':
                pn = self.ex[self.F.strip_casts(nd['c'][0])]
                if pn['k'] == 'ref' and pn['decl'].get('id') in getattr(self, 'alias', {}):
                    dn = self.ex[self.F.strip_casts(self.alias[pn['decl']['id']])]
                    if dn['k'] == 'un' and dn['op'] == '&':
                        nd = self.ex[self.F.strip_casts(dn['c'][0])]
                        continue
            while nd['k'] == 'sub':
                elem = True
                nd = self.ex[self.F.strip_casts(nd['c'][0])]
            # a pointer local that stands for a path (`const char *lens=s->lengthlist; lens[i]`)
            if nd['k'] == 'ref' and nd['decl'].get('id') in getattr(self, 'alias', {}):
                nd = self.ex[self.F.strip_casts(self.alias[nd['decl']['id']])]
                continue
            break
        if nd['k'] == 'member' and 'record' in nd:
            return (nd['record'], nd['field'], elem)
        return None

    # -- environment ------------------------------------------------------------------------------
    def default(self, env, key, e=None):
        """value of a location never written on this path"""
        for z in env.get('$zero', ()):
            if key.startswith(z):
                return V(0, 0, nn=False)
        v = None
        if self.param_elems:
            pk = key[1:] if key.startswith('*') else (key[:key.index('[')] if '[' in key else None)
            if pk in self.param_elems and (key.startswith('*') or key.count('[') == 1 and key.endswith(']')):
                return self.param_elems[pk]
        info = self.keyinfo.get(key)
        if info is None and e is not None:
            info = (self.member_key(e), int_type_range(self.ex[e].get('t', '')))
        if info is None and key.endswith('[*]'):
            # summary of a tracked current element
            for k2, i2 in self.keyinfo.items():
                if k2.startswith(key[:-3] + '[') and i2[0]:
                    info = i2
                    break
        if info:
            mk, r = info
            if mk and mk in self.field_inv:
                v = self.field_inv[mk]
            if r:
                v = meet_range(v or TOP, r[0], r[1])
        return v or TOP

    def get(self, env, key, e=None):
        v = env.get(key)
        if v is None:
            if key.endswith(']') and '[v' in key:
                # current element not tracked: use the summary
                sk = key[:key.rindex('[')] + '[*]'
                v = env.get(sk)
            if v is None:
                v = self.default(env, key, e)
        return v

    def kill_symbol(self, env, sym):
        for k, v in list(env.items()):
            if isinstance(v, V) and (sym in v.lt or sym in v.le):
                env[k] = v.copy(lt=v.lt - {sym}, le=v.le - {sym})

    def fold_index(self, env, var):
        """index variable `var` changes: current-element keys fold into their summaries"""
        tok = f'[{var}]'
        for zk in ('$zero', '$uninit'):
            z = env.get(zk)
            if z and any(tok in x for x in z):
                env[zk] = frozenset(x for x in z if tok not in x)
        eq = env.get('$eq')
        if eq and any(tok in a or tok in b for a, b in eq.items()):
            env['$eq'] = {a: b for a, b in eq.items() if tok not in a and tok not in b}
        for k in [k for k in env if isinstance(k, str) and tok in k]:
            sk = k.replace(tok, '[*]')
            if sk not in self.keyinfo and k in self.keyinfo:
                self.keyinfo[sk] = self.keyinfo[k]
            cur = env.pop(k)
            old = env.get(sk)
            if old is None:
                old = self.default(env, sk) if any(sk.startswith(z) for z in env.get('$zero', ())) else None
            f = self.symlo(env)
            env[sk] = join(old, cur, f, f) if old is not None else cur

    def store(self, env, key, val, e=None, weak=False):
        if key is None:
            return
        cse = env.get('$cse')
        if cse and any(key in d for (_, d) in cse.values()):
            env['$cse'] = {t: (v_, d) for t, (v_, d) in cse.items() if key not in d}
        eq = env.get('$eq')
        if eq and (key in eq or any(k_.startswith(key + '[') or k_.startswith(key + '->') for k_ in eq)):
            eq = {a: b for a, b in eq.items() if a != key and b != key and not a.startswith(key + '[') and not b.startswith(key + '[')
                  and not a.startswith(key + '->') and not b.startswith(key + '->')}
            env['$eq'] = eq
        # symbolic name of the location (type based for fields, variable name for locals)
        sym = self.symbol(key, e)
        if sym is None and e is not None:
            mk = self.member_key(e)
            if mk and mk[2]:
                pre = f'{mk[0]}.{mk[1]}['
                for k_, v_ in list(env.items()):
                    if isinstance(v_, V) and (any(x.startswith(pre) for x in v_.lt) or any(x.startswith(pre) for x in v_.le)):
                        env[k_] = v_.copy(lt=frozenset(x for x in v_.lt if not x.startswith(pre)),
                                          le=frozenset(x for x in v_.le if not x.startswith(pre)))
        if sym:
            self.kill_symbol(env, sym)
            sv = dict(env.get('$sym') or {})
            sv[sym] = val
            env['$sym'] = sv
        if key.startswith('v') and key[1:].isdigit():
            self.fold_index(env, key)
        # children of the location are no longer known
        for k in [k for k in env if isinstance(k, str) and k != key and (k.startswith(key + '->') or k.startswith(key + '.')
                                                                            or k.startswith(key + '['))]:
            del env[k]
        # type-based may-alias: same trailing field under a different prefix
        if e is not None and '->' in key:
            tail = key[key.rindex('->'):]
            base = key[:key.rindex('->')]
            for k in [k for k in env if isinstance(k, str) and k != key and k.endswith(tail) and not k.startswith(base)]:
                ob = k[:-len(tail)]
                if ob.startswith('&') or base.startswith('&'):
                    continue      # distinct named objects
                del env[k]
            cse = env.get('$cse')
            if cse and any(any(x.endswith(tail) for x in d) for (_, d) in cse.values()):
                env['$cse'] = {t: (v_, d) for t, (v_, d) in cse.items() if not any(x.endswith(tail) for x in d)}
        if isinstance(val, V) and sym and (sym in val.le or sym in val.lt):
            val = val.copy(le=val.le - {sym}, lt=val.lt - {sym})
        if isinstance(val, V) and isinstance(val.tag, str) and val.tag.startswith('fresh0'):
            env['$zero'] = frozenset(set(env.get('$zero', ())) | {key + '->', key + '['})
        if isinstance(val, V) and isinstance(val.tag, str) and val.tag.startswith('fresh') and not val.tag.startswith('fresh0') and self.uninit_summaries:
            # malloc'ed memory: nothing may be read before it is written, so an element summary below this
            # pointer describes the *written* elements only (DESIGN 3.3/K4 "written-elements invariant")
            env['$uninit'] = frozenset(set(env.get('$uninit', ())) | {key + '->', key + '['})
        if weak or key.endswith('[*]') or key.startswith('*'):
            old = env.get(key)
            if old is None and any(key.startswith(z) for z in env.get('$zero', ())):
                old = V(0, 0)
            f = self.symlo(env)
            if old is None and key.endswith('[*]') and self.is_uninit(env, key):
                env[key] = val
            else:
                env[key] = join(old, val, f, f) if old is not None else (val if not key.endswith('[*]') else join(self.default(env, key, e), val, f, f))
        else:
            env[key] = val

    def note_equal(self, env, key, rhs):
        """`x = (y = e)` / `x = y`: x and y hold the same value until either is stored again; a branch that refines one
        refines the other (the `int t = info->field[i] = read(); if(t<0 || t>=N) goto err;` idiom)"""
        if key is None:
            return
        r = self.ex[self.F.strip_casts(rhs)]
        if r['k'] == 'assign' and r['op'] == '=':
            other = self.path(r['c'][0], env)
        elif r['k'] in ('ref', 'member', 'sub'):
            if r['k'] == 'ref' and (r['decl']['kind'] not in ('var', 'param') or 'extent' in r['decl']):
                return
            other = self.path(self.F.strip_casts(rhs), env)
        else:
            return
        if other is None or other == key or other.endswith('[*]') or key.endswith('[*]'):
            return
        # same integer type range only (a narrowing copy is not an equality)
        eq = dict(env.get('$eq') or {})
        eq[key] = other
        eq[other] = key
        env['$eq'] = eq

    @staticmethod
    def is_uninit(env, key):
        u = env.get('$uninit')
        return bool(u) and any(key.startswith(z) for z in u)

    def symbol(self, key, e=None):
        if key.startswith('v') and key[1:].isdigit():
            return key
        if e is not None:
            return self._field_sym(e)
        return None

    def _field_sym(self, e):
        """symbol of a struct field lvalue: `rec.field`, or `rec.field[c]` for a constant-indexed element of an array field"""
        mk = self.member_key(e)
        if not mk:
            return None
        if not mk[2]:
            return f'{mk[0]}.{mk[1]}'
        nd = self.ex[self.F.strip_casts(e)]
        if nd['k'] == 'sub':
            b = self.ex[self.F.strip_casts(nd['c'][0])]
            i = self.ex[self.F.strip_casts(nd['c'][1])]
            if b['k'] == 'member' and i['k'] == 'int':
                return f'{mk[0]}.{mk[1]}[{i["v"]}]'
        return None

    def havoc_reachable(self, env, prefix):
        """forget everything stored under pointer path `prefix`"""
        if prefix is None:
            return
        p = prefix[1:] if prefix.startswith('&') else prefix
        for k in [k for k in env if isinstance(k, str) and (k == p or k.startswith(p + '->') or k.startswith(p + '.')
                                                            or k.startswith(p + '[') or k == '*' + p)]:
            if prefix.startswith('&') or k != p:
                del env[k]
        z = env.get('$zero')
        if z:
            env['$zero'] = frozenset(x for x in z if not x.startswith(p))
        z = env.get('$uninit')
        if z:
            env['$uninit'] = frozenset(x for x in z if not x.startswith(p))
        cse = env.get('$cse')
        if cse:
            def _hit(d_):
                return any(x == p or x.startswith(p + '->') or x.startswith(p + '.') or x.startswith(p + '[') for x in d_)
            if any(_hit(d) for (_, d) in cse.values()):
                env['$cse'] = {t: (v_, d) for t, (v_, d) in cse.items() if not _hit(d)}
        eq = env.get('$eq')
        if eq and any(a.startswith(p) or b.startswith(p) for a, b in eq.items()):
            env['$eq'] = {a: b for a, b in eq.items() if not a.startswith(p) and not b.startswith(p)}

    # -- expression evaluation --------------------------------------------------------------------
    def ev(self, env, e):
        """evaluate expression e in env (side effects applied to env); returns V"""
        memo = env.get('$tmp')
        if memo is not None and e in memo:
            return memo[e]
        v = self._ev(env, e)
        if e in self.F.elem_set:
            memo = dict(env.get('$tmp') or {})
            memo[e] = v
            env['$tmp'] = memo
        if self.hooks is not None and self.hooks.on_node is not None:
            self.hooks.on_node(self, env, e, v)
        if self.final:
            for ob in self.observers:
                ob(self, env, e, v)
        return v

    def _ev(self, env, e):
        nd = self.ex[e]
        k = nd['k']
        c = nd.get('c', [])
        if k == 'int':
            return K(nd['v'])
        if k in ('flt', 'str'):
            if k == 'str':
                return V(nn=True)
            fv = nd.get('v')
            if isinstance(fv, (int, float)) and fv == fv and abs(fv) != INF:
                return V(fv, fv)
            return TOP
        if k == 'ref':
            d = nd['decl']
            if d['kind'] == 'fn':
                return V(nn=True)
            if 'extent' in d:
                return V(nn=True)
            key = self.path(e, env)
            if key is None:
                return TOP
            v = self.get(env, key, e)
            if key.startswith('v') and key[1:].isdigit() and int_type_range(nd.get('t', '')) and key not in v.lt:
                v = v.copy(le=v.le | {key})
            return v
        if k in ('member', 'sub') or (k == 'un' and nd['op'] == '*'):
            for i_, x in enumerate(c):
                if x:
                    xv = self.ev(env, x)
                    if k == 'sub' and i_ == 1:
                        self.last_index = (e, xv)
            if nd.get('t', '').endswith(']'):
                return V(nn=True)
            key = self.path(e, env)
            if key is None:
                return self.default(env, '?', e)
            return self.get(env, key, e)
        if k == 'cast':
            v = self.ev(env, c[0])
            r = int_type_range(nd.get('t', ''))
            if nd.get('ck') in ('FloatingToIntegral',):
                # truncation toward zero of a bounded floating value
                rr = r or (-INF, INF)
                if v.lo != -INF and v.hi != INF and not v.is_bottom() and rr[0] <= v.lo and v.hi <= rr[1]:
                    return V(math.trunc(v.lo), math.trunc(v.hi))
                return V(*rr)
            if nd.get('t', '').strip() in ('float', 'const float') and not v.is_bottom():
                # a value converted to single precision is rounded to the nearest float ((float)INT_MAX is 2147483648.f)
                lo, hi = v.lo, v.hi
                try:
                    if lo not in (INF, -INF):
                        lo = struct.unpack('f', struct.pack('f', float(lo)))[0]
                    if hi not in (INF, -INF):
                        hi = struct.unpack('f', struct.pack('f', float(hi)))[0]
                    if lo != v.lo or hi != v.hi:
                        return v.copy(lo=lo, hi=hi)
                except (OverflowError, struct.error):
                    return TOP
                return v
            return self.convert(v, r)
        if k == 'un':
            op = nd['op']
            if op == '&':
                for x in self.F.walk(c[0]):
                    pass
                return V(nn=True)
            if op in ('pre++', 'pre--', 'post++', 'post--'):
                old = self.ev(env, c[0])
                d = 1 if '++' in op else -1
                new = self.arith('+', old, K(d))
                key = self.path(c[0], env)
                if d == 1 and e in self.acc_info:
                    old, new = self.acc_clamp(env, e, key, old, K(1), new)
                self.store(env, key, new, c[0])
                return new if op.startswith('pre') else old
            v = self.ev(env, c[0])
            if op == '-':
                return V(-v.hi, -v.lo)
            if op == '!':
                if v.lo > 0 or v.hi < 0 or v.nn is True:
                    return K(0)
                if v.lo == 0 and v.hi == 0 or v.nn is False:
                    return K(1)
                return V(0, 1)
            if op == '~':
                return V(-v.hi - 1, -v.lo - 1) if v.lo != -INF and v.hi != INF else TOP
            return v
        if k == 'bin':
            op = nd['op']
            a = self.ev(env, c[0])
            b = self.ev(env, c[1])
            if op in ('<', '>', '<=', '>=', '==', '!=', '&&', '||'):
                return self.compare(op, a, b)
            r = self.arith(op, a, b, nd)
            tr = int_type_range(nd.get('t', ''))
            if op == '-' and tr and (b.lt or b.le):
                # X - b with b < X (b <= X) known symbolically: the difference is at least 1 (0)
                xn = self.ex[self.F.strip_casts(c[0])]
                if xn['k'] in ('ref', 'member'):
                    kx = self.path(self.F.strip_casts(c[0]), env)
                    if kx is not None and not a.is_bottom() and not b.is_bottom():
                        if kx in b.lt and r.lo < 1:
                            r = r.copy(lo=1)
                        elif kx in b.le and r.lo < 0:
                            r = r.copy(lo=0)
            if tr and nd.get('t', '').startswith('unsigned') and (r.lo < 0 or r.hi > tr[1]):
                r = V(tr[0], tr[1])
            cse = env.get('$cse')
            if cse and op in ('+', '-', '*'):
                hit = cse.get(self.F.s(e))
                if hit is not None:
                    hv = hit[0]
                    r = r.copy(lo=max(r.lo, hv.lo), hi=min(r.hi, hv.hi), lt=r.lt | hv.lt, le=(r.le | hv.le) - (r.lt | hv.lt))
            return r
        if k == 'assign':
            op = nd['op']
            if e in self.alias_assign:
                return self.ev(env, c[1])
            rhs = self.ev(env, c[1])
            if op != '=':
                lhs = self.ev(env, c[0])
                inc = rhs
                rhs = self.arith(op[:-1], lhs, rhs, nd)
                if e in self.acc_info:
                    _, rhs = self.acc_clamp(env, e, None, lhs, inc, rhs)
            else:
                # evaluate sub-expressions of the target (index expressions may have effects)
                self._ev_lvalue_children(env, c[0])
            lt = self.ex[c[0]].get('t', '')
            rhs = self.convert(rhs, int_type_range(lt))
            key = self.path(c[0], env)
            if self.hooks and self.hooks.on_store:
                rhs = self.hooks.on_store(self, env, e, key, rhs) or rhs
            self.store(env, key, rhs, c[0])
            if op == '=':
                self.note_equal(env, key, c[1])
            return rhs
        if k == 'comma':
            self.ev(env, c[0])
            return self.ev(env, c[1])
        if k == 'cond':
            # arms were evaluated in predecessor blocks when the CFG split them; otherwise evaluate under refinement
            tmp = env.get('$tmp') or {}
            vals = [tmp[x] for x in (c[1], c[2]) if x in tmp]
            if vals:
                out = vals[0]
                f_ = self.symlo(env)
                for x in vals[1:]:
                    out = join(out, x, f_, f_)
                return out
            cv = self.ev(env, c[0])
            et = self.refine(env.copy(), c[0], True)
            ef = self.refine(env.copy(), c[0], False)
            out = None
            if et is not None:
                out = self.ev(et, c[1])
            if ef is not None:
                out = join(out, self.ev(ef, c[2]))
            return out or TOP
        if k == 'call':
            return self.call(env, e)
        if k == 'decl':
            for v in nd['vars']:
                if 'id' not in v:
                    continue
                key = f'v{v["id"]}'
                if v.get('vla'):
                    self.ev(env, v['vla'])
                if v.get('init'):
                    if v['id'] in self.alias:
                        self.ev(env, v['init'])
                        continue
                    iv = self.ev(env, v['init'])
                    iv = self.convert(iv, int_type_range(v['t']))
                    if self.hooks and self.hooks.on_store:
                        iv = self.hooks.on_store(self, env, e, key, iv) or iv
                    self.store(env, key, iv)
                    self.note_equal(env, key, v['init'])
                else:
                    # uninitialised local: unknown (struct/array locals: contents unknown)
                    self.havoc_reachable(env, '&' + key)
                    env.pop(key, None)
            return TOP
        if k == 'ret':
            v = self.ev(env, c[0]) if c else None
            if self.final:
                self.ret_states.append((e, env.copy(), v))
            return v or TOP
        if k == 'init':
            for x in c:
                self.ev(env, x)
            return TOP
        for x in c:
            if x:
                self.ev(env, x)
        return TOP

    @staticmethod
    def convert(v, r):
        """integer conversion to a type with range r.  An unbounded side is clipped to the type (the value was never
        known to exceed it); a finite bound outside the range means the conversion may wrap: whole type range."""
        if not r or v.is_bottom():
            return v
        lo_out = v.lo < r[0]
        hi_out = v.hi > r[1]
        if not lo_out and not hi_out:
            return v
        lim = (-INF, INF, -2 ** 63, 2 ** 63 - 1, 2 ** 64 - 1, -2 ** 31, 2 ** 31 - 1, 2 ** 32 - 1)
        if (lo_out and v.lo not in lim) or (hi_out and v.hi not in lim):
            return V(r[0], r[1], nn=v.nn, tag=v.tag)
        return meet_range(v, r[0], r[1])

    def _ev_lvalue_children(self, env, e):
        nd = self.ex[e]
        if nd['k'] in ('member', 'cast') or (nd['k'] == 'un' and nd['op'] == '*'):
            if nd['k'] == 'member' and not nd['arrow']:
                self._ev_lvalue_children(env, nd['c'][0])
            else:
                self.ev(env, nd['c'][0]) if nd['k'] != 'cast' else self._ev_lvalue_children(env, nd['c'][0])
        elif nd['k'] == 'sub':
            if 'extent' in nd:
                self._ev_lvalue_children(env, nd['c'][0])
            else:
                self.ev(env, nd['c'][0])
            self.last_index = (e, self.ev(env, nd['c'][1]))
        if self.final and nd['k'] in ('sub', 'member') or (self.final and nd['k'] == 'un'):
            for ob in self.observers:
                ob(self, env, e, None)

    # -- arithmetic -------------------------------------------------------------------------------
    def compare(self, op, a, b):
        if op == '&&':
            ta = a.lo > 0 or a.hi < 0 or a.nn is True
            fa = (a.lo == 0 and a.hi == 0) or a.nn is False
            tb = b.lo > 0 or b.hi < 0 or b.nn is True
            fb = (b.lo == 0 and b.hi == 0) or b.nn is False
            if fa or fb:
                return K(0)
            if ta and tb:
                return K(1)
            return V(0, 1)
        if op == '||':
            ta = a.lo > 0 or a.hi < 0 or a.nn is True
            fa = (a.lo == 0 and a.hi == 0) or a.nn is False
            tb = b.lo > 0 or b.hi < 0 or b.nn is True
            fb = (b.lo == 0 and b.hi == 0) or b.nn is False
            if ta or tb:
                return K(1)
            if fa and fb:
                return K(0)
            return V(0, 1)
        t = f = False
        if op == '<':
            t, f = a.hi < b.lo, a.lo >= b.hi
        elif op == '<=':
            t, f = a.hi <= b.lo, a.lo > b.hi
        elif op == '>':
            t, f = a.lo > b.hi, a.hi <= b.lo
        elif op == '>=':
            t, f = a.lo >= b.hi, a.hi < b.lo
        elif op == '==':
            t = a.const() is not None and a.const() == b.const()
            f = a.hi < b.lo or a.lo > b.hi or (a.nn is True and b.const() == 0) or (b.nn is True and a.const() == 0)
        elif op == '!=':
            f = a.const() is not None and a.const() == b.const()
            t = a.hi < b.lo or a.lo > b.hi or (a.nn is True and b.const() == 0) or (b.nn is True and a.const() == 0)
        if t:
            return K(1)
        if f:
            return K(0)
        return V(0, 1)

    def arith(self, op, a, b, nd=None):
        r = self._arith0(op, a, b, nd)
        if op in ('+', '-', '*') and isinstance(r, V) and r.tag is None and not r.is_bottom() and \
                ('strlen' in (a.tag, b.tag)) and all(x.tag == 'strlen' or x.const() is not None for x in (a, b)):
            r = r.copy(tag='strlen')
        return r

    def _arith0(self, op, a, b, nd=None):
        if a.is_bottom() or b.is_bottom():
            return BOT
        ca, cb = a.const(), b.const()
        if ca is not None and cb is not None and op in ('&', '|', '^', '<<', '>>', '%') and ca >= 0 and cb >= 0:
            try:
                if op == '&': return K(int(ca) & int(cb))
                if op == '|': return K(int(ca) | int(cb))
                if op == '^': return K(int(ca) ^ int(cb))
                if op == '<<' and cb < 63: return K(int(ca) << int(cb))
                if op == '>>' and cb < 64: return K(int(ca) >> int(cb))
                if op == '%' and cb > 0: return K(int(ca) % int(cb))
            except Exception:
                pass
        if op == '+':
            lt, le = frozenset(), frozenset()
            if b.const() is not None:
                cb = b.const()
                if cb <= 0:
                    lt, le = a.lt | (a.le if cb < 0 else frozenset()), (a.le if cb == 0 else frozenset())
                elif cb == 1:
                    le = a.lt
            elif a.const() is not None:
                return self.arith('+', b, a)
            eop = None
            if a.eop is not None and b.const() is not None:
                eop = a.eop + b.const()
            return V(a.lo + b.lo, a.hi + b.hi, lt, le, eop, a.rd)
        if op == '-':
            if b.const() is not None:
                return self.arith('+', a, K(-b.const()))
            r = V(a.lo - b.hi, a.hi - b.lo)
            # x - y with y >= 0 keeps x's upper bounds
            if b.lo >= 0:
                r.lt, r.le = a.lt | (a.le if b.lo > 0 else frozenset()), (a.le if b.lo == 0 else frozenset())
            return r
        if op == '*':
            cands = []
            for x in (a.lo, a.hi):
                for y in (b.lo, b.hi):
                    if (x in (INF, -INF) and y == 0) or (y in (INF, -INF) and x == 0):
                        cands.append(0)
                    else:
                        cands.append(x * y)
            return V(min(cands), max(cands))
        if op == '/' and nd is not None and nd.get('t') in ('float', 'double', 'long double'):
            if b.lo > 0 or b.hi < 0:
                c_ = [x / y for x in (a.lo, a.hi) for y in (b.lo, b.hi) if x not in (INF, -INF) and y not in (INF, -INF)]
                if len(c_) == 4:
                    return V(min(c_), max(c_))
            return TOP
        if op == '/':
            if b.lo <= 0 <= b.hi:
                # divisor may be zero (obligation checked elsewhere); result unknown-ish
                if a.lo >= 0 and b.lo >= 0:
                    return V(0, a.hi)
                return V(-max(abs(a.lo), abs(a.hi)), max(abs(a.lo), abs(a.hi)))
            cands = []
            for x in (a.lo, a.hi):
                for y in (b.lo, b.hi):
                    if x in (INF, -INF):
                        cands.append(x if (y > 0) else -x)
                    elif y in (INF, -INF):
                        cands.append(0)
                    else:
                        q = abs(x) // abs(y)
                        cands.append(q if (x >= 0) == (y >= 0) else -q)
            r = V(min(cands), max(cands))
            if a.lo >= 0 and b.lo >= 1:
                r.lt, r.le = (a.lt if b.lo >= 1 else frozenset()), a.le
            return r
        if op == '%':
            if b.lo >= 1:
                m = b.hi - 1
                if a.lo >= 0:
                    return V(0, min(a.hi, m), lt=b.lt | b.le if False else frozenset())
                return V(-m, m)
            return TOP
        if op == '<<':
            if b.lo >= 0 and b.hi <= 62 and a.lo >= 0 and a.hi != INF:
                return V(a.lo * (2 ** int(b.lo)), a.hi * (2 ** int(b.hi)))
            if b.lo >= 0 and b.hi <= 62 and a.lo != -INF and a.hi != INF:
                return V(min(a.lo * 2 ** int(b.hi), a.lo), a.hi * (2 ** int(b.hi)))
            return TOP
        if op == '>>':
            if b.lo >= 0 and b.hi != INF and b.hi <= 64:
                if a.lo >= 0:
                    return V(a.lo // (2 ** int(b.hi)) if a.lo != INF else 0, a.hi // (2 ** int(b.lo)) if a.hi != INF else INF,
                             a.lt, a.le)
                if a.lo != -INF and a.hi != INF:
                    return V(min(a.lo >> int(b.lo), a.lo >> int(b.hi)), max(a.hi >> int(b.lo), a.hi >> int(b.hi), 0 if a.hi < 0 else 0) if a.hi >= 0 else max(a.hi >> int(b.lo), a.hi >> int(b.hi)))
                if a.hi != INF and a.hi >= 0:
                    return V(-INF, a.hi >> int(b.lo))
            return TOP
        if op == '&':
            if b.lo >= 0 and b.hi != INF:
                return V(0, b.hi if a.lo < 0 or a.hi == INF else min(a.hi, b.hi), lt=b.lt, le=b.le)
            if a.lo >= 0 and a.hi != INF:
                return V(0, a.hi, lt=a.lt, le=a.le)
            return TOP
        if op in ('|', '^'):
            if a.lo >= 0 and b.lo >= 0 and a.hi != INF and b.hi != INF:
                bits = max(int(a.hi).bit_length(), int(b.hi).bit_length())
                return V(0, 2 ** bits - 1)
            return TOP
        return TOP

    # -- calls ------------------------------------------------------------------------------------
    def call(self, env, e):
        nd = self.ex[e]
        args = nd.get('c', [])
        if nd.get('fnexpr'):
            self.ev(env, nd['fnexpr'])
        avals = [self.ev(env, a) for a in args]
        if self.hooks and self.hooks.on_call:
            r = self.hooks.on_call(self, env, e, avals)
            if r is not None:
                return r
        r = self._call_default(env, e, args, avals)
        if self.hooks and self.hooks.post_call:
            r = self.hooks.post_call(self, env, e, r) or r
        return r

    def _call_default(self, env, e, args, avals):
        nd = self.ex[e]
        name = nd['callee'].get('d')
        r = self.lib_call(env, e, name, args, avals)
        if r is not None:
            return r
        r = self._pure_scalar_call(e, name, avals)
        if r is not None:
            return r
        # internal call: memory reachable from the pointer arguments the callee may write through (K3 summary) is
        # forgotten; unknown callee: all pointer arguments
        wr = None
        tg = self.P.call_targets(self.F, e)
        if tg and all(t in self.writers for t in tg):
            wr = set()
            for t in tg:
                wr |= self.writers[t]
        for i, a in enumerate(args):
            t = self.ex[a].get('t', '')
            if (t.endswith('*') or t.endswith(']')) and (wr is None or i in wr):
                flds = self._written_fields(tg, i) if wr is not None else None
                if flds is None:
                    self.havoc_reachable(env, self.rpath(a, env))
                else:
                    self.havoc_fields(env, self.rpath(a, env), flds)
        # what a helper establishes on every path between the object behind one parameter and another parameter
        # (`vf->current_link=link`, or the branch that leaves them equal): known at the call site afterwards
        if tg and len(tg) == 1 and tg[0] in self.P.fn and tg[0] != self.P.key(self.F):
            for (j, suffix, what) in eq_summary(self.P, tg[0]):
                if j >= len(args):
                    continue
                pj = self.rpath(args[j], env)
                if not pj or pj.startswith('&'):
                    continue
                kj = pj + suffix
                if what[0] == 'const':
                    self.store(env, kj, V(what[1], what[1], nn=False) if what[1] == 0 else K(what[1]))
                    continue
                kparam = what[1]
                if kparam >= len(args):
                    continue
                self.store(env, kj, avals[kparam])
                ak = self.ex[self.F.strip_casts(args[kparam])]
                if ak['k'] in ('ref', 'member') and not (ak['k'] == 'ref' and ak['decl'].get('kind') not in ('var', 'param')):
                    kk = self.path(self.F.strip_casts(args[kparam]), env)
                    if kk and kk != kj:
                        eq = dict(env.get('$eq') or {})
                        eq[kj] = kk
                        eq[kk] = kj
                        env['$eq'] = eq
        tr = int_type_range(nd.get('t', ''))
        return V(*tr) if tr else TOP

    def _pure_scalar_call(self, e, name, avals):
        """a small helper over scalars only (`static double clamp(double v,double lo,double hi)`): no store outside its
        locals, no call; evaluated for the argument values at this site (memoised)"""
        if not name:
            return None
        G = self.P.get(name, self.F)
        if G is None or G.entry is None or G is self.F or len(G.ex) > 120 or not G.params or len(avals) != len(G.params):
            return None
        ok = getattr(G, '_purescalar', None)
        if ok is None:
            ok = all(p['t'].strip() in ('float', 'double', 'const double', 'const float') or int_type_range(p['t']) for p in G.params)
            rt = G.d.get('ret_t', '').strip()
            ok = ok and (rt in ('float', 'double') or bool(int_type_range(rt)))
            if ok:
                for nd in G.ex.values():
                    if nd['k'] == 'call' and nd['callee'].get('d') in ('fabs', 'fabsf', 'abs', 'labs'):
                        continue            # value functions of the C library: no effect, result modelled by lib_call
                    if nd['k'] == 'call' or nd['k'] in ('member', 'sub') or (nd['k'] == 'un' and nd['op'] in ('*', '&')):
                        ok = False
                        break
                    if nd['k'] == 'ref' and nd['decl'].get('kind') not in ('var', 'param') and nd['decl'].get('name') not in ('fabs', 'fabsf', 'abs', 'labs'):
                        ok = False
                        break
            G._purescalar = ok
        if not ok:
            return None
        memo = self.P.__dict__.setdefault('_purescalar_memo', {})
        mk = (self.P.key(G), tuple((a.lo, a.hi) for a in avals))
        if mk in memo:
            return memo[mk]
        memo[mk] = None
        pi = {p['name']: V(a.lo, a.hi) for p, a in zip(G.params, avals)}
        try:
            A = Analyzer(self.P, G, param_init=pi)
            A.run()
        except Exception:
            return None
        r = None
        for (_, _, v) in A.ret_states:
            if v is None:
                return None
            r = join(r, V(v.lo, v.hi))
        memo[mk] = r
        return r

    def _written_fields(self, tg, i):
        """names of the struct fields the callees may store to in the object behind their parameter i (K3 summaries), or
        None when a store through that parameter has no field (array/scalar pointee, unknown)"""
        E = getattr(self.P, '_effects', None)
        if E is None:
            return None
        out = set()
        for t in tg:
            sm = E.summ.get(t)
            if sm is None:
                return None
            for (o, rec, fld) in sm['stores']:
                if o[0] == 'P' and o[1] == i:
                    if fld is None:
                        # a store the effect analysis could not attribute to a field (through a pointer into an embedded
                        # array, `int *sub=info->class_subbook[j]; sub[k]=..`): attribute it syntactically if possible
                        syn = _syntactic_written_fields(self.P, t, i)
                        if syn is None:
                            return None
                        out |= syn
                        continue
                    out.add(fld)
            for o in sm['frees']:
                if o[0] == 'P' and o[1] == i:
                    return None
        return out

    def havoc_fields(self, env, prefix, fields):
        """forget what is stored in the listed fields (at any depth below them) of the object `prefix` designates"""
        if prefix is None:
            return
        p = prefix[1:] if prefix.startswith('&') else prefix
        seps = (p + '->', p + '.')

        def hit(k):
            for sp in seps:
                if k.startswith(sp):
                    rest = k[len(sp):]
                    name = rest.split('->')[0].split('.')[0].split('[')[0]
                    return name in fields
            return False
        for k in [k for k in env if isinstance(k, str) and hit(k)]:
            del env[k]
        for zk in ('$zero', '$uninit'):
            z = env.get(zk)
            if z:
                # a zero/uninit prefix at or above a written field no longer holds as a whole
                env[zk] = frozenset(x for x in z if not (x.startswith(p) and (hit(x) or x in (p + '->', p + '.', p + '['))))
        eq = env.get('$eq')
        if eq and any(hit(a) or hit(b) for a, b in eq.items()):
            env['$eq'] = {a: b for a, b in eq.items() if not hit(a) and not hit(b)}
        cse = env.get('$cse')
        if cse and any(any(hit(x) for x in d) for (_, d) in cse.values()):
            env['$cse'] = {t: (v_, d) for t, (v_, d) in cse.items() if not any(hit(x) for x in d)}

    def lib_call(self, env, e, name, args, avals):
        nd = self.ex[e]
        if name in ('oggpack_read', 'oggpack_look'):
            w = avals[1]
            rd = (env.get('$rd') or 0) + 1
            env['$rd'] = rd
            if w.lo >= 0 and w.hi <= 32:
                hi = 2 ** int(w.hi) - 1
            elif w.hi != INF and w.lo >= 0:
                hi = 2 ** 32 - 1
            else:
                hi = 2 ** 32 - 1
            return V(-1, hi, eop=-1, rd=rd)
        if name in ('calloc',):
            return V(nn=None, tag='fresh0')
        if name in ('malloc', 'realloc'):
            return V(nn=None, tag='fresh')
        if name in ('__builtin_alloca', 'alloca'):
            return V(nn=True, tag='fresh')
        if name == 'ov_ilog':
            a = avals[0]
            if a.lo >= 0 and a.hi != INF:
                return V(int(a.lo).bit_length(), int(a.hi).bit_length())
            return V(0, 32)
        if name in ('memset',):
            p = self.rpath(args[0], env)
            zero = avals[1].const() == 0
            self.havoc_reachable(env, p)
            if zero and p:
                pp = p[1:] if p.startswith('&') else p
                # whole-object memset: everything below is zero
                env['$zero'] = frozenset(set(env.get('$zero', ())) | {pp + ('.' if p.startswith('&') else '->'), pp + '['})
            return avals[0]
        if name in ('memcpy', 'memmove', 'strcpy', 'strcat', 'qsort'):
            self.havoc_reachable(env, self.rpath(args[0], env))
            return avals[0] if name != 'qsort' else TOP
        if name in ('free',):
            return TOP
        if name in ('strlen',):
            # provenance tag: a length of a caller-supplied C string (kept through +, -, * with constants and other lengths)
            return V(0, 2 ** 63 - 1, tag='strlen')
        if name in ('abs', 'labs', 'fabs', 'fabsf'):
            a = avals[0]
            lo_ = 0 if a.lo <= 0 <= a.hi else min(abs(a.lo), abs(a.hi))
            return V(lo_, max(abs(a.lo), abs(a.hi)))
        if name in ('oggpack_bytes',):
            return V(0, 2 ** 62, le=frozenset({'oggpack_buffer.storage'}))
        if name in ('oggpack_write', 'oggpack_adv', 'oggpack_readinit', 'oggpack_writeinit', 'oggpack_writeclear',
                    'oggpack_reset', 'oggpack_writetrunc'):
            return TOP
        if name in ('memcmp', 'floor', 'ceil', 'rint', 'sqrt', 'exp', 'log', 'pow', 'sin', 'cos', 'atan', 'acos', 'fabs', 'ldexp',
                    'toupper', 'tolower'):
            tr = int_type_range(nd.get('t', ''))
            return V(*tr) if tr else TOP
        return None

    # -- branch refinement ------------------------------------------------------------------------
    def refine(self, env, c, truth):
        """env refined by cond c being `truth`; returns env or None if infeasible"""
        nd = self.ex[c]
        k = nd['k']
        if k == 'cast':
            return self.refine(env, nd['c'][0], truth)
        if k == 'un' and nd['op'] == '!':
            return self.refine(env, nd['c'][0], not truth)
        if k == 'bin' and nd['op'] in ('&&', '||'):
            a, b = nd['c']
            if (nd['op'] == '&&') == truth:
                e1 = self.refine(env, a, truth)
                return None if e1 is None else self.refine(e1, b, truth)
            ea = self.refine(env.copy(), a, truth)
            eb0 = self.refine(env.copy(), a, not truth)
            eb = None if eb0 is None else self.refine(eb0, b, truth)
            if ea is None:
                return eb
            if eb is None:
                return ea
            return self.join_env(ea, eb)
        if k == 'bin' and nd['op'] in ('<', '<=', '>', '>=', '==', '!='):
            op = nd['op']
            if not truth:
                op = {'<': '>=', '<=': '>', '>': '<=', '>=': '<', '==': '!=', '!=': '=='}[op]
            a, b = nd['c']
            tmp = env.get('$tmp') or {}
            va = tmp.get(a) if a in tmp else self.peek(env, a)
            vb = tmp.get(b) if b in tmp else self.peek(env, b)
            # pointer known non-null (null) compared with the null constant
            if op in ('==', '!='):
                for x_, vx_, y_ in ((a, va, b), (b, vb, a)):
                    yn = self.ex[self.F.strip_casts(y_)]
                    if vx_.nn is not None and self.ex[x_].get('t', '').endswith('*') and yn['k'] == 'int' and yn.get('v') == 0:
                        if (op == '==') == (vx_.nn is True):
                            return None
            # a strict comparison of two ranges that cannot satisfy it (floating values have no "minus one": the interval
            # restriction below keeps the touching endpoint, so the edge has to be cut here)
            if op in ('<', '>') and not va.is_bottom() and not vb.is_bottom():
                if (op == '<' and va.lo >= vb.hi) or (op == '>' and va.hi <= vb.lo):
                    return None
            # |x| < c, |x| <= c: x lies in [-c, c]
            for side, other, o in ((a, vb, op), (b, va, {'<': '>', '<=': '>=', '>': '<', '>=': '<='}.get(op, op))):
                sn = self.ex[self.F.strip_casts(side)]
                if sn['k'] == 'call' and sn['callee'].get('d') in ('fabs', 'fabsf', 'abs', 'labs') and o in ('<', '<=') and sn.get('c') \
                        and other.hi != INF:
                    x_ = sn['c'][0]
                    vx = tmp.get(x_) if x_ in tmp else self.peek(env, x_)
                    nx = vx.copy(lo=max(vx.lo, -other.hi), hi=min(vx.hi, other.hi))
                    if nx.is_bottom():
                        return None
                    self.assign_refined(env, x_, vx, nx)
            sa, sb = self.sym_of(a, env), self.sym_of(b, env)
            # symbolic contradiction: a op b against what is already known about a and b
            if self.sym_contradiction(va, sa, op, vb, sb):
                return None
            if op == '!=':
                # a <= b known and a != b: a < b (and the mirror image)
                if sb is not None and sb in va.le:
                    op = '<'
                elif sa is not None and sa in vb.le:
                    op = '>'
            isf = any(self.ex[x].get('t') in ('float', 'double', 'long double') for x in (a, b))
            na = self.restrict(va, op, vb, sb, isf)
            nb = self.restrict(vb, {'<': '>', '<=': '>=', '>': '<', '>=': '<=', '==': '==', '!=': '!='}[op], va, sa, isf)
            if not isf and op in ('<', '<=', '>', '>='):
                # a bound that is a copy of another location (`const int parts=info->partitions; look->parts=parts;`)
                # bounds by that location's symbol as well
                if op in ('<', '<='):
                    extra = self._eq_syms(env, b)
                    if extra:
                        na = na.copy(lt=na.lt | extra) if op == '<' else na.copy(le=(na.le | extra) - na.lt)
                else:
                    extra = self._eq_syms(env, a)
                    if extra:
                        nb = nb.copy(lt=nb.lt | extra) if op == '>' else nb.copy(le=(nb.le | extra) - nb.lt)
            if na.is_bottom() or nb.is_bottom():
                return None
            self.assign_refined(env, a, va, na)
            self.assign_refined(env, b, vb, nb)
            for x_, nx_ in ((a, na), (b, nb)):
                self._remember_expr(env, x_, nx_)
            if op == '==':
                # two locations known equal: a refinement of one refines the other from here on
                ka = self.path(self.F.strip_casts(a), env) if self.ex[self.F.strip_casts(a)]['k'] in ('ref', 'member') else None
                kb = self.path(self.F.strip_casts(b), env) if self.ex[self.F.strip_casts(b)]['k'] in ('ref', 'member') else None
                if ka and kb and ka != kb:
                    eq = dict(env.get('$eq') or {})
                    eq[ka] = kb
                    eq[kb] = ka
                    env['$eq'] = eq
            return env
        if k == 'assign':
            v = self.peek(env, nd['c'][0])
            return self._truth(env, nd['c'][0], v, truth)
        if k == 'call' and 'd' in nd['callee']:
            G = self.P.get(nd['callee']['d'], self.F)
            pe = _predicate_body(G) if G is not None else None
            if pe is not None:
                # a range predicate kept in a helper (`static int out_of_range(int v,int lo,int hi){return v<lo||v>=hi;}`):
                # its outcome refines the arguments exactly as the spelled-out test would
                amap = {p_['id']: a_ for p_, a_ in zip(G.params, nd.get('c', []))}
                r = self._refine_pred(env, G, pe, amap, truth)
                if r is None:
                    return None
                env = r
        if k == 'call' or k == 'cond':
            tmp = env.get('$tmp') or {}
            v = tmp.get(c)
            if v is not None:
                if truth and v.lo == 0 and v.hi == 0:
                    return None
                if not truth and (v.lo > 0 or v.hi < 0):
                    return None
            if self.hooks and self.hooks.on_refine_call:
                return self.hooks.on_refine_call(self, env, c, truth)
            return env
        v = self.peek(env, c)
        return self._truth(env, c, v, truth)

    def _refine_pred(self, env, G, e, amap, truth):
        """env refined by the helper's return expression e (over its parameters and constants) being `truth`"""
        nd = G.ex[e]
        k = nd['k']
        if k == 'cast':
            return self._refine_pred(env, G, nd['c'][0], amap, truth)
        if k == 'un' and nd['op'] == '!':
            return self._refine_pred(env, G, nd['c'][0], amap, not truth)
        if k == 'bin' and nd['op'] in ('&&', '||'):
            a, b = nd['c']
            if (nd['op'] == '&&') == truth:
                e1 = self._refine_pred(env, G, a, amap, truth)
                return None if e1 is None else self._refine_pred(e1, G, b, amap, truth)
            ea = self._refine_pred(env.copy(), G, a, amap, truth)
            eb0 = self._refine_pred(env.copy(), G, a, amap, not truth)
            eb = None if eb0 is None else self._refine_pred(eb0, G, b, amap, truth)
            if ea is None:
                return eb
            if eb is None:
                return ea
            return self.join_env(ea, eb)
        if k == 'cond':
            # c ? x : y with constant arms (`return(y<0?0:y>255?255:y)` is not a predicate; only 0/1 arms are)
            return env
        if k == 'bin' and nd['op'] in ('<', '<=', '>', '>=', '==', '!='):
            op = nd['op']
            if not truth:
                op = {'<': '>=', '<=': '>', '>': '<=', '>=': '<', '==': '!=', '!=': '=='}[op]

            def side(x):
                xn = G.ex[G.strip_casts(x)]
                if xn['k'] == 'int':
                    return K(xn['v']), None, None
                if xn['k'] == 'un' and xn['op'] == '-' and G.ex[G.strip_casts(xn['c'][0])]['k'] == 'int':
                    return K(-G.ex[G.strip_casts(xn['c'][0])]['v']), None, None
                if xn['k'] == 'ref' and xn['decl'].get('id') in amap:
                    ae = amap[xn['decl']['id']]
                    tmp = env.get('$tmp') or {}
                    v = tmp.get(ae) if ae in tmp else self.peek(env, ae)
                    r_ = int_type_range(G.vars.get(xn['decl']['id'], {}).get('t', '') or xn.get('t', ''))
                    return (self.convert(v, r_) if r_ else v), ae, self.sym_of(ae, env)
                return None, None, None
            va, ea_, sa = side(nd['c'][0])
            vb, eb_, sb = side(nd['c'][1])
            if va is None or vb is None:
                return env
            if self.sym_contradiction(va, sa, op, vb, sb):
                return None
            na = self.restrict(va, op, vb, sb)
            nb = self.restrict(vb, {'<': '>', '<=': '>=', '>': '<', '>=': '<=', '==': '==', '!=': '!='}[op], va, sa)
            if na.is_bottom() or nb.is_bottom():
                return None
            if op in ('<', '<=') and eb_ is not None:
                extra = self._eq_syms(env, eb_)
                if extra:
                    na = na.copy(lt=na.lt | extra) if op == '<' else na.copy(le=(na.le | extra) - na.lt)
            if op in ('>', '>=') and ea_ is not None:
                extra = self._eq_syms(env, ea_)
                if extra:
                    nb = nb.copy(lt=nb.lt | extra) if op == '>' else nb.copy(le=(nb.le | extra) - nb.lt)
            if ea_ is not None:
                self.assign_refined(env, ea_, va, na)
            if eb_ is not None:
                self.assign_refined(env, eb_, vb, nb)
            return env
        return env

    def _truth(self, env, e, v, truth):
        if truth:
            if (v.lo == 0 and v.hi == 0) or v.nn is False:
                return None
            nv = v
            if v.lo == 0:
                nv = v.copy(lo=1)
            elif v.hi == 0:
                nv = v.copy(hi=-1)
            elif v.lo < 0 < v.hi:
                nv = v.copy(ne=v.ne | {0})
            if self.ex[e].get('t', '').endswith('*'):
                nv = nv.copy(nn=True)
            self.assign_refined(env, e, v, nv)
        else:
            if v.lo > 0 or v.hi < 0 or v.nn is True or 0 in v.ne:
                return None
            nv = v.copy(lo=0, hi=0)
            if self.ex[e].get('t', '').endswith('*'):
                nv = nv.copy(nn=False)
            self.assign_refined(env, e, v, nv)
        return env

    def peek(self, env, e):
        """value of e without side effects (used by refinement)"""
        tmp = env.get('$tmp') or {}
        if e in tmp:
            return tmp[e]
        nd = self.ex[e]
        k = nd['k']
        if k == 'int':
            return K(nd['v'])
        if k == 'flt':
            fv = nd.get('v')
            return V(fv, fv) if isinstance(fv, (int, float)) and fv == fv and abs(fv) != INF else TOP
        if k == 'cast':
            return self.convert(self.peek(env, nd['c'][0]), int_type_range(nd.get('t', '')))
        if k == 'assign':
            return self.peek(env, nd['c'][0])
        if k in ('ref', 'member', 'sub') or (k == 'un' and nd['op'] == '*'):
            if k == 'ref' and (nd['decl']['kind'] == 'fn' or 'extent' in nd['decl']):
                return V(nn=True)
            key = self.path(e, env)
            if key is None:
                return self.default(env, '?', e)
            return self.get(env, key, e)
        if k == 'bin' and nd['op'] in ('+', '-', '*', '/', '>>', '<<', '&', '%'):
            return self.arith(nd['op'], self.peek(env, nd['c'][0]), self.peek(env, nd['c'][1]), nd)
        if k == 'un' and nd['op'] == '-':
            v = self.peek(env, nd['c'][0])
            return V(-v.hi, -v.lo)
        if k == 'call':
            name = nd['callee'].get('d')
            if name == 'ov_ilog':
                a = self.peek(env, nd['c'][0])
                if a.lo >= 0 and a.hi != INF:
                    return V(int(a.lo).bit_length(), int(a.hi).bit_length())
                return V(0, 32)
        if k == 'comma':
            return self.peek(env, nd['c'][1])
        return TOP

    def _pure_locals(self, e):
        """local variable keys of an arithmetic expression over locals/constants only, or None"""
        out = set()
        for n in self.F.walk(e):
            nd = self.ex[n]
            k = nd['k']
            if k in ('int', 'cast') or (k == 'bin' and nd['op'] in ('+', '-', '*')):
                continue
            if k == 'ref' and nd['decl']['kind'] in ('var', 'param') and 'extent' not in nd['decl'] and nd['decl']['id'] not in self.alias:
                out.add(f'v{nd["decl"]["id"]}')
                continue
            return None
        return out

    def _pure_locs(self, e, env):
        """location keys an arithmetic expression over locals, constants and scalar fields reads (`pos-vf->pcm_offset`), or
        None: the memo entry lives until one of them is stored or havocked"""
        out = set()
        st = [self.F.strip_casts(e)]
        while st:
            n = st.pop()
            nd = self.ex[n]
            k = nd['k']
            if k == 'int':
                continue
            if k == 'cast' or (k == 'bin' and nd['op'] in ('+', '-', '*')):
                st += [c for c in nd['c'] if c]
                continue
            if k == 'ref' and nd['decl']['kind'] in ('var', 'param') and 'extent' not in nd['decl'] and nd['decl']['id'] not in self.alias:
                out.add(f'v{nd["decl"]["id"]}')
                continue
            if k == 'member' and int_type_range(nd.get('t', '')):
                key = self.path(n, env)
                if key is None or '[' in key:
                    return None
                out.add(key)
                continue
            return None
        return out

    def _remember_expr(self, env, e, val):
        """a branch refined the value of the arithmetic expression e (`if(j+k+off<N)`): an identical expression evaluated
        later, before any of its variables is assigned, has that value"""
        e = self.F.strip_casts(e)
        nd = self.ex[e]
        if nd['k'] != 'bin' or nd['op'] not in ('+', '-', '*'):
            return
        deps = self._pure_locals(e) or self._pure_locs(e, env)
        if not deps:
            return
        cse = dict(env.get('$cse') or {})
        cse[self.F.s(e)] = (val, frozenset(deps))
        env['$cse'] = cse

    def _eq_syms(self, env, e):
        """symbols of the locations known equal to lvalue e (K4 equality aliases)"""
        eq = env.get('$eq')
        if not eq:
            return frozenset()
        e = self.F.strip_casts(e)
        if self.ex[e]['k'] not in ('ref', 'member'):
            return frozenset()
        k = self.path(e, env)
        out = set()
        seen = {k}
        cur = eq.get(k)
        while cur is not None and cur not in seen:
            seen.add(cur)
            if cur.startswith('v') and cur[1:].isdigit():
                out.add(cur)
            else:
                info = self.keyinfo.get(cur)
                if info and info[0] and not info[0][2]:
                    out.add(f'{info[0][0]}.{info[0][1]}')
            cur = eq.get(cur)
        return frozenset(out)

    def sym_of(self, e, env):
        """symbolic name usable as a bound: local variable or struct field"""
        e = self.F.strip_casts(e)
        nd = self.ex[e]
        if nd['k'] == 'ref' and nd['decl']['kind'] in ('var', 'param') and nd['decl']['id'] not in self.alias:
            if 'extent' in nd['decl']:
                return None
            return f'v{nd["decl"]["id"]}'
        if nd['k'] in ('member', 'sub'):
            return self._field_sym(e)
        return None

    @staticmethod
    def sym_contradiction(va, sa, op, vb, sb):
        """is `a op b` impossible given the symbolic bounds already known (a<b, a<=b, b<a, b<=a)?"""
        a_lt_b = sb is not None and sb in va.lt
        a_le_b = a_lt_b or (sb is not None and sb in va.le)
        b_lt_a = sa is not None and sa in vb.lt
        b_le_a = b_lt_a or (sa is not None and sa in vb.le)
        if op == '<':
            return b_le_a
        if op == '<=':
            return b_lt_a
        if op == '>':
            return a_le_b
        if op == '>=':
            return a_lt_b
        if op == '==':
            return a_lt_b or b_lt_a
        if op == '!=':
            return a_le_b and b_le_a and not a_lt_b and not b_lt_a
        return False

    def restrict(self, v, op, w, wsym, isfloat=False):
        """v restricted by  v op w  (for floating operands a strict comparison only gives the non-strict bound)"""
        lo, hi, lt, le = v.lo, v.hi, v.lt, v.le
        if isfloat:
            if op in ('<', '<='):
                hi = min(hi, w.hi)
            elif op in ('>', '>='):
                lo = max(lo, w.lo)
            elif op == '==':
                lo, hi = max(lo, w.lo), min(hi, w.hi)
            return v.copy(lo=lo, hi=hi)
        if op == '<':
            hi = min(hi, w.hi - 1)
            lt = lt | w.lt | w.le | ({wsym} if wsym else set())
        elif op == '<=':
            hi = min(hi, w.hi)
            lt = lt | w.lt
            le = le | w.le | ({wsym} if wsym else set())
        elif op == '>':
            lo = max(lo, w.lo + 1)
        elif op == '>=':
            lo = max(lo, w.lo)
        elif op == '==':
            lo, hi = max(lo, w.lo), min(hi, w.hi)
            lt, le = lt | w.lt, le | w.le | ({wsym} if wsym else set())
        ne = v.ne
        if op == '!=':
            c = w.const()
            if c is not None:
                if lo == c:
                    lo += 1
                elif hi == c:
                    hi -= 1
                elif lo < c < hi and len(ne) < 6:
                    ne = ne | {c}
        elif op == '==' and w.const() is not None and w.const() in v.ne:
            lo, hi = 1, 0
        # an excluded constant at the edge of the interval moves the edge
        while lo in ne and lo < hi:
            lo += 1
        while hi in ne and hi > lo:
            hi -= 1
        nv = v.copy(lo=lo, hi=hi, lt=frozenset(lt), le=frozenset(le) - frozenset(lt), ne=frozenset(x for x in ne if lo <= x <= hi))
        if v.nn is None and op == '!=' and w.const() == 0:
            nv.nn = True
        if op == '==' and w.const() == 0 and v.nn is None:
            nv.nn = False
        return nv

    def assign_refined(self, env, e, old, new, _in_eq=False):
        """write the refined value back to the location e denotes (through casts, assignments, +-const)"""
        e0 = e
        nd = self.ex[e]
        while nd['k'] == 'cast':
            # a narrowing cast is not invertible
            inner = nd['c'][0]
            ri = int_type_range(self.ex[inner].get('t', ''))
            ro = int_type_range(nd.get('t', ''))
            if ri and ro and (ro[0] > ri[0] or ro[1] < ri[1]):
                iv = self.peek(env, inner)
                if iv.lo < ro[0] or iv.hi > ro[1]:
                    return
            e = inner
            nd = self.ex[e]
        if nd['k'] == 'assign':
            e = nd['c'][0]
            nd = self.ex[e]
        if nd['k'] == 'bin' and nd['op'] in ('+', '-') and self.ex[self.F.strip_casts(nd['c'][1])]['k'] == 'int':
            cst = self.ex[self.F.strip_casts(nd['c'][1])]['v']
            if nd['op'] == '-':
                cst = -cst
            inner = nd['c'][0]
            iv = self.peek(env, inner)
            self.assign_refined(env, inner, iv, iv.copy(lo=max(iv.lo, new.lo - cst), hi=min(iv.hi, new.hi - cst)))
            return
        if nd['k'] == 'un' and nd['op'] in ('pre++', 'pre--', 'post++', 'post--'):
            # the tested value is the variable's new value (pre) or its old one (post)
            inner = nd['c'][0]
            iv = self.peek(env, inner)
            d = 0
            if nd['op'].startswith('post'):
                d = 1 if '++' in nd['op'] else -1
            self.assign_refined(env, inner, iv, iv.copy(lo=max(iv.lo, new.lo + d), hi=min(iv.hi, new.hi + d)))
            return
        if nd['k'] == 'call':
            tmp = dict(env.get('$tmp') or {})
            tmp[e] = new
            env['$tmp'] = tmp
            self.eop_sweep(env, old, new)
            return
        key = None
        if nd['k'] in ('ref', 'member', 'sub') or (nd['k'] == 'un' and nd['op'] == '*'):
            key = self.path(e, env)
        if key is None:
            return
        env[key] = new
        eq = env.get('$eq')
        if eq and key in eq and not _in_eq:
            k2 = eq[key]
            o2 = env.get(k2)
            if o2 is None:
                o2 = self.get(env, k2)
            n2 = o2.copy(lo=max(o2.lo, new.lo), hi=min(o2.hi, new.hi), lt=o2.lt | new.lt, le=(o2.le | new.le) - (o2.lt | new.lt),
                         ne=o2.ne | new.ne)
            if not n2.is_bottom():
                env[k2] = n2
                if n2.eop is not None and not (n2.lo <= n2.eop <= n2.hi):
                    self.eop_sweep(env, o2, n2)
        if key.startswith('v') and key[1:].isdigit() and self.puredefs:
            vid = int(key[1:])
            for dv, (dexp, deps) in self.puredefs.items():
                if vid in deps:
                    cur = env.get(f'v{dv}')
                    if cur is None:
                        continue
                    nv = self.peek(env, dexp)
                    m = cur.copy(lo=max(cur.lo, nv.lo), hi=min(cur.hi, nv.hi))
                    if m.is_bottom():
                        env['$dead'] = True
                    env[f'v{dv}'] = m
        sym = self.symbol(key, e)
        if sym:
            sv = dict(env.get('$sym') or {})
            sv[sym] = new
            env['$sym'] = sv
            # whatever is bounded by this location is bounded by its new upper limit
            if new.hi != INF and (old is None or new.hi < old.hi):
                for k2, v2 in list(env.items()):
                    if not isinstance(v2, V) or k2 == key:
                        continue
                    if sym in v2.lt and v2.hi > new.hi - 1:
                        env[k2] = v2.copy(hi=new.hi - 1)
                    elif sym in v2.le and v2.hi > new.hi:
                        env[k2] = v2.copy(hi=new.hi)
            # transitive closure: whatever is bounded by this location inherits its new upper bounds
            add_lt = (new.lt - (old.lt if old else frozenset()))
            add_le = (new.le - (old.le if old else frozenset())) - {sym}
            if add_lt or add_le:
                for k2, v2 in list(env.items()):
                    if not isinstance(v2, V) or k2 == key:
                        continue
                    if sym in v2.lt:
                        env[k2] = v2.copy(lt=v2.lt | add_lt | add_le)
                    elif sym in v2.le:
                        env[k2] = v2.copy(lt=v2.lt | add_lt, le=(v2.le | add_le) - add_lt)
        self.eop_sweep(env, old, new)

    def symlo(self, env):
        sv = env.get('$sym') or {}

        def f(sym):
            v = sv.get(sym)
            if v is not None:
                return v.lo
            if sym.startswith('v') and sym[1:].isdigit():
                v = env.get(sym)
                return v.lo if isinstance(v, V) else None
            if '.' in sym:
                r, fl = sym.split('.', 1)
                fi = self.field_inv.get((r, fl, False))
                lo = fi.lo if fi is not None else None
                # what this path knows about the field itself (`if(vi->channels<=0)goto err;`, or the same test on a
                # local copy, which refines the field through the equality alias): all locations of that field class
                here = None
                for k_, x in env.items():
                    if isinstance(k_, str) and isinstance(x, V) and k_.endswith(fl) and '[' not in k_:
                        info = self.keyinfo.get(k_)
                        if info and info[0] and info[0][0] == r and info[0][1] == fl and not info[0][2]:
                            here = x.lo if here is None else min(here, x.lo)
                if here is not None and (lo is None or here > lo):
                    lo = here
                return lo
            return None
        return f

    def symhi(self, env, sym):
        sv = env.get('$sym') or {}
        v = sv.get(sym)
        if v is not None:
            return v.hi
        if sym.startswith('v') and sym[1:].isdigit():
            v = env.get(sym)
            return v.hi if v is not None else None
        if '.' in sym:
            r, fl = sym.split('.', 1)
            fi = self.field_inv.get((r, fl, False))
            if fi is not None:
                return fi.hi
        return None

    def eop_sweep(self, env, old, new):
        """sticky end-of-packet: a test that excludes the EOP value of the most recent read clears the EOP value of all
        earlier reads on this path"""
        if old is None or old.eop is None:
            return
        if old.rd != (env.get('$rd') or 0):
            return
        if new.lo <= old.eop <= new.hi:
            return
        for k, v in list(env.items()):
            if isinstance(v, V) and v.eop is not None:
                nv = v.copy(eop=None)
                if v.lo == v.eop:
                    nv.lo = v.lo + 1
                env[k] = nv
        tmp = env.get('$tmp')
        if tmp:
            nt = {}
            for k, v in tmp.items():
                if isinstance(v, V) and v.eop is not None:
                    nv = v.copy(eop=None)
                    if v.lo == v.eop:
                        nv.lo = v.lo + 1
                    nt[k] = nv
                else:
                    nt[k] = v
            env['$tmp'] = nt

    # -- environments: join / widen ---------------------------------------------------------------
    def join_env(self, a, b, wide=False, assigned=None, growth=None):
        out = Env()
        keys = set(a) | set(b)
        la, lb = self.symlo(a), self.symlo(b)
        for k in keys:
            if k in ('$zero', '$uninit'):
                out[k] = frozenset(set(a.get(k, ())) & set(b.get(k, ())))
                continue
            if k == '$rd':
                out[k] = max(a.get(k) or 0, b.get(k) or 0)
                continue
            if k == '$eq':
                ea, eb = a.get(k) or {}, b.get(k) or {}
                out[k] = {x: y for x, y in ea.items() if eb.get(x) == y}
                continue
            if k == '$cse':
                ca, cb = a.get(k) or {}, b.get(k) or {}
                out[k] = {t: (join(ca[t][0], cb[t][0]), ca[t][1]) for t in ca if t in cb}
                continue
            if k == '$sym':
                sa, sb = a.get(k) or {}, b.get(k) or {}
                out[k] = {x: join(sa[x], sb[x]) for x in sa if x in sb}
                continue
            if k == '$tmp':
                ta, tb = a.get(k) or {}, b.get(k) or {}
                t = dict(ta)
                for x, v in tb.items():
                    t[x] = join(t.get(x), v) if x in t else v
                out[k] = t
                continue
            if not isinstance(k, str) or k.startswith('$'):
                va, vb = a.get(k), b.get(k)
                out[k] = va if va == vb else (self.hooks.join_special(k, va, vb) if self.hooks and self.hooks.join_special else None)
                continue
            va = a.get(k)
            vb = b.get(k)
            if va is None:
                va = BOT if (k.endswith('[*]') and self.is_uninit(a, k)) else self.get(a, k)
            if vb is None:
                vb = BOT if (k.endswith('[*]') and self.is_uninit(b, k)) else self.get(b, k)
            if va.is_bottom() and vb.is_bottom():
                continue
            if wide and (assigned is None or self._key_assigned(k, assigned)):
                # per-key delay: a location is widened only once it has grown twice at this program point
                if growth is not None:
                    grew = vb.lo < va.lo or vb.hi > va.hi
                    if grew:
                        growth[k] = growth.get(k, 0) + 1
                    if growth.get(k, 0) <= self.widen_delay:
                        out[k] = join(va, vb, la, lb)
                        continue
                    if growth.get(k, 0) > self.widen_delay + 60:
                        # this very location has climbed the threshold ladder long enough: straight to the type range
                        out[k] = widen(va, vb, [])
                        continue
                w = widen(va, vb, self.thresholds)
                if vb.hi > va.hi and w.hi > vb.hi:
                    # the grown value is still below a symbolic bound with a known finite upper limit: go there at once
                    # (`for(i=0;i<N;i++)`: i jumps to hi(N)-1 instead of climbing the threshold ladder)
                    j = join(va, vb, la, lb)
                    cand = []
                    for sset, off in ((j.lt, 1), (j.le, 0)):
                        for sy in sset:
                            h = self.symhi(a, sy)
                            h2 = self.symhi(b, sy)
                            if h is not None and h2 is not None and max(h, h2) != INF:
                                cand.append(max(h, h2) - off)
                    cand = [c for c in cand if c >= vb.hi]
                    if cand and min(cand) < w.hi:
                        w = w.copy(hi=min(cand))
                out[k] = w
            else:
                out[k] = join(va, vb, la, lb)
        return out

    def _key_assigned(self, k, assigned):
        if assigned is None or k in assigned or any(k.startswith(a) for a in assigned if not a.startswith('$')):
            return True
        if '$mem' in assigned:
            # everything except plain locals that nobody can reach through a pointer
            if k.startswith('v') and k[1:].isdigit() and int(k[1:]) not in self.addr_taken:
                return False
            return True
        return False

    def env_leq(self, a, b):
        """a ⊑ b ?"""
        for k in set(a) | set(b):
            if k in ('$tmp', '$rd', '$sym', '$eq', '$cse'):
                continue
            if k in ('$zero', '$uninit'):
                if not set(b.get(k, ())) <= set(a.get(k, ())):
                    return False
                continue
            if not isinstance(k, str) or k.startswith('$'):
                if a.get(k) != b.get(k) and b.get(k) is not None:
                    return False
                continue
            va = a.get(k)
            vb = b.get(k)
            if vb is None:
                vb = BOT if (k.endswith('[*]') and self.is_uninit(b, k)) else self.get(b, k)
            if va is None:
                va = BOT if (k.endswith('[*]') and self.is_uninit(a, k)) else self.get(a, k)
            if vb.is_bottom() and not va.is_bottom():
                return False
            if va.is_bottom():
                continue
            if not (vb.lo <= va.lo and va.hi <= vb.hi and vb.lt <= (va.lt) and (vb.le <= (va.le | va.lt))):
                return False
            if vb.eop is None and va.eop is not None and not (vb.lo <= va.eop):
                pass
        return True

    # -- fixpoint ---------------------------------------------------------------------------------
    def pkey(self, env):
        pk = self.partition(self, env) if self.partition else ()
        if self.unroll:
            return (pk, env.get('$it', 0))
        return pk

    def initial_env(self):
        env = Env()
        for p in self.F.params:
            v = self.param_init.get(p['name'])
            if v is not None:
                env[f'v{p["id"]}'] = v
            else:
                r = int_type_range(p['t'])
                if r:
                    env[f'v{p["id"]}'] = V(*r)
        if self.entry_zero:
            env['$zero'] = frozenset(self.entry_zero)
        return env

    def loop_assigned(self, header):
        """location keys (prefix strings) assigned inside the natural loop of header"""
        body = self.loops.get(header, ())
        out = set()
        for b in body:
            for e in self.F.blocks[b]['elems']:
                for n in self.F.walk(e, into_elems=False):
                    nd = self.ex[n]
                    tgt = None
                    if nd['k'] == 'assign':
                        tgt = nd['c'][0]
                    elif nd['k'] == 'un' and nd['op'] in ('pre++', 'pre--', 'post++', 'post--'):
                        tgt = nd['c'][0]
                    elif nd['k'] == 'decl':
                        for v in nd['vars']:
                            if 'id' in v:
                                out.add(f'v{v["id"]}')
                    elif nd['k'] == 'call':
                        out.add('$call')
                    if tgt is not None:
                        p = self.path(tgt)
                        if p:
                            out.add(p)
                            if '[v' in p:
                                out.add(p[:p.rindex('[')] + '[*]')
        return out

    def run(self, max_iter=60):
        F = self.F
        order = cfg.rpo(F)
        idx = {b: i for i, b in enumerate(order)}
        init = self.initial_env()
        if self.hooks and self.hooks.on_entry:
            init = self.hooks.on_entry(self, init) or init
        self.block_in = {F.entry: {self.pkey(init): init}}
        visits = {}
        growth = {}
        work = {F.entry}
        assigned_cache = {}
        n = 0
        while work:
            b = min(work, key=lambda x: idx.get(x, 10 ** 9))
            work.discard(b)
            n += 1
            if n > 40000:
                raise AnalysisBroken(f'K4 did not converge on {F.name}')
            outs = self.flow_block(b, self.block_in.get(b, {}))
            for s, states in outs.items():
                cur = self.block_in.setdefault(s, {})
                changed = False
                is_header = s in self.loops
                for pk, env in states.items():
                    old = cur.get(pk)
                    if old is None:
                        cur[pk] = env
                        changed = True
                        continue
                    if self.env_leq(env, old):
                        continue
                    cnt = visits.get((s, pk), 0) + 1
                    visits[(s, pk)] = cnt
                    if is_header and cnt > self.widen_delay:
                        if s not in assigned_cache:
                            assigned_cache[s] = self.loop_assigned(s)
                        asg = assigned_cache[s]
                        # a call in the loop can change memory, but not a local scalar whose address is never taken:
                        # such a local is widened only if the loop itself assigns it
                        if '$call' in asg:
                            asg = set(asg) | {'$mem'}
                        if self.escalate and cnt > self.widen_delay + 400:
                            # escalation: the per-key delay and the assigned-set filter are dropped; past 20 visits
                            # thresholds are dropped too (straight to the type range)
                            saved = self.thresholds
                            if cnt > self.widen_delay + 600:
                                self.thresholds = []
                            # (the filter "a local nobody assigns in this loop is not widened" stays: it cannot grow here)
                            keep = {a for a in asg if a.startswith('v') and a[1:].isdigit()} | {'$mem'}
                            new = self.join_env(old, env, wide=True, assigned=keep if '$mem' in asg else None, growth=None)
                            self.thresholds = saved
                        else:
                            new = self.join_env(old, env, wide=True, assigned=asg,
                                                growth=growth.setdefault((s, pk), {}))
                    else:
                        new = self.join_env(old, env)
                    cur[pk] = new
                    changed = True
                if changed:
                    work.add(s)
        self.iterations = n
        # narrowing: two descending passes
        for _ in range(self.narrow_passes):
            for b in order:
                if b == F.entry:
                    continue
                acc = {}
                for p in F.preds[b]:
                    if p not in self.block_in:
                        continue
                    o = self.flow_block(p, self.block_in[p]).get(b, {})
                    for pk, env in o.items():
                        acc[pk] = self.join_env(acc[pk], env) if pk in acc else env
                if acc:
                    # meet with the widened result: keep whichever is smaller per key (acc is sound as it is computed from
                    # sound predecessors)
                    self.block_in[b] = acc
        # final pass: observers see every node with its pre-state
        self.final = True
        self.ret_states = []
        for b in order:
            if b in self.block_in:
                self.flow_block(b, self.block_in[b])
        self.final = False
        return self

    def flow_block(self, b, states):
        """-> {succ: {pkey: env}}"""
        blk = self.F.blocks[b]
        outs = {}
        work = []
        for pk, env0 in states.items():
            env = env0.copy()
            # temporaries of conditional arms flow in; others are per block
            tmp_in = env.get('$tmp') or {}
            env['$tmp'] = dict(tmp_in)
            work.append((env, 0))
        elems = blk['elems']
        fork = self.hooks.fork if self.hooks is not None and getattr(self.hooks, 'fork', None) else None
        done = []
        while work:
            env, i0 = work.pop()
            i = i0
            while i < len(elems):
                e = elems[i]
                self.ev(env, e)
                if self.hooks and self.hooks.after_elem:
                    self.hooks.after_elem(self, env, e)
                i += 1
                if fork is not None:
                    # a client may split the state after an element (outcomes of a call with a relational summary)
                    alts = fork(self, env, e)
                    if alts is not None:
                        for a in alts[1:]:
                            work.append((a, i))
                        if not alts:
                            env = None
                            break
                        env = alts[0]
            if env is not None:
                done.append(env)
        for env in done:
            succs = blk['succs']
            term = blk.get('term')
            cond = term.get('cond') if term else None
            kind = term.get('kind') if term else None
            if cond is not None and len(succs) == 2 and kind != 'switch':
                for si, truth in ((0, True), (1, False)):
                    s = succs[si]
                    if s is None:
                        continue
                    e2 = self.refine(env.copy(), cond, truth)
                    if e2 is None:
                        continue
                    if self.hooks and self.hooks.on_edge:
                        self.hooks.on_edge(self, e2, cond, truth)
                    self._edge(b, s, e2)
                    self._emit(outs, s, e2, keep_tmp=(kind in ('cond', 'and', 'or')), cond=cond)
            elif kind == 'switch' and cond is not None:
                v = self.peek(env, cond)
                # successor labels
                for s in succs:
                    if s is None:
                        continue
                    lab = self.F.blocks[s].get('label') or {}
                    e2 = env.copy()
                    if 'case' in lab:
                        cv = lab['case']
                        if v.lo > cv or v.hi < cv:
                            continue
                        self.assign_refined(e2, cond, v, v.copy(lo=cv, hi=cv))
                    self._edge(b, s, e2)
                    self._emit(outs, s, e2)
            else:
                for s in succs:
                    if s is not None:
                        e2 = env.copy()
                        self._edge(b, s, e2)
                        self._emit(outs, s, e2, keep_tmp=(kind in ('cond', 'and', 'or')) or not term)
        return outs

    def _edge(self, b, s, env):
        """bookkeeping on CFG edge b->s: loop entry states (for the accumulator lemma), iteration counter"""
        if s in self.loops:
            if b in self.loops[s]:
                if self.unroll:
                    it = env.get('$it', 0)
                    if it < self.unroll:
                        env['$it'] = it + 1
            elif s in self.acc_headers:
                snap = {k: v for k, v in env.items() if isinstance(k, str) and k in self.acc_keys and isinstance(v, V)}
                old = self.loop_entry.get(s)
                if old is None:
                    self.loop_entry[s] = snap
                else:
                    for k in set(old) | set(snap):
                        a, c = old.get(k), snap.get(k)
                        old[k] = join(a, c) if a is not None and c is not None else TOP

    def _emit(self, outs, s, env, keep_tmp=False, cond=None):
        if env.get('$dead'):
            return
        tmp = env.get('$tmp') or {}
        if keep_tmp or True:
            # keep only temporaries that a later block may need: values of conditional-operator arms and short-circuit
            # operands (they are sub-expressions of an element evaluated in a successor block)
            keep = {}
            for k, v in tmp.items():
                p = self.F.sparent.get(k)
                while p is not None and p not in self.F.elem_set:
                    p = self.F.sparent.get(p)
                if p is not None:
                    pb = self.F.pos.get(p)
                    kb = self.F.pos.get(k)
                    if pb and kb and pb[0] != kb[0]:
                        keep[k] = v
            env['$tmp'] = keep
        pk = self.pkey(env)
        d = outs.setdefault(s, {})
        d[pk] = self.join_env(d[pk], env) if pk in d else env
