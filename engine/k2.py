"""K2 — value- and history-sensitive path rules: the K4 interpreter partitioned by a set of event flags.

A rule names events (predicates over evaluated nodes) that set or clear flags; the state is kept separately per flag
set, so the correlation between "what has happened on this path" and "what is returned / what is the value of x here"
is exact for the flags and interval-abstract for values."""
import absint
from absint import V, Hooks


class Flags(Hooks):
    def __init__(self, setters, watch=None):
        """setters: list of (flag, predicate(A, env, eid) -> bool, value) ; value True sets, False clears.
        watch: predicate(A, eid) -> bool: nodes at which the flag sets reaching them are recorded."""
        self.setters = setters
        self.watch = watch
        self.at = {}          # eid -> set of (flagset, )
        self.at_env = {}      # eid -> list of (flagset, env copy)  (final pass only)

    def on_entry(self, A, env):
        env['$flags'] = frozenset()
        return env

    def on_node(self, A, env, e, v):
        fl = env.get('$flags', frozenset())
        if self.watch is not None and A.final and self.watch(A, e):
            self.at.setdefault(e, set()).add(fl)
            self.at_env.setdefault(e, []).append((fl, env.copy()))
        for (name, pred, val) in self.setters:
            if pred(A, env, e):
                fl = (fl | {name}) if val else (fl - {name})
        env['$flags'] = fl

    def join_special(self, k, a, b):
        return a if a == b else None

    post_call = None
    on_edge = None


def partition(A, env):
    return env.get('$flags', frozenset())


def analyse(P, F, setters, watch=None, field_inv=None, param_init=None, extra_partition=None, post_call=None):
    h = Flags(setters, watch)
    if post_call is not None:
        h.post_call = post_call
    part = partition if extra_partition is None else (lambda A, env: (partition(A, env), extra_partition(A, env)))
    A = absint.Analyzer(P, F, hooks=h, field_inv=field_inv, param_init=param_init, partition=part)
    A.run()
    return A, h


# -- common predicates ----------------------------------------------------------------------------------
def is_call(name):
    def p(A, env, e):
        nd = A.ex[e]
        return nd['k'] == 'call' and nd['callee'].get('d') == name
    return p


def is_call_any(names):
    names = set(names)

    def p(A, env, e):
        nd = A.ex[e]
        return nd['k'] == 'call' and nd['callee'].get('d') in names
    return p


def is_slot_call(rec, field):
    def p(A, env, e):
        nd = A.ex[e]
        return nd['k'] == 'call' and nd['callee'].get('slot') == [rec, field]
    return p


def is_store_field(rec, field, value=None):
    """assignment whose target is member (rec, field); value: None any, int constant, or predicate(V)"""
    def p(A, env, e):
        nd = A.ex[e]
        if nd['k'] != 'assign' or nd['op'] != '=':
            return False
        l = A.ex[A.F.strip_casts(nd['c'][0])]
        if not (l['k'] == 'member' and l.get('record') == rec and l['field'] == field):
            return False
        if value is None:
            return True
        v = A.peek(env, nd['c'][1])
        if callable(value):
            return value(v)
        return v.const() == value
    return p


def ret_value_classes(A):
    """-> list of (ret eid, flagset, value V, env)"""
    out = []
    for (e, env, v) in A.ret_states:
        out.append((e, env.get('$flags', frozenset()), v, env))
    return out


def stores_field(rec, field, ops=('=',), value=None, through_param=None):
    """assignment / increment whose target is member (rec, field) (any base, through subscripts)"""
    def p(A, env, e):
        nd = A.ex[e]
        if nd['k'] == 'assign':
            if ops is not None and nd['op'] not in ops:
                return False
            tgt = nd['c'][0]
        elif nd['k'] == 'un' and nd['op'] in ('pre++', 'pre--', 'post++', 'post--') and (ops is None or '++' in ops):
            tgt = nd['c'][0]
        else:
            return False
        l = A.ex[A.F.strip_casts(tgt)]
        while l['k'] == 'sub':
            l = A.ex[A.F.strip_casts(l['c'][0])]
        if not (l['k'] == 'member' and l.get('record') == rec and (field is None or l['field'] == field)):
            return False
        if value is None or nd['k'] != 'assign':
            return True
        v = A.peek(env, nd['c'][1])
        if callable(value):
            return value(v)
        return v.const() == value
    return p


def any_of(*preds):
    def p(A, env, e):
        return any(q(A, env, e) for q in preds)
    return p


def writers_through_arg(P, E):
    """function key -> set of parameter indices through which the function (transitively) writes"""
    out = {}
    for k, sm in E.summ.items():
        out[k] = {o[1] for (o, r, f) in sm['stores'] if o[0] == 'P'} | {o[1] for o in sm['frees'] if o[0] == 'P'}
    return out


def call_writes_object(P, E, var_record):
    """predicate: a call that may write (through a pointer argument) an object of record type var_record, decided from
    the callee's K3 summary and the static type of the argument"""
    W = writers_through_arg(P, E)
    EXT = None

    def p(A, env, e):
        nd = A.ex[e]
        if nd['k'] != 'call':
            return False
        args = nd.get('c', [])
        tg = P.call_targets(A.F, e)
        for t in tg:
            if t.startswith('ext:'):
                import k3
                ws = k3.EXT_WRITES.get(t[4:])
                if t[4:] in k3.EXT_PURE_MATH:
                    continue
                idxs = range(len(args)) if ws is None else ws
            elif t.startswith('cb:'):
                import k3
                idxs = k3.CB_WRITES.get(t[3:], [])
                # callbacks work on the data source, which is not the handle; but they do I/O
                if t[3:] in ('seek_func',):
                    return True
            elif t.startswith('unk:'):
                idxs = range(len(args))
            else:
                idxs = W.get(t, set())
            for i in idxs:
                if i < len(args):
                    a = A.F.strip_casts(args[i])
                    # argument designates (part of) an object of the record: its expression mentions a variable/field of
                    # that record type
                    for n in A.F.walk(a):
                        x = A.ex[n]
                        if x['k'] == 'member' and x.get('record') == var_record:
                            return True
                        if x['k'] == 'ref' and var_record in x.get('t', ''):
                            return True
        return False
    return p


# -- wrappers: events performed inside helper functions ---------------------------------------------------
# A rule that names an event ("the decoder is restarted", "the stream is moved") must see it when a refactoring moves
# the statement into a helper.  must_do: functions in which EVERY path from entry to exit performs the event (directly
# or through a call of such a function); may_do: functions that can perform it on SOME path (call-graph closure).
import cfg as _cfg


def _direct_fns(P, F, n):
    nd = F.ex[n]
    if nd['k'] != 'call' or 'd' not in nd['callee']:
        return []
    G = P.get(nd['callee']['d'], F)
    return [G] if G is not None else []


def must_do(P, spred, files=None):
    """spred(F, eid) -> bool: a syntactic event.  Returns the set of function keys that perform it on every path."""
    ck = ('must', id(spred))
    cache = P.__dict__.setdefault('_k2_wrap', {})
    if ck in cache:
        return cache[ck]
    fns = [F for F in P.functions() if F.entry is not None and (files is None or F.file.endswith(files))]
    done = set()
    changed = True
    while changed:
        changed = False
        for F in fns:
            k = P.key(F)
            if k in done:
                continue

            def blk(n, F=F):
                if spred(F, n):
                    return True
                return any(P.key(G) in done for G in _direct_fns(P, F, n))
            if _cfg.reaches_exit_avoiding(F, None, blk) is None and F.exit is not None:
                done.add(k)
                changed = True
    cache[ck] = done
    return done


def may_do(P, spred):
    ck = ('may', id(spred))
    cache = P.__dict__.setdefault('_k2_wrap', {})
    if ck in cache:
        return cache[ck]
    done = {P.key(F) for F in P.functions() if any(spred(F, n) for n in F.pos)}
    changed = True
    while changed:
        changed = False
        for F in P.functions():
            k = P.key(F)
            if k not in done and any(c in done for c in P.callees.get(k, ())):
                done.add(k)
                changed = True
    cache[ck] = done
    return done


def s_call(names):
    names = set([names] if isinstance(names, str) else names)

    def sp(F, n):
        nd = F.ex[n]
        return nd['k'] == 'call' and nd['callee'].get('d') in names
    return sp


def s_store(rec, field):
    def sp(F, n):
        nd = F.ex[n]
        if nd['k'] == 'assign':
            tgt = nd['c'][0]
        elif nd['k'] == 'un' and nd['op'] in ('pre++', 'pre--', 'post++', 'post--'):
            tgt = nd['c'][0]
        else:
            return False
        l = F.ex[F.strip_casts(tgt)]
        return l['k'] == 'member' and l.get('record') == rec and l.get('field') == field
    return sp


def event(P, spred, mode, dynamic=None):
    """K2 predicate: the node performs the event itself (dynamic(A, env, e) if given, else spred) or is a direct call of
    a function that must / may perform it"""
    fset = must_do(P, spred) if mode == 'must' else may_do(P, spred)

    def p(A, env, e):
        if dynamic(A, env, e) if dynamic is not None else spred(A.F, e):
            return True
        nd = A.ex[e]
        if nd['k'] == 'call' and 'd' in nd['callee']:
            G = P.get(nd['callee']['d'], A.F)
            return G is not None and P.key(G) in fset
        return False
    return p


_RET_RANGE = {}


def ret_range(P, key, depth=0):
    """context-free range of the value a function returns (join over its returns), with the callees' ranges plugged in
    (depth-limited); None when unknown.  Used as a post_call summary where no K4 driver run is at hand"""
    ck = (id(P), key)
    if ck in _RET_RANGE:
        return _RET_RANGE[ck]
    _RET_RANGE[ck] = None
    G = P.fn.get(key)
    if G is None or G.entry is None or depth > 3 or G.d.get('ret_t', '').strip() in ('void', ''):
        return None
    hk = Hooks()
    hk.post_call = make_post_call(P, depth + 1)
    A = absint.Analyzer(P, G, hooks=hk)
    try:
        A.run()
    except Exception:
        return None
    out = None
    for (e, env, v) in A.ret_states:
        if v is None:
            return None
        out = v if out is None else absint.join(out, v)
    if out is not None:
        out = V(out.lo, out.hi, ne=out.ne)
    _RET_RANGE[ck] = out
    return out


def make_post_call(P, depth=0):
    def post_call(A, env, e, r):
        tg = P.call_targets(A.F, e)
        if not tg or any(t.startswith(('ext:', 'cb:', 'unk:')) for t in tg):
            return None
        out = None
        for t in tg:
            rr = ret_range(P, t, depth)
            if rr is None:
                return None
            out = rr if out is None else absint.join(out, rr)
        if out is None:
            return None
        return r.copy(lo=max(r.lo, out.lo), hi=min(r.hi, out.hi), ne=frozenset(r.ne) | frozenset(out.ne)) if isinstance(r, V) else out
    return post_call
