#!/bin/bash
# replay.sh <replay.c> [tree]: build the static libraries of a tree (default /repo) with ASan+UBSan in a scratch directory,
# link the replay program against them and run it (diagnosis only; the checks never run library code)
SRC=$1; TREE=${2:-/repo}; shift; shift
B=$(mktemp -d /tmp/replay_XXXXXX)
cmake -S $TREE -B $B/b -G Ninja -DCMAKE_BUILD_TYPE=Debug -DBUILD_SHARED_LIBS=OFF -DCMAKE_C_FLAGS="-fsanitize=address,undefined -g -fno-omit-frame-pointer" >/dev/null 2>&1 && ninja -C $B/b vorbis vorbisenc vorbisfile >/dev/null 2>&1 || { echo "build failed"; rm -rf $B; exit 2; }
gcc -g -fsanitize=address,undefined -I$TREE/include $SRC $B/b/lib/libvorbisfile.a $B/b/lib/libvorbisenc.a $B/b/lib/libvorbis.a -logg -lm -o $B/r || { echo "replay build failed"; rm -rf $B; exit 2; }
( cd $B && timeout 120 ./r "$@" ); rc=$?
echo "replay exit=$rc"
rm -rf $B
exit $rc
