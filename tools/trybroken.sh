#!/bin/bash
# trybroken.sh: every selftest/broken/<PID>_*.diff must be reported by check <PID> (exit 1) on a scratch copy of the current tree
d=/tmp/wt_broken; git -C /repo worktree remove --force $d 2>/dev/null; git -C /repo worktree add --detach $d HEAD >/dev/null 2>&1
for f in /verif/selftest/broken/*.diff; do
  n=$(basename $f .diff); pid=${n%%_*}
  git -C $d reset -q --hard HEAD; git -C $d apply $f || { echo "$n NOAPPLY"; continue; }
  VERIF_REPO=$d VERIF_EVIDENCE_DIR=/tmp/ev_broken /verif/check $pid > /tmp/trybroken.out 2>&1; rc=$?
  echo "$n exit=$rc $(grep -E '^lib' /tmp/trybroken.out | head -1 | cut -c1-150)"
done
git -C /repo worktree remove --force $d; rm -rf /tmp/ev_broken
