#!/usr/bin/env python3
"""seedtable.py: rewrites DESIGN.md section 9.7 (which checks catch which independently seeded changes) from seeded/RESULTS.json"""
import json, os, re
V = os.path.dirname(os.path.dirname(os.path.abspath(__file__)))
res = json.load(open(os.path.join(V, 'seeded', 'RESULTS.json')))
rows = []
for s in sorted(res):
    d = res[s]
    sd = os.path.join(V, 'seeded', s)
    conf = open(os.path.join(sd, 'confirm.txt')).read() if os.path.exists(os.path.join(sd, 'confirm.txt')) else ''
    if not conf.startswith('CONFIRMED'):
        continue
    files = set()
    funcs = []
    for l in open(os.path.join(sd, 'patch.diff')):
        if l.startswith('+++ b/'):
            files.add(l[6:].strip().replace('lib/', ''))
        m = re.match(r'@@ .* @@ .*?(\w+)\s*\(', l)
        if m and m.group(1) not in funcs:
            funcs.append(m.group(1))
    rules = []
    own = d.get('property')
    for pid, lines in (d.get('reports') or {}).items():
        for l in lines:
            m = re.search(r': (R\d+\.\d+) ', l)
            if m and (pid == own) and m.group(1) not in rules:
                rules.append(m.group(1))
    others = [p for p in d.get('caught_by', []) if p != own]
    rows.append((s, ', '.join(sorted(files)), ', '.join(funcs[:2]), ', '.join(rules) or ('-' if own not in d.get('caught_by', []) else '?'),
                 ', '.join(others)))
out = ['### 9.7 Independently seeded changes and the checks that report them', '',
       'Each seed was written by a sub-agent that saw only the text of one property and a scratch copy of /repo (never /verif), was',
       'confirmed by me (`tools/confirm_seed.sh`: builds, the project\'s tests pass with the change, the agent\'s demo fails with it and',
       'passes without), and is run against every check by `tools/seedrun.py`.  "own check" lists the rules of the check of the seed\'s',
       'own property that report it; "also" the other checks that do.  Retired seeds (masked by a later repair of /repo) are not listed.', '',
       '| seed | file | function(s) in the patch context | own check reports | also |', '|---|---|---|---|---|']
for r in rows:
    out.append('| ' + ' | '.join(r) + ' |')
caught = sum(1 for r in rows if r[3] not in ('-',))
out += ['', f'{len(rows)} seeds; {caught} reported by the check of their own property.', '']
txt = '\n'.join(out)
p = os.path.join(V, 'DESIGN.md')
s = open(p).read()
if '### 9.7 ' in s:
    a = s.index('### 9.7 ')
    b = s.index('\n## ', a)
    s = s[:a] + txt + s[b:]
else:
    a = s.index('## Appendix A')
    s = s[:a] + txt + '\n' + s[a:]
open(p, 'w').write(s)
print(len(rows), 'rows;', caught, 'caught by own check')
