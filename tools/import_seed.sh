#!/bin/bash
# import_seed.sh <out-dir of a seed agent (contains A/ and B/)> <property> <batch letter>: copies each change to seeded/<prop><batch><n>,
# confirms it (tools/confirm_seed.sh) and, when confirmed, runs the check of its own property against it (tools/tryseed.sh)
O=$1; P=$2; B=$3; n=0
for sub in A B; do
  [ -f $O/$sub/patch.diff ] || continue
  n=$((n+1)); S=$P$B$n; D=/verif/seeded/$S
  mkdir -p $D; cp $O/$sub/patch.diff $O/$sub/demo.c $O/$sub/README.md $D/ 2>/dev/null; [ -f $O/$sub/build.sh ] && cp $O/$sub/build.sh $D/
  /verif/tools/confirm_seed.sh $D
  if grep -q ^CONFIRMED $D/confirm.txt; then echo "== $S own check:"; /verif/tools/tryseed.sh $S $P; fi
done
[ -f $O/UNCHANGED_DEFECT.md ] && echo "NOTE: $O/UNCHANGED_DEFECT.md exists"
