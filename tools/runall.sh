#!/bin/bash
# runall.sh [tier]: run all claimed checks in parallel against /repo (or VERIF_REPO), print one line each
T=${1:-quick}
OUT=$(mktemp -d)
for p in C01 C02 C03 C05 C07 C08 C09 C10 C11 C12 C13 C15 C16 C17 C18 C19 C20; do
  ( /verif/check $p --tier $T > $OUT/$p.log 2>&1; echo "$p exit=$? $(grep -E "^$p \[" $OUT/$p.log | cut -c1-150)"; grep -E "VIOLATION|BROKEN|KNOWN" $OUT/$p.log | head -5 ) &
done
wait
rm -rf $OUT
