#!/bin/bash
# confirm_seed.sh <seed-dir containing patch.diff, demo.c [build.sh]>  -> prints a verdict line; uses scratch worktrees under /tmp
# 1. patch applies to a clean checkout of /repo HEAD; 2. changed tree builds and passes ctest; 3. demo fails with change; 4. demo passes without
set -u
SD=$(realpath "$1"); NAME=$(echo "$SD" | tr '/' '_')
WT=/tmp/confirm_$NAME; LOG=$SD/confirm.log; : > "$LOG"
cleanup(){ git -C /repo worktree remove --force "$WT" >/dev/null 2>&1; rm -rf "$WT"; }
cleanup
git -C /repo worktree add --detach "$WT" HEAD >>"$LOG" 2>&1 || { echo "$SD: worktree failed"; exit 2; }
build(){ cmake -G Ninja -S "$WT" -B "$WT/_b" -DCMAKE_BUILD_TYPE=RelWithDebInfo -DBUILD_TESTING=ON >>"$LOG" 2>&1 && cmake --build "$WT/_b" >>"$LOG" 2>&1; }
mkdemo(){ ( cd "$SD" && rm -f demo && if [ -f build.sh ]; then bash build.sh "$WT/_b" "$WT" >>"$LOG" 2>&1; else cc -g -I"$WT/include" demo.c "$WT/_b/lib/libvorbisfile.a" "$WT/_b/lib/libvorbisenc.a" "$WT/_b/lib/libvorbis.a" -logg -lm -lpthread -o demo >>"$LOG" 2>&1; fi ); }
rundemo(){ ( cd "$SD" && timeout 600 ./demo >>"$LOG" 2>&1 ); }
# unchanged
build || { echo "$SD: clean build failed"; cleanup; exit 2; }
mkdemo || { echo "$SD: demo build failed (clean)"; cleanup; exit 2; }
rundemo; CLEAN=$?
git -C "$WT" apply "$SD/patch.diff" >>"$LOG" 2>&1 || { echo "$SD: patch does not apply"; cleanup; exit 2; }
build || { echo "$SD: changed build failed"; cleanup; exit 2; }
ctest --test-dir "$WT/_b" -j8 --timeout 900 >>"$LOG" 2>&1; TESTS=$?
mkdemo || { echo "$SD: demo build failed (changed)"; cleanup; exit 2; }
rundemo; CH=$?
rm -f "$SD/demo"
cleanup
V=REJECT; [ $CLEAN -eq 0 ] && [ $TESTS -eq 0 ] && [ $CH -ne 0 ] && V=CONFIRMED
echo "$SD: $V demo_clean=$CLEAN tests_with_change=$TESTS demo_changed=$CH"
echo "$V demo_clean=$CLEAN tests_with_change=$TESTS demo_changed=$CH" > "$SD/confirm.txt"
