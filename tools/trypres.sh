#!/bin/bash
# trypres.sh <property...>: run the given checks (quick) on every behaviour-preserving variant in selftest/preserving; any VIOLATION/BROKEN is a false alarm
for f in /verif/selftest/preserving/*.diff; do
  ( d=$(mktemp -d /tmp/trypres_XXXXXX); rmdir $d; git -C /repo worktree add --detach $d HEAD >/dev/null 2>&1
    git -C $d apply $f 2>/dev/null || echo "$(basename $f): PATCH FAILED"
    ev=$(mktemp -d /tmp/trypres_ev_XXXXXX)
    for p in "$@"; do VERIF_REPO=$d VERIF_EVIDENCE_DIR=$ev /verif/check $p 2>&1 | grep -E "^lib|VIOL|BROKEN|$p \[" | cut -c1-220 | sed "s|^|$(basename $f): |"; done
    git -C /repo worktree remove --force $d; rm -rf $ev ) &
done; wait
