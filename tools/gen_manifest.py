#!/usr/bin/env python3
"""Regenerates /verif/MANIFEST.json from the table below (claimed checks) and the not-applicable list."""
import json, os
V = os.path.dirname(os.path.dirname(os.path.abspath(__file__)))

CLAIMED = {
 # pid: (technique, level text, level note, design ref)
 'C18': ('static effect (mod-set) analysis with points-to over the clang AST/CFG + call-graph reachability + CFG path rules',
         'All functions of the three libraries are analysed on every run: no store/free may designate static storage '
         '(all paths, all call chains), no non-reentrant libc is reachable, FPU mode changes are paired, malloc memory is '
         'initialised where allocated. This decides the structural clauses (no shared mutable state, no reliance on '
         'uninitialised allocations); it does not decide races inside libogg/libc nor floating-point reproducibility.',
         'Trusted: clang 14 front end; the external-effect table for libc/libogg; type-based heap classes (one per record '
         'pointer field); 5 allocation sites are assumptions with reasons (arena storage, tables filled by the recursion).',
         'DESIGN.md 4/C18, 3.3 K1 K2 K3'),
}

NA = {
 'C04': 'encode->decode sample count is run-time arithmetic over N, block switching and granule trimming; no structural clause bounds it (DESIGN 5)',
 'C06': 'alignment and quality of a lossy transform are numerical; nothing structural to decide statically (DESIGN 5)',
 'C14': 'hard bitrate limits are a linear invariant over several run-time quantities; needs a relational numeric domain / solver, outside this technique family (DESIGN 5)',
}
# properties designed as claimed but whose check is not built yet are listed as not applicable until the check exists
PENDING = 'check designed in DESIGN.md section 4 but not yet built; not claimed until the rule engine for it is committed'

def main():
    props = [json.loads(l)['id'] for l in open(os.path.join(V, 'properties.jsonl'))]
    checks = []
    for pid in props:
        if pid in CLAIMED:
            tech, text, note, ref = CLAIMED[pid]
            checks.append({
                'property_id': pid,
                'quick_cmd': f'./check {pid} --tier quick',
                'thorough_cmd': f'./check {pid} --tier thorough',
                'evidence_file': f'/verif/evidence/{pid}.json',
                'replay_cmd_template': f'./check {pid} --replay {{path}}',
                'engine': 'vx+rules',
                'level_claimed': {'category': 'other', 'text': text, 'design_ref': ref},
                'level_note': note,
                'technique': tech,
            })
    na = []
    for pid in props:
        if pid in CLAIMED:
            continue
        na.append({'property_id': pid, 'reason': NA.get(pid, PENDING)})
    m = {
        'version': 1,
        'setup_cmd': 'make -C /verif build/vx',
        'hooks': {'guard': 'XIPH_VORBIS_VERIF', 'enable': 'none: the analysis reads the source as built; no hooks are needed',
                  'baseline_off_cmd': 'ctest --test-dir /repo/_build -j8 --timeout 900',
                  'source_commits': [], 'add_only': True},
        'engines': [{'name': 'vx+rules', 'path': '/verif/engine',
                     'serves_properties': sorted(CLAIMED),
                     'kind_free_text': 'libTooling fact extractor (typed AST, clang CFG, resolved callees/slots, evaluated '
                                       'initialisers) + Python rule engines K1..K9 (call-graph, CFG path rules, effects, '
                                       'ranges, typestate, ownership, units, layout agreement, error discipline)'}],
        'checks': checks,
        'not_applicable': na,
        'notes': 'Static analysis only: nothing executes libvorbis. Exit 0 held / 1 violation / 2 analysis broken '
                 '(anchor vanished, parse error, instance floor, control not flagged).',
    }
    json.dump(m, open(os.path.join(V, 'MANIFEST.json'), 'w'), indent=1)
    print('MANIFEST.json:', len(checks), 'checks,', len(na), 'not applicable')

if __name__ == '__main__':
    main()
