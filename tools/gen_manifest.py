#!/usr/bin/env python3
"""Regenerates /verif/MANIFEST.json from the table below (claimed checks) and the not-applicable list."""
import json, os
V = os.path.dirname(os.path.dirname(os.path.abspath(__file__)))

CLAIMED = {
 # pid: (technique, level text, level note, design ref)
 'C18': ('static effect (mod-set) analysis with points-to over the clang AST/CFG + call-graph reachability + CFG path rules',
         'All functions of the three libraries are analysed on every run: no store/free may designate static storage '
         '(all paths, all call chains), no non-reentrant libc is reachable, FPU mode changes are paired, malloc memory is '
         'initialised where allocated. This decides the structural clauses (no shared mutable state, no reliance on '
         'uninitialised allocations); it does not decide races inside libogg/libc nor floating-point reproducibility.',
         'Trusted: clang 14 front end; the external-effect table for libc/libogg; type-based heap classes (one per record '
         'pointer field); 5 allocation sites are assumptions with reasons (arena storage, tables filled by the recursion).',
         'DESIGN.md 4/C18, 3.3 K1 K2 K3'),
 'C01': ('layout-skeleton extraction from the typed AST compared with the specification text (doc/*.tex) + evaluated constant tables + registry/stage-order rules',
         'The readers of every header, codebook, floor, residue, mapping, mode and audio-packet prologue are reduced to their '
         'bit-layout skeleton and compared with the width sequences of the specification sources; the dB table, the eight '
         'window tables and the floor-1 range vector are compared after constant evaluation; registries and decode stage order '
         'are checked. A changed width, dropped or swapped field, wrong table entry or reordered stage is a non-conforming '
         'decoder for some legal stream that no test decodes. Sample values themselves are not decided.',
         'Trusted: clang 14 front end; doc/*.tex as oracle; the width-phrase extraction of engine/spec.py (an unparsable section '
         'is exit 2).', 'DESIGN.md 4/C01, 3.3 K8'),
 'C05': ('writer/reader layout-skeleton agreement over the typed AST (sets of width paths + field/offset roles), packet-producer completeness',
         'Every packer is compared with its unpacker over all branch outcomes: equal width sequences, same struct field and '
         'inverse affine offset on each aligned field, equal constants; the audio prologue and floor-1 packet head written by '
         'the encoder equal what the decoder reads; all packet producers fill all six packet fields. Decides that encoder and '
         'decoder implement one bit layout (with C01: the specified one); does not decide exact consumption of every packet '
         'nor managed-mode bit budgets.',
         'Trusted: clang 14 front end; libogg oggpack_write/read semantics; the value-preserving normalisations N2-N8.',
         'DESIGN.md 4/C05, 3.3 K8'),
 'C16': ('layout agreement (K8) for the comment header, sibling-predicate comparison of the two query functions, call-graph reachability for locale-free folding',
         'The comment header writer, reader and specification agree; vorbis_comment_query and vorbis_comment_query_count are '
         'shown to apply the same match predicate over the same range (conditions controlling their match counters are equal '
         'after expanding locals); no locale-dependent libc is reachable. Byte equality of round-tripped content is not decided.',
         'Trusted: clang 14 front end; ISO C meaning of strlen/strcpy/strcat.', 'DESIGN.md 4/C16'),
 'C07': ('CFG path rules with history partitioning over the K4 abstract interpreter (flags + intervals), def-use staleness rule using K3 write-sets',
         'All paths of the seek and read functions are covered: sample consumption is always paired with the position advance '
         '(same count, half-rate shift); every successful seek path defines the position and restarts/rebuilds the decoder; '
         'reads report the link index; no per-link value is used stale across a link switch; the packet accumulator tracks '
         'the granule position also for track-only blocks. These are necessary conditions of "reported position = audio '
         'delivered"; bit-identity of the audio is not decided.',
         'Trusted: clang 14 front end; K3 effect table for externals; interval abstraction of return values; _ov_getlap is a '
         'stated exception of R07.1.', 'DESIGN.md 4/C07'),
 'C08': ('CFG path rules with history partitioning over the K4 abstract interpreter; K3 write-sets decide "touches the handle"',
         'Every literal rejection return of the five seek entry points is proven to be reached with the handle untouched; no '
         'handle write precedes the range check of the position argument; the page seek reports success only with '
         'pcm_offset <= pos established; every failing exit after the handle was touched has dumped position and decoder. '
         'Reachability of targets and landing precision are not decided.',
         'Trusted: clang 14 front end; K3 effect table for externals; interval abstraction.', 'DESIGN.md 4/C08'),
 'C03': ('finite-state typestate analysis of the handle (ready_state x decoder/block liveness x packet-queue emptiness) with exact per-entry-state relational summaries of every internal function + error-discipline (def-use) analysis of fallible decode calls + CFG path rules for the open failure paths',
         'Every public vorbisfile function, entered in any consistent handle state, returns in a consistent state on every path, and '
         'every decode call that dereferences the decoder or block is reached only with it initialised (typestate, all paths, all '
         'call chains). Every call in vorbisfile.c to a decode/set-up function that can fail has its result observed on all paths; failed '
         'opens detach the data source before ov_clear on every path and the close callback has one guarded site. These are '
         'necessary conditions of memory safety of the handle (a rejected packet never reaches the accumulator; a failed open '
         'never closes the source). Loop termination over arbitrary page structure is not decided.',
         'Trusted: clang 14 front end; libogg contract (a packetpeek/packetout result <= 0 means no packet is queued and only pagein changes that; cleared stream states fail harmlessly); one requires-live site is an assumption with its reason (engine/typestate.py).', 'DESIGN.md 4/C03, 3.3 K5'),
 'C12': ('call-graph-derived I/O-capable and error-carrying function sets + def-use observation analysis + path rules with interval/excluded-constant abstraction of error codes + finite-state typestate analysis of the handle (usable after failure)',
         'Every result of an I/O-capable call is observed; where a failure is tested and the edge runs to a return the returned '
         'value is negative (documented EOF mappings excepted); the close callback has one guarded site and failed opens '
         'detach the source first; the sync layer is given exactly the positive count the read callback returned; the seek '
         'helper changes its bookkeeping only after a successful callback. Behaviour after the fault stops is not decided.',
         'Trusted: clang 14 front end; callbacks modelled as external events; OV_EREAD distinguishable from OV_EOF/OV_HOLE by '
         'the excluded-constant domain.', 'DESIGN.md 4/C12'),
 'C11': ('transitive effect (mod-set) analysis through all backend slots (K3) + CFG dominance/control-dependence rules',
         'The may-write set of the packet decoder contains no persistent decoder state, so a rejected or damaged packet cannot '
         'have touched the accumulator; the accumulator functions write only the lapping/position fields; scratch is reset and '
         'zeroed unconditionally before use; rejected packets never reach the accumulator; a sequence gap resets both '
         'position counters together. Bit-identity of the output after a disturbance is not decided.',
         'Trusted: clang 14 front end; K3 external effect table; type-based heap classes.', 'DESIGN.md 4/C11'),
 'C19': ('sibling/order rules over the lap entry points (resolved function-pointer arguments), staged path flags, K4 symbolic range analysis of the splice',
         'Each lapped seek is proven to run exactly its plain counterpart, to hand failures up unchanged, to collect, seek, '
         'prime, expose and splice in that order on every success path, and to confine the splice to min(n1,n2) samples with '
         'the window that belongs to the chosen length. The cross-fade values and bit-identity after the region are not decided.',
         'Trusted: clang 14 front end; symbolic upper bounds of K4.', 'DESIGN.md 4/C19'),
 'C20': ('CFG order and control-dependence rules, K4 ranges with symbolic bounds for the link loops, K3 single-writer rule for the flag',
         'A refused toggle provably leaves the flag untouched and resets every link; the flag is stored for all links before any '
         'call that can rebuild the decoder; the flag has a single writer and no second copy. (Units-of-measure typing of the '
         'half-rate shift is added with the K7 engine.) Bit-identity with a linear half-rate decode is not decided.',
         'Trusted: clang 14 front end; call graph; K4 intervals.', 'DESIGN.md 4/C20'),
 'C09': ('symbolic evaluation of per-link table subscripts as linear forms of one link variable + K4 range analysis of the summing loops + control-dependence rule for link-0 shortcuts',
         'Every subscript of offsets/dataoffsets/serialnos/vi/vc/pcmlengths in vorbisfile.c is proven to be a*L+b with the slot role of '
         'its table; the totals sum over exactly [0,links); link 0\'s set-up is never used by shortcut where a link is selected and '
         'the open-time scan never reads the (not yet meaningful) current link. That the bisection finds the right links and '
         'lengths for a given file is not decided.',
         'Trusted: clang 14 front end; exact evaluation of subscripts at L=0,1,2; the open path (_ov_open1/_open_seekable2) is a '
         'stated exception for constant link-0 slots.', 'DESIGN.md 4/C09'),
 'C10': ('CFG path rules with history flags (clamp before consume/filter), call-graph rule (single decode path), K3 rule (no direct stores into decoder state)',
         'Short reads commit exactly the returned count; the caller\'s length clamps the frame count before the filter callback and '
         'before consumption, with one count variable throughout; all access modes run the same per-packet decode calls, none '
         'control-dependent on seekability. These are necessary conditions; equality of PCM across schedules is not decided.',
         'Trusted: clang 14 front end; K3 effect analysis.', 'DESIGN.md 4/C10'),
 'C15': ('K4 value-range analysis at call sites (validated arguments), path rules partitioned by path history (clear on failure), partitioned range analysis of the control freeze',
         'At every set-up helper call the validated argument ranges are proven (rate > 0, channels in [1,255]); every failing one-step '
         'init has cleared the info structure; every setter of vorbis_encode_ctl is reached only with set_in_stone == 0; the '
         'template search never yields the table size as setting. Memory safety of per-block encoder DSP is not decided.',
         'Trusted: clang 14 front end; K4 intervals.', 'DESIGN.md 4/C15'),
 'C17': ('K4 interval analysis of ov_read_filter partitioned by the signedness argument; control-dependence rules for byte order; link-consistency rule for the channel count',
         'On all five packing paths every stored sample is proven to lie in exactly the range of its word (signed [-S,S-1], unsigned '
         '[0,2S-1]); word/channels/samples guards and the frame clamp hold at every store; byte order follows the request; bytes '
         'returned = frames consumed x frame size; the channel count is the current link\'s. Rounding to nearest is not decided.',
         'Trusted: clang 14 front end; vorbis_ftoi returns an arbitrary int.', 'DESIGN.md 4/C17'),
 'C02': ('cross-function abstract interpretation (intervals + symbolic upper bounds + end-of-packet tags) of every function the decode API reaches, with field invariants carried from the header unpackers to their consumers; CFG guard rules; call-graph reachability',
         'Every stream-derived set-up field is shown to be range-validated by its unpacker on every success path (the range each '
         'consumer needs), and under those ranges every fixed-extent subscript, integer divisor, allocation and alloca size in the '
         'decode call graph is shown in range / non-zero / bounded, or is a listed assumption with its reason; the listed semantic '
         'guards (CVE shapes) are present; no process-terminating call is reachable; rejected headers are cleared. Heap-buffer DSP '
         'arithmetic, loop termination and time budget are not decided.',
         'Trusted: clang 14 front end; libogg bit-packer contract (sticky end-of-packet); calloc zero-fills; qsort permutes; the '
         'K4 lemmas named in evidence (accumulator bound, named sums, iteration-partitioned pure helpers); objects passed to the '
         'decode API were initialised by their init functions; 23 sites are assumptions with reasons (engine/rules/c02_tables.py).',
         'DESIGN.md 4/C02, 3.3 K4'),
 'C13': ('path-sensitive ownership (typestate) analysis over the clang CFG with relational callee summaries split by result class; field-coverage, free-then-reset, slot-overwrite and static-book rules over K3 effect summaries and CFG dominance',
         'Every function of the three libraries that acquires memory is analysed on every path: allocator results, fresh objects '
         'from callees, local aggregates made live by init functions or filled by callees, and memory left in local pointer cells '
         'must be released, handed over or returned at every exit, success or failure. Every field that receives owned memory is '
         'released by its record\'s release function; freed fields are reset or their object wiped; clear functions end by wiping '
         'their object; owning slots are empty when filled; shared const codebooks are never freed; the close callback has one '
         'guarded site. Aliasing through untyped back-pointers beyond the field tables is not decided.',
         'Trusted: clang 14 front end; K3 effect summaries; libc allocator semantics; libogg init/clear pairs; the table of '
         'release functions (engine/rules/c13.py) and init functions (engine/k6.py); one non-owning field is an assumption with '
         'its reason.', 'DESIGN.md 4/C13, 3.3 K6'),
}

# rules added after the first version of a check: (sentence appended to the level text, technique suffix)
ADDENDA = {
 'C01': ('Value tables addressed by entry number are compared with the specification as well (R01.5); every counter in '
         'vorbis_synthesis_blockin advances by blocksizes[previous]/4+blocksizes[current]/4 with the flags discovered from '
         'the stores (R01.6); the residue-2 de-interleave cursor starts at the vector position the offset names (R01.7, exact '
         'evaluation of the cursor initialisers); the bounds the codeword bisection unpacks from saturating hint fields have the '
         'sign that makes saturation widen the search (R01.8); the residue flags are propagated over the coupling steps on the vector being updated, so a flag set by one step is seen by the next (R01.9).', ' + linear forms over block sizes + exact evaluation of initialisers'),
 'C02': ('The window pcm_returned <= pcm_current is decided as an invariant of every decode-side writer by a relational '
         'pair-invariant analysis (affine upper bounds in the two fields, half-rate shift made concrete), whatever the form of '
         'the clamps; helper functions an unpacker was split into are analysed as part of it; initialisers clean up only an '
         'object they have wiped (R02.6); a table with one slot per used codebook entry is indexed by the used-entry counter '
         '(R02.7); the capacity of the decoder\'s channel buffers does not depend on the half-rate flag sampled at initialisation '
         '(R02.8); every codebook table the decoders read through is built on every successful initialisation of a book that has '
         'entries (R02.9); a backend routine taken from a registry at the type of number k is applied to the per-number object of the same k (R02.10); every packet-level decode call tolerates the wiped state a refused vorbis_synthesis_init leaves (R02.11, K4 nullness with vi and backend_state null on entry).',
         ' + relational pair-invariant analysis (affine bounds) for the returned/current window'),
 'C03': ('Search loops that run until a sentinel changes have no iteration that leaves the state unchanged (R03.2: K4 '
         'refinement of the exit conditions in the stuck state), and every libvorbis function vorbisfile hands a vorbis_info to '
         'tolerates a cleared one (R03.5: K4 with codec_setup == NULL on entry); a NULL a library function can return is tested '
         'before it is dereferenced (R03.6); the link index changes only while the decoder is cleared (R03.7, K5 typestate); a '
         'packet is read only after a positive packetout/packetpeek filled it (R03.8, K4 forked on the result class); a page '
         'object is used only while libogg\'s sync buffer still holds it -- valid from a fetch that found a page until the next '
         'call that can reach ogg_sync_buffer, with the fetch helpers verified rather than assumed (R03.9); per-link tables are '
         'indexed by the link counter only where the handle is known seekable (R03.10); recursion depth in vorbisfile.c is bounded '
         'by a constant (R03.11; the per-link recursion of the open-time link scan is a recorded known finding); no per-link value is used stale across a link switch (R03.12); a search position that is stepped back and clamped just above a moving bound is stepped only while it is above the clamp value (R03.13: the controlling conditions entail it in an exact linear domain).',
         ' + stuck-state analysis of sentinel loops + null-entry analysis of the info accessors'),
 'C05': ('The managed-bitrate path hands out one of the PACKETBLOBS encodings (R05.6), residue entry numbers are mixed-radix '
         'numbers with digits below the radix (R05.7), and submap bundles pair each slot with one channel identically in '
         'encoder and decoder (R05.8); every residue entry handed to the book encoder passed a non-zero codeword-length test '
         'or the nearest-used-entry search on every path (R05.9); the buffer vorbis_analysis hands out directly is a slot of the '
         'blob table the mapping writes (R05.10); every packetblob subscript of the packet-size search in vorbis_bitrate_addblock is inside the array, given that rint() of the floating average is (R05.11, K4; that premise is listed as an assumption).', ' + K4 value analysis of blob choice and codeword digits + must-path analysis of the quantiser'),
 'C07': ('Every accumulation of block sizes into a position is last/4 + this/4, as in the decoder (R07.12). The window history of vorbis_synthesis_blockin is recorded before anything reads it, also for track-only blocks '
         '(R07.8); events performed inside helper functions count (a helper that must restart the decoder, may move the stream); '
         'the data offsets seeks start from see their link\'s header fetch as last writer of the stream position (R07.9, '
         'provenance analysis); a scratch ogg_stream_state is live whenever it is used (R07.10, typestate); a negative position '
         'is clamped in the link-relative frame, before the earlier links\' lengths are added (R07.11); the link index a read reports is stored after the last call that may switch links (R07.3).',
         ' + provenance/last-writer analysis + libogg object typestate (K2 flags)'),
 'C08': ('The sample-discard loop of a sample-accurate seek makes progress: the remaining distance is at least one output '
         'sample whenever its body runs, at full and at half rate (R08.8); page properties kept in flags are recomputed for '
         'every page submitted (R08.9); a page seek that reports success has selected a stream, from every consistent entry '
         'state (R08.10, K5); a time is multiplied by a link\'s rate only after the earlier links\' durations were subtracted (R08.11); '
         'the error exit of the sample seeks returns a negative code in every state (R08.12).', ' + K4 progress obligation on the discard loop'),
 'C09': ('Block-overlap sums skip the first packet at every site (R09.6) and the downward search over the links ends on a link '
         'wherever its variable subscripts a per-link table (R09.7: K4, with the lemma that the remaining total is 0 at link 0).'
         ' A link\'s serial number and data offset in the per-link tables derive from reads of the stream state whose last '
         'writer is that link\'s header fetch (R09.8), and so does the lower bound handed to the next bisection level (R09.9); the loop that searches for the end of a link '
         'is left only through its guard or an error return (R09.10); vf->current_link indexes a per-link table only behind a '
         'seekable test, also one made by a callee that refuses a streaming handle (R09.11); nothing reachable from the link scan '
         'stores current_serialno or current_link (R09.12).',
         ' + K4 range obligations on link searches + provenance/last-writer analysis'),
 'C10': ('_fetch_headers performs the stream set-up of the link in every call that reports success, whatever state the handle '
         'was entered in (R10.4); serial numbers in the link table see their link\'s header fetch (R10.5); a fetched page is '
         'submitted to a stream state at most once, helpers summarised (R10.6: no spurious hole); the half-rate request '
         'survives the re-creation of the info at a streaming link boundary (R10.7); serial numbers are compared as signed values, '
         'the way the link table stores them (R10.8); a streaming handle decodes every link through its one table entry (R10.9); the first audio page of a link is delimited by dataoffsets[], the link start offsets[] is used only as an upper end, in raw arithmetic or against the caller\'s raw position (R10.10); a table value that was handed by address to a later page search is not what the header fetch left (R10.5).',
         ' + libogg page typestate (K2 flags with K5 entry states) + provenance analysis'),
 'C11': ('The lazily filled floor-0 cache is read only after the fill (R11.6); the arena reset may sit in a helper that performs '
         'it on every path.', ''),
 'C12': ('A lazy-initialisation gate is never left set by a failed initialisation (R12.8: the decode book table), buffered '
         'input is dropped only with the offset re-defined (R12.7); every loop around the packet fetch leaves on each failure '
         'code the fetch can return, taken from the K5 outcome sets (R12.10); a clean-up hands a local aggregate to its release function only on paths on which it was initialised, callee summaries by result class (R12.11).', ' + gate-reset path rule over helpers and their callers'),
 'C13': ('Counts cover the elements filled (R13.8), arrays of owners are released element-wise (R13.9), live elements are not '
         're-initialised (R13.10); the info a live decoder refers to is not cleared under it (R13.11, typestate); a file-local '
         'helper may leave a freed pointer to callers that wipe the container; the set-up step that freezes the staged '
         'settings tests the freeze flag before it allocates (R13.12); a release function that frees only under an ownership flag is '
         'called, by the function that allocated the object, only after the flag was set (R13.13).', ''),
 'C15': ('Fixed-extent indexing in the psychoacoustic and vorbisenc set-up code is proven by K4 with floating intervals '
         '(R15.5); every value vorbis_encode_ctl copies from the caller into a range-constrained set-up field is inside its '
         'range at the store or clamped before the return (R15.6, NaN cases listed as assumptions); a refused control request '
         'has stored nothing (R15.7); requests on an existing set-up tolerate a cleared info (R15.8); a NaN does not survive a '
         'request whose value becomes an integer bound (R15.6 nan-rejected); no alloca on the analysis path is sized by the '
         'amount of audio submitted (R15.9); the staging calls refuse an info whose set-up was completed (R15.10); a capacity '
         'grown under a need test is grown to at least the need (R15.11); the packet-size search of the bitrate manager stays inside the blob table (R15.12); the hard limits reach the bitrate manager ordered -- the conditions on the way to the stores refute min > max exactly (R15.13); a NaN reservoir bias is refused before it is stored (R15.6 nan-refused-before-store).', ' + K4 interval analysis (integer and floating) of set-up code'),
 'C16': ('Comment strings are allocated length+1 and filled exactly (R16.2); vorbis_comment_add grows both arrays alike and '
         'keeps the terminator inside the allocation (R16.5).', ''),
 'C17': ('The channel count used for interleaving is the decoded link\'s and is not stale across the packet fetch (R17.5, R17.6); '
         'the data return is at least one frame (R17.7) and every float-to-int conversion argument is within the range of int, i.e. '
         'samples are clipped before they are converted (R17.8, K4 floating intervals through the clip helper); the info that '
         'supplies the channel count is indexed by the link counter only on a seekable handle (R17.9); the clip helper returns a bound only under guards that place the sample at or beyond that bound, so clipping is the identity inside the range (R17.10, exact linear domain).', ''),
 'C18': ('Decode scratch from the block arena is zeroed for every channel whatever the arena held (R18.6); a memset that follows an '
         'allocation of the same lvalue covers the allocated size (R18.7).', ''),
 'C19': ('The packet fetch reports end-of-file to the lap helpers only at a link boundary (R19.5) and vorbis_synthesis_lapout '
         'can be called again on the state it left: every window move is guarded by a test the function falsifies (R19.6); '
         'its relocations end at the block centre and the window fields move with the data (R19.7, linear identities); rows of a '
         'decoder view are read from their first sample, never at an offset (R19.8); in ov_crosslap every computed value depends on '
         'one handle only until the splice (R19.9); the second set of lapping parameters is recomputed after the seek (R19.10); the early range test of a lapped seek and its plain counterpart agree at the bound itself (R19.11); a fetch that stops at a link boundary does not answer end-of-file with the next link\'s first page consumed and neither submitted nor put back (R19.12).',
         ' + K4/K2 idempotence rule for lapout + linear identities over block-size locals'),
 'C20': ('Units of measure are checked in the block layer as well (R20.6: stream vs output samples meet only through the '
         'half-rate shift, the flag is never added to a sample count); the half-rate request is carried over when the info '
         'is discarded and rebuilt at a streaming link boundary (R20.8); ov_halfrate reports success only behind the completed '
         'all-links loop, which its own roll-back recursion relies on (R20.9); its refusal returns are reached without any decoder '
         'dump on the path (R20.10); the request is read from the info before it is discarded (R20.8); the position the toggle restores is bounded by the total (R20.11).', ' + units-of-measure tag analysis in lib/block.c + K2 must-restore rule'),
}

NA = {
 'C04': 'encode->decode sample count is run-time arithmetic over N, block switching and granule trimming; no structural clause bounds it (DESIGN 5)',
 'C06': 'alignment and quality of a lossy transform are numerical; nothing structural to decide statically (DESIGN 5)',
 'C14': 'hard bitrate limits are a linear invariant over several run-time quantities; needs a relational numeric domain / solver, outside this technique family (DESIGN 5)',
}
# properties designed as claimed but whose check is not built yet are listed as not applicable until the check exists
PENDING = 'check designed in DESIGN.md section 4 but not yet built; not claimed until the rule engine for it is committed'

# fourth session: rules added after the batch k seeds and the U1-U3 refactoring round
ADDENDA4 = {
 'C01': ('Floor curves are read from the packet in channel order: the call through vorbis_func_floor.inverse1 sits in one loop over the channels and depends on no submap filter (R01.10).', ''),
 'C02': ('What a clear function will walk is initialised: an owning pointer array is calloc\'ed, grown by realloc, or malloc\'ed only under a zero count or right before a fill loop that cannot be left early (R02.12 = R13.14).', ''),
 'C03': ('A clean-up releases only what was set up (R03.14 = R12.11); the sentinel-loop rule R03.2 also sees do-while loops.', ''),
 'C07': ('A track-only block advances the position bookkeeping exactly as a decoded one: vorbis_synthesis_blockin is interpreted in two constant contexts (vb->pcm NULL / not NULL) with marker values and the window history, sequence number, sample count and granule position at the success returns are compared (R07.13); the seek helper moves its bookkeeping only after the callback succeeded (R07.14 = R12.6).', ' + K4 runs in constant calling contexts with marker values'),
 'C08': ('Track-only blocks advance the bookkeeping (R08.13 = R07.13); a seek answers 0 only after a call from which the seek helper is reachable (R08.14); ogg_page_granulepos is consulted only for a page whose serial number was compared on that path (R08.15).', ' + must-pass-through over callee closures'),
 'C09': ('A read error met by the scans that build the link tables is never taken for the end of the data: every call of a function that can answer OV_EREAD is analysed with that answer forced and every return reached afterwards is negative (R09.13 = R12.13; finding F48 repaired); the read callback\'s fread convention -- errno cleared before, a zero count checked against errno -- is kept (R09.14 = R12.14).', ' + forced-outcome K4 runs per call site'),
 'C10': ('Handing a cleared half-rate request on cannot fail: vorbis_synthesis_halfrate interpreted with flag == 0 returns 0 on every path that has a codec set-up (R10.11).', ''),
 'C11': ('R11.5 is decided semantically: vorbis_synthesis_blockin is interpreted for a first block, a sequence gap and an in-sequence block with marker values in the running counters; a gap forgets both, an unbroken sequence keeps both.', ' + K4 runs in constant calling contexts with marker values'),
 'C12': ('The seek entry points answer 0 only after a repositioning call (R12.12 = R08.14); a read error during the open-time scans propagates as a negative return from every call site (R12.13, finding F48); the errno convention of the read callback is kept (R12.14).', ' + forced-outcome K4 runs per call site'),
 'C13': ('What a release function walks is initialised (R13.14); a block is released with the dimensions it was allocated with -- the count source handed to a file-local allocating and releasing helper pair is not re-assigned in between (R13.15).', ''),
 'C15': ('Template table extents cover every index set-up can form (R15.1): K4 is run once per template of setup_list over vorbis_encode_setup_init, vorbis_encode_setup_setting, setting_to_approx_bitrate and their helpers with an abstract pointer domain over the constant mode tables (evaluated initialisers); every subscript, -> and memcpy source through a table pointer is an obligation per template (about 170 sites x 17 templates); lemmas CONVEX and FRAC are named in evidence, the rounding of the interpolated index is an assumption.  The blob choice stays inside packetblob[] (R15.14 = R05.6).', ' + template-instantiated K4 with an abstract pointer domain over constant initialisers'),
 'C17': ('K4 rounds values converted to single precision, so a clip bound of (float)INT_MAX is seen as 2^31 (R17.8).', ''),
 'C18': ('The size argument of memset/memcpy/memmove on elements wider than a byte is a byte count (constant or with a sizeof factor), so no tail of a buffer keeps stale stack or heap contents (R18.8).', ''),
 'C19': ('The lapped time-seek worker and the plain time seeks accept the same times: K4 at T-1/2, T and T+1 on a single-link handle of total time T (R19.13); values read from ov_info(vf,-1) before _ov_initset are stale when the handle is entered below STREAMSET (R19.10 with K5 entry states).', ' + K4 probes at constant arguments'),
 'C20': ('A half-rate request made on a partially open handle reaches the links the open finds: where ov_halfrate can answer 0 in state PARTOPEN (K4 with that constant), the function that completes the link table calls vorbis_synthesis_halfrate behind the point where the table has grown (R20.12; finding F49 repaired).', ''),
}

# fifth session: rules added after the batch l seeds and the V1-V3 refactoring round
ADDENDA5 = {
 'C01': ('The classification codewords of a residue are read in pass 0 whenever there are partitions to read: the field that bounds the pass loop is >= 1 at every return of the look function (R01.11, K4; finding F50 repaired).  The decoder files the "do not decode" flag and the vector of a submap slot under one slot counter (R01.12 = R05.8, decode side) and hands the residue walker the number of vectors it compacted (R01.13 = R05.13).', ' + K4 on the residue look function'),
 'C02': ('The duplicate-post check of floor1_unpack covers all count+2 posts starting at postlist[0], the two implicit end posts included (affine forms rewritten through file-local helpers), which is what keeps the divisor of render_line positive (R02.3 unique-posts-cover-all-posts).', ''),
 'C03': ('The link count and the tables ov_clear walks with it change together: no return lies between a store to vf->links and the (re)allocation of vf->vi / vf->vc (R03.15, K2 flags).', ''),
 'C05': ('The reader takes no legal field value for the end of the packet: a field of up to 31 bits is tested against -1 only at a width that holds every value (R05.12, with a positive control).  Residue back ends that compact their vector array hand on the compaction counter, writer and readers alike (R05.13).', ''),
 'C07': ('The packets a seek passes over are tracked by a live decoder: every trackonly/blockin call of the seek functions is reached only with decoder and block initialised (R07.15, K5 typestate).', ' + K5 typestate at the discard loop'),
 'C08': ('Samples are converted to time at a link\'s rate only when they are a count of that link: no total accumulated over the links is divided by one link\'s rate (R08.11, dual clause).  A seek that failed in the callback can be repeated: _seek_helper touches the cached offset only after the callback succeeded (R08.16 = R12.6).', ''),
 'C09': ('A search that runs until its answer is stable runs at least once: the sentinel of `while(a!=b){a=b; ..&a..}` starts at b+c with c != 0 (R09.15).', ''),
 'C10': ('The cached stream offset follows the data source: every call of the seek callback is followed by a store to vf->offset before the handle is used again (R10.12, K2 flags; calls through local function pointers are resolved).', ''),
 'C15': ('The interpolating arm of get_setup_template leaves its search loop only with low <= request < high, so the setting stays below the table size (R15.2, exact linear domain).  The submission path forms no pointer in front of a buffer it has just allocated: the offset of `work + a - b - c` is non-negative under the if-conditions on the way (R15.15, exact linear domain).', ' + exact linear domain over guard conditions'),
 'C16': ('Every further condition on the way to the match counter of the two query functions is one a match implies: length >= strlen(entry) >= strlen(tag)+1 entails it (R16.6, exact linear domain).  No legal comment byte is taken for the end of the packet (R16.7 = R05.12 on the comment reader).', ' + exact linear domain (Fourier-Motzkin) over the query guards'),
 'C19': ('A lapped wrapper passes its worker the bound its plain counterpart validates against: a bound the counterpart never compares its position with is reported (R19.11).', ''),
 'C20': ('A refusal met while the open re-applies a half-rate request takes the request back from every link, link 0 included (R20.12, K4 index range of the reset calls).', ''),
}

def main():
    props = [json.loads(l)['id'] for l in open(os.path.join(V, 'properties.jsonl'))]
    checks = []
    for pid in props:
        if pid in CLAIMED:
            tech, text, note, ref = CLAIMED[pid]
            if pid in ADDENDA:
                text = text + ' ' + ADDENDA[pid][0]
                tech = tech + ADDENDA[pid][1]
            if pid in ADDENDA4:
                text = text + ' ' + ADDENDA4[pid][0]
                tech = tech + ADDENDA4[pid][1]
            if pid in ADDENDA5:
                text = text + ' ' + ADDENDA5[pid][0]
                tech = tech + ADDENDA5[pid][1]
            checks.append({
                'property_id': pid,
                'quick_cmd': f'./check {pid} --tier quick',
                'thorough_cmd': f'./check {pid} --tier thorough',
                'evidence_file': f'/verif/evidence/{pid}.json',
                'replay_cmd_template': f'./check {pid} --replay {{path}}',
                'engine': 'vx+rules',
                'level_claimed': {'category': 'other', 'text': text, 'design_ref': ref},
                'level_note': note,
                'technique': tech,
            })
    na = []
    for pid in props:
        if pid in CLAIMED:
            continue
        na.append({'property_id': pid, 'reason': NA.get(pid, PENDING)})
    m = {
        'version': 1,
        'setup_cmd': 'make -C /verif build/vx',
        'hooks': {'guard': 'XIPH_VORBIS_VERIF', 'enable': 'none: the analysis reads the source as built; no hooks are needed',
                  'baseline_off_cmd': 'ctest --test-dir /repo/_build -j8 --timeout 900',
                  'source_commits': [], 'add_only': True},
        'engines': [{'name': 'vx+rules', 'path': '/verif/engine',
                     'serves_properties': sorted(CLAIMED),
                     'kind_free_text': 'libTooling fact extractor (typed AST, clang CFG, resolved callees/slots, evaluated '
                                       'initialisers) + Python rule engines K1..K9 (call-graph, CFG path rules, effects, '
                                       'ranges, typestate, ownership, units, layout agreement, error discipline)'}],
        'checks': checks,
        'not_applicable': na,
        'notes': 'Static analysis only: nothing executes libvorbis. Exit 0 held / 1 violation / 2 analysis broken '
                 '(anchor vanished, parse error, instance floor, control not flagged).',
    }
    json.dump(m, open(os.path.join(V, 'MANIFEST.json'), 'w'), indent=1)
    print('MANIFEST.json:', len(checks), 'checks,', len(na), 'not applicable')

if __name__ == '__main__':
    main()
