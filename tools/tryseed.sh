#!/bin/bash
# tryseed.sh <seed> <property...>: run checks against a scratch worktree with the seed applied
S=$1; shift
d=$(mktemp -d); rmdir $d; git -C /repo worktree add --detach $d HEAD >/dev/null 2>&1
git -C $d apply /verif/seeded/$S/patch.diff || echo "PATCH FAILED"
for p in "$@"; do VERIF_REPO=$d VERIF_EVIDENCE_DIR=/tmp/ev /verif/check $p | grep -E "^lib|VIOL|$p \[|BROKEN" | cut -c1-260; done
git -C /repo worktree remove --force $d
