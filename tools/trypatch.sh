#!/bin/bash
# trypatch.sh <patch.diff> [tier]: run every claimed check against a scratch worktree of /repo HEAD with the patch applied
PATCH=$1; T=${2:-quick}
d=$(mktemp -d /tmp/trypatch_XXXXXX); rmdir $d; git -C /repo worktree add --detach $d HEAD >/dev/null 2>&1
git -C $d apply $PATCH || echo "PATCH FAILED"
ev=$(mktemp -d /tmp/trypatch_ev_XXXXXX)
VERIF_REPO=$d VERIF_EVIDENCE_DIR=$ev /verif/tools/runall.sh $T 2>&1 | grep -v conda | sort
[ -n "$KEEP" ] && echo "kept $d" || git -C /repo worktree remove --force $d
rm -rf $ev
