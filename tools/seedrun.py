#!/usr/bin/env python3
"""seedrun.py [seed names...] — applies each confirmed seeded defect to a scratch worktree of /repo HEAD and runs every
claimed check against it (VERIF_REPO points the checks at the scratch tree; evidence goes to a scratch directory).
Writes seeded/<id>/meta.json and seeded/RESULTS.json: which checks catch which seeds."""
import json, os, subprocess, sys, tempfile, shutil
V = os.path.dirname(os.path.dirname(os.path.abspath(__file__)))
man = json.load(open(os.path.join(V, 'MANIFEST.json')))
claimed = [c['property_id'] for c in man['checks']]
seeds = sorted(d for d in os.listdir(os.path.join(V, 'seeded')) if os.path.isdir(os.path.join(V, 'seeded', d)))
if len(sys.argv) > 1:
    seeds = [s for s in seeds if s in sys.argv[1:]]
res_path = os.path.join(V, 'seeded', 'RESULTS.json')
results = json.load(open(res_path)) if os.path.exists(res_path) else {}
head = subprocess.run(['git', '-C', '/repo', 'rev-parse', '--short', 'HEAD'], capture_output=True, text=True).stdout.strip()
for s in seeds:
    sd = os.path.join(V, 'seeded', s)
    conf = os.path.join(sd, 'confirm.txt')
    if not os.path.exists(conf) or not open(conf).read().startswith('CONFIRMED'):
        print(s, 'not confirmed, skipped'); continue
    wt = tempfile.mkdtemp(prefix='seedwt_')
    shutil.rmtree(wt)
    ev = tempfile.mkdtemp(prefix='seedev_')
    try:
        subprocess.run(['git', '-C', '/repo', 'worktree', 'add', '--detach', wt, 'HEAD'], check=True, capture_output=True)
        r = subprocess.run(['git', '-C', wt, 'apply', os.path.join(sd, 'patch.diff')], capture_output=True, text=True)
        if r.returncode != 0:
            print(s, 'patch does not apply to HEAD'); results[s] = {'applies': False}; continue
        env = dict(os.environ, VERIF_REPO=wt, VERIF_EVIDENCE_DIR=ev)
        caught, broken, lines = [], [], {}
        for pid in ([s[:3]] if os.environ.get('SEEDRUN_OWN') else claimed):
            p = subprocess.run([os.path.join(V, 'check'), pid], capture_output=True, text=True, env=env, cwd=V)
            if p.returncode == 1:
                caught.append(pid)
                lines[pid] = [l for l in p.stdout.splitlines() if ': R' in l and not l.startswith(('VIOLATION', 'KNOWN'))][:3]
            elif p.returncode == 2:
                broken.append(pid)
                lines[pid] = [l for l in p.stdout.splitlines() if 'ANALYSIS-BROKEN' in l][:1]
        prop = s[:3]
        results[s] = {'applies': True, 'property': prop, 'caught_by': caught, 'analysis_broken': broken,
                      'caught_by_own_property': prop in caught, 'reports': lines, 'repo_head': head}
        meta_p = os.path.join(sd, 'meta.json')
        meta = json.load(open(meta_p)) if os.path.exists(meta_p) else {}
        rd = open(os.path.join(sd, 'README.md')).read() if os.path.exists(os.path.join(sd, 'README.md')) else ''
        meta.update({'seed': s, 'breaks_property': prop, 'source': 'independent sub-agent given only the property text',
                     'confirmed': open(conf).read().strip(),
                     'what_was_run': 'tools/confirm_seed.sh (clean build + ctest with patch, demo with/without patch); tools/seedrun.py (all claimed checks on the patched tree)',
                     'needs_to_manifest': 'see README.md in this directory',
                     'checks_reporting_violation': caught, 'checks_analysis_broken': broken, 'reports': lines, 'repo_head': head})
        json.dump(meta, open(meta_p, 'w'), indent=1)
        print(s, 'caught by', caught or '-', ('broken: %s' % broken) if broken else '')
    finally:
        subprocess.run(['git', '-C', '/repo', 'worktree', 'remove', '--force', wt], capture_output=True)
        shutil.rmtree(wt, ignore_errors=True)
        shutil.rmtree(ev, ignore_errors=True)
    json.dump(results[s], open(os.path.join(sd, 'result.json'), 'w'), indent=1) if s in results else None
# merge the per-seed results (several seedrun processes may work side by side)
results = {}
for s in sorted(d for d in os.listdir(os.path.join(V, 'seeded')) if os.path.isdir(os.path.join(V, 'seeded', d))):
    rp = os.path.join(V, 'seeded', s, 'result.json')
    if os.path.exists(rp):
        results[s] = json.load(open(rp))
json.dump(results, open(res_path, 'w'), indent=1)
n = sum(1 for r in results.values() if r.get('caught_by'))
print(f'{n}/{len(results)} seeds caught by at least one check')
