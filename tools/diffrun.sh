#!/bin/bash
# diffrun.sh <harness.c> <treeA> <treeB> [extra gcc flags]: build a differential harness (written by a refactoring agent)
# against two trees and print the section lines that differ (diagnosis only)
H=$1; A=$2; Bt=$3; shift 3
W=$(mktemp -d /tmp/diffrun_XXXXXX)
for t in A B; do
  T=$A; [ $t = B ] && T=$Bt
  cmake -S $T -B $W/$t -G Ninja -DCMAKE_BUILD_TYPE=Release -DBUILD_SHARED_LIBS=OFF >/dev/null 2>&1 && ninja -C $W/$t vorbis vorbisenc vorbisfile >/dev/null 2>&1 || { echo "build $t failed"; rm -rf $W; exit 2; }
  gcc -O1 -I$T/include -I$T/lib $H "$@" $W/$t/lib/libvorbisfile.a $W/$t/lib/libvorbisenc.a $W/$t/lib/libvorbis.a -logg -lm -o $W/h$t 2>$W/cc$t.log || { echo "harness build failed"; head -5 $W/cc$t.log; rm -rf $W; exit 2; }
  ( cd $W && timeout 1200 ./h$t > out$t.txt 2>err$t.txt ); echo "run $t exit=$?"
done
diff $W/outA.txt $W/outB.txt | head -${DIFFLINES:-40}; echo "lines A=$(wc -l < $W/outA.txt) B=$(wc -l < $W/outB.txt) differing=$(diff $W/outA.txt $W/outB.txt | grep -c '^<')"
rm -rf $W
