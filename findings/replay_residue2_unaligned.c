/* repro_unchanged_res2.c - behaviour of the UNCHANGED tree that violates C01.
 *
 * Residue type 2 whose begin (or partition size) is not a multiple of the
 * channel count is de-interleaved into the wrong channel / wrong bin.
 *
 * Build:
 *   gcc -g -I<tree>/include repro_unchanged_res2.c <build>/lib/libvorbis.a -logg -lm -o repro
 * Exit 0: decoder follows the specification; exit 1: it does not (this is what
 * the unchanged tree does); exit 2: the hand-made stream was rejected.
 *
 * The stream is written by hand with libogg's bit packer:
 *   2 channels, block sizes 64/64, one mode, one mapping (no coupling, one
 *   submap), floor 1 with no partitions (two posts, a flat curve),
 *   residue type 2 with begin=1, end=63, partition size 2, two classes
 *   (class 0: nothing, class 1: one stage with book 1),
 *   book 0: dim 1, 2 entries, lengths 1,1, no value table (class book),
 *   book 1: dim 1, 4 entries, lengths 2,2,2,2, lattice table {0,1,2,3},
 *           min 0, delta 1.
 * Every audio packet codes exactly one non-zero residue scalar: the first
 * scalar of the first partition, i.e. element 1 of the interleaved vector.
 * Specification 8.6.5: element [i*ch+j] of the interleaved vector is bin i of
 * channel j, so element 1 is bin 0 of channel 1, and channel 0 has an all-zero
 * residue: channel 0 must decode to digital silence, channel 1 must not.
 */
#include <stdio.h>
#include <stdlib.h>
#include <string.h>
#include <unistd.h>
#include <ogg/ogg.h>
#include <vorbis/codec.h>

static void str(oggpack_buffer *o,const char *s){while(*s)oggpack_write(o,(unsigned char)*s++,8);}

static ogg_packet mk(oggpack_buffer *o,int bos,long no){
  ogg_packet op; memset(&op,0,sizeof(op));
  op.bytes=oggpack_bytes(o);
  op.packet=malloc(op.bytes); memcpy(op.packet,oggpack_get_buffer(o),op.bytes);
  op.b_o_s=bos; op.granulepos=-1; op.packetno=no;
  oggpack_writeclear(o);
  return op;
}

int main(void){
  oggpack_buffer o; ogg_packet h[3],a;
  vorbis_info vi; vorbis_comment vc; vorbis_dsp_state vd; vorbis_block vb;
  int i,k; double e0=0,e1=0; long got=0;
  alarm(30);

  /* identification */
  oggpack_writeinit(&o);
  oggpack_write(&o,1,8); str(&o,"vorbis");
  oggpack_write(&o,0,32); oggpack_write(&o,2,8); oggpack_write(&o,44100,32);
  oggpack_write(&o,0,32); oggpack_write(&o,0,32); oggpack_write(&o,0,32);
  oggpack_write(&o,6,4); oggpack_write(&o,6,4); oggpack_write(&o,1,1);
  h[0]=mk(&o,1,0);
  /* comment */
  oggpack_writeinit(&o);
  oggpack_write(&o,3,8); str(&o,"vorbis");
  oggpack_write(&o,0,32); oggpack_write(&o,0,32); oggpack_write(&o,1,1);
  h[1]=mk(&o,0,1);
  /* setup */
  oggpack_writeinit(&o);
  oggpack_write(&o,5,8); str(&o,"vorbis");
  oggpack_write(&o,2-1,8);                       /* two codebooks */
  /* book 0 */
  oggpack_write(&o,0x564342,24); oggpack_write(&o,1,16); oggpack_write(&o,2,24);
  oggpack_write(&o,0,1); oggpack_write(&o,0,1);
  oggpack_write(&o,0,5); oggpack_write(&o,0,5);  /* lengths 1,1 */
  oggpack_write(&o,0,4);                         /* no value table */
  /* book 1 */
  oggpack_write(&o,0x564342,24); oggpack_write(&o,1,16); oggpack_write(&o,4,24);
  oggpack_write(&o,0,1); oggpack_write(&o,0,1);
  for(i=0;i<4;i++)oggpack_write(&o,1,5);         /* lengths 2,2,2,2 */
  oggpack_write(&o,1,4);                         /* lattice table */
  oggpack_write(&o,0,32);                        /* min 0.0 */
  oggpack_write(&o,(788UL<<21)|1,32);            /* delta 1.0 */
  oggpack_write(&o,2-1,4); oggpack_write(&o,0,1);/* 2 bit values, no sequence */
  for(i=0;i<4;i++)oggpack_write(&o,i,2);
  /* time domain transforms: one placeholder */
  oggpack_write(&o,0,6); oggpack_write(&o,0,16);
  /* floors: one floor 1, no partitions, multiplier 1, rangebits 5 */
  oggpack_write(&o,0,6); oggpack_write(&o,1,16);
  oggpack_write(&o,0,5); oggpack_write(&o,0,2); oggpack_write(&o,5,4);
  /* residues: one residue 2 */
  oggpack_write(&o,0,6); oggpack_write(&o,2,16);
  oggpack_write(&o,1,24); oggpack_write(&o,63,24); oggpack_write(&o,2-1,24);
  oggpack_write(&o,2-1,6); oggpack_write(&o,0,8);
  oggpack_write(&o,0,3); oggpack_write(&o,0,1);  /* class 0: no stages */
  oggpack_write(&o,1,3); oggpack_write(&o,0,1);  /* class 1: stage 0 */
  oggpack_write(&o,1,8);                         /*   ... uses book 1 */
  /* mappings: one */
  oggpack_write(&o,0,6); oggpack_write(&o,0,16);
  oggpack_write(&o,0,1); oggpack_write(&o,0,1); oggpack_write(&o,0,2);
  oggpack_write(&o,0,8); oggpack_write(&o,0,8); oggpack_write(&o,0,8);
  /* modes: one, short block */
  oggpack_write(&o,0,6); oggpack_write(&o,0,1); oggpack_write(&o,0,16);
  oggpack_write(&o,0,16); oggpack_write(&o,0,8);
  oggpack_write(&o,1,1);
  h[2]=mk(&o,0,2);

  vorbis_info_init(&vi); vorbis_comment_init(&vc);
  for(i=0;i<3;i++){
    int r=vorbis_synthesis_headerin(&vi,&vc,&h[i]);
    if(r){printf("header %d rejected (%d)\n",i,r);return 2;}
  }
  if(vorbis_synthesis_init(&vd,&vi)){printf("synthesis_init failed\n");return 2;}
  vorbis_block_init(&vd,&vb);

  for(k=0;k<3;k++){
    float **pcm; int n;
    oggpack_writeinit(&o);
    oggpack_write(&o,0,1);                       /* audio packet; 0 mode bits */
    for(i=0;i<2;i++){                            /* floor, both channels */
      oggpack_write(&o,1,1); oggpack_write(&o,200,8); oggpack_write(&o,200,8);
    }
    oggpack_write(&o,1,1);                       /* partition 0: class 1 */
    oggpack_write(&o,1,1); oggpack_write(&o,1,1);/*   scalar 0 = entry 3 -> 3.0 */
    oggpack_write(&o,0,1); oggpack_write(&o,0,1);/*   scalar 1 = entry 0 -> 0.0 */
    for(i=1;i<31;i++)oggpack_write(&o,0,1);      /* partitions 1..30: class 0 */
    a=mk(&o,0,3+k);
    if((i=vorbis_synthesis(&vb,&a))){printf("audio packet rejected (%d)\n",i);return 2;}
    if(vorbis_synthesis_blockin(&vd,&vb)){printf("blockin failed\n");return 2;}
    while((n=vorbis_synthesis_pcmout(&vd,&pcm))>0){
      for(i=0;i<n;i++){e0+=(double)pcm[0][i]*pcm[0][i];e1+=(double)pcm[1][i]*pcm[1][i];}
      got+=n;
      vorbis_synthesis_read(&vd,n);
    }
    free(a.packet);
  }
  vorbis_block_clear(&vb); vorbis_dsp_clear(&vd);
  vorbis_comment_clear(&vc); vorbis_info_clear(&vi);
  for(i=0;i<3;i++)free(h[i].packet);
  printf("%ld samples per channel; energy channel 0 = %g, channel 1 = %g\n",got,e0,e1);
  printf("specification: channel 0 silent, channel 1 not silent\n");
  if(got==64 && e0==0. && e1>0.){printf("CONFORMS\n");return 0;}
  printf("DOES NOT CONFORM\n");
  return 1;
}
