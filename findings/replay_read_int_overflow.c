/* base_defect.c - reproduction of a defect of the UNCHANGED tree against C17:
 * decoded float samples far outside +-1 (>= 65536.0, i.e. sample*32768 does
 * not fit an int) are not clipped to the nearest representable value by
 * ov_read(); a large POSITIVE sample comes out as the most NEGATIVE integer.
 *
 * Build:
 *   gcc -g -I<tree>/include base_defect.c <build>/lib/libvorbisfile.a \
 *       <build>/lib/libvorbisenc.a <build>/lib/libvorbis.a -logg -lm -o base_defect
 *
 * The stream is a perfectly ordinary libvorbis encode whose setup header is
 * edited before it is put on the Ogg stream: the exponent of the q_min and
 * q_delta fields of every value-mapped codebook is raised by 2^30, so every
 * residue value (and therefore every output sample) is 2^30 times larger.
 * That is a valid Vorbis I stream; the float API decodes it to finite values
 * of magnitude ~1e8.  exit 0 = ov_read clips correctly, exit 1 = defect shown.
 */
#include <stdio.h>
#include <stdlib.h>
#include <string.h>
#include <math.h>
#include <unistd.h>
#include <ogg/ogg.h>
#include <vorbis/codec.h>
#include <vorbis/vorbisenc.h>
#include <vorbis/vorbisfile.h>

typedef struct { unsigned char *d; size_t n, cap; } mem_t;
typedef struct { const mem_t *m; size_t pos; } cur_t;
static void mput(mem_t *m, const void *p, size_t n){
  if(m->n+n>m->cap){ m->cap=(m->n+n)*2+4096; m->d=realloc(m->d,m->cap); if(!m->d)exit(3);}
  memcpy(m->d+m->n,p,n); m->n+=n;
}
static void pageout(mem_t *m, ogg_page *og){ mput(m,og->header,og->header_len); mput(m,og->body,og->body_len); }

/* LSb-first bit access, the packing Vorbis uses */
static unsigned long getbits(const unsigned char *b,long *pos,int n){
  unsigned long v=0; int i;
  for(i=0;i<n;i++,(*pos)++) v|=(unsigned long)((b[*pos>>3]>>(*pos&7))&1)<<i;
  return v;
}
static void setbits(unsigned char *b,long pos,int n,unsigned long v){
  int i;
  for(i=0;i<n;i++,pos++){ b[pos>>3]&=~(1<<(pos&7)); b[pos>>3]|=((v>>i)&1)<<(pos&7); }
}
static int ilog(unsigned long v){ int r=0; while(v){r++;v>>=1;} return r; }
static long maptype1_quantvals(long entries,int dim){
  long vals=(long)floor(pow((double)entries,1./dim));
  for(;;){
    double acc=1,acc1=1; int i;
    for(i=0;i<dim;i++){acc*=vals;acc1*=vals+1;}
    if(acc<=entries&&acc1>entries)return vals;
    if(acc>entries)vals--; else vals++;
  }
}
static unsigned long bump(unsigned long f,int k){
  unsigned long e=(f>>21)&0x3ff;
  if((f&0x1fffff)==0)return f;           /* zero mantissa stays zero */
  e+=k; if(e>0x3ff)e=0x3ff;
  return (f&~(0x3ffUL<<21))|(e<<21);
}
/* walk the codebooks of a setup header and scale all value mappings by 2^k */
static int patch_setup(unsigned char *p,long bytes,int k){
  long pos=7*8; int books,b,patched=0;
  if(bytes<8||p[0]!=5||memcmp(p+1,"vorbis",6))return -1;
  books=getbits(p,&pos,8)+1;
  for(b=0;b<books;b++){
    long entries,i; int dim,maptype;
    if(getbits(p,&pos,24)!=0x564342)return -1;
    dim=getbits(p,&pos,16); entries=getbits(p,&pos,24);
    if(!getbits(p,&pos,1)){
      int sparse=getbits(p,&pos,1);
      for(i=0;i<entries;i++) if(!sparse||getbits(p,&pos,1)) getbits(p,&pos,5);
    }else{
      getbits(p,&pos,5);
      for(i=0;i<entries;) i+=getbits(p,&pos,ilog(entries-i));
    }
    maptype=getbits(p,&pos,4);
    if(maptype==1||maptype==2){
      long at=pos,qv; unsigned long qmin=getbits(p,&pos,32),qdel=getbits(p,&pos,32); int quant;
      setbits(p,at,32,bump(qmin,k)); setbits(p,at+32,32,bump(qdel,k)); patched++;
      quant=getbits(p,&pos,4)+1; getbits(p,&pos,1);
      qv= maptype==1?maptype1_quantvals(entries,dim):entries*dim;
      pos+=qv*quant;
    }else if(maptype!=0)return -1;
    if(pos>bytes*8)return -1;
  }
  return patched;
}

static void encode(mem_t *out,int channels,long rate,long frames){
  vorbis_info vi; vorbis_comment vc; vorbis_dsp_state vd; vorbis_block vb;
  ogg_stream_state os; ogg_page og; ogg_packet op,h0,h1,h2;
  unsigned char *setup; long done=0; int eos=0,n;
  vorbis_info_init(&vi);
  if(vorbis_encode_init_vbr(&vi,channels,rate,0.4f))exit(3);
  vorbis_comment_init(&vc); vorbis_analysis_init(&vd,&vi); vorbis_block_init(&vd,&vb);
  ogg_stream_init(&os,0x4242);
  vorbis_analysis_headerout(&vd,&vc,&h0,&h1,&h2);
  setup=malloc(h2.bytes); memcpy(setup,h2.packet,h2.bytes);
  n=patch_setup(setup,h2.bytes,30);
  if(n<=0){ printf("could not patch the setup header (%d)\n",n); exit(3); }
  printf("scaled %d value-mapped codebooks by 2^30\n",n);
  h2.packet=setup;
  ogg_stream_packetin(&os,&h0); ogg_stream_packetin(&os,&h1); ogg_stream_packetin(&os,&h2);
  while(ogg_stream_flush(&os,&og)) pageout(out,&og);
  free(setup);
  while(!eos){
    if(done<frames){
      long m=frames-done>1024?1024:frames-done,i; int c;
      float **b=vorbis_analysis_buffer(&vd,m);
      for(i=0;i<m;i++)for(c=0;c<channels;c++) b[c][i]=(float)(0.5*sin(2*M_PI*(440.+110.*c)*(done+i)/rate));
      vorbis_analysis_wrote(&vd,m); done+=m;
    }else vorbis_analysis_wrote(&vd,0);
    while(vorbis_analysis_blockout(&vd,&vb)==1){
      vorbis_analysis(&vb,NULL); vorbis_bitrate_addblock(&vb);
      while(vorbis_bitrate_flushpacket(&vd,&op)){
        ogg_stream_packetin(&os,&op);
        while(!eos && ogg_stream_pageout(&os,&og)){ pageout(out,&og); if(ogg_page_eos(&og))eos=1; }
      }
    }
  }
  ogg_stream_clear(&os); vorbis_block_clear(&vb); vorbis_dsp_clear(&vd);
  vorbis_comment_clear(&vc); vorbis_info_clear(&vi);
}

static size_t cb_read(void *p,size_t sz,size_t nm,void *ds){
  cur_t *c=ds; size_t want=sz*nm, left=c->m->n-c->pos;
  if(want>left)want=left;
  memcpy(p,c->m->d+c->pos,want); c->pos+=want; return sz?want/sz:0;
}
static int cb_seek(void *ds,ogg_int64_t off,int wh){
  cur_t *c=ds; ogg_int64_t b= wh==SEEK_SET?0: wh==SEEK_CUR?(ogg_int64_t)c->pos:(ogg_int64_t)c->m->n;
  b+=off; if(b<0||b>(ogg_int64_t)c->m->n)return -1; c->pos=(size_t)b; return 0;
}
static long cb_tell(void *ds){ return (long)((cur_t*)ds)->pos; }

int main(void){
  mem_t m={0,0,0}; cur_t ca={&m,0},cb={&m,0};
  ov_callbacks cbs={cb_read,cb_seek,NULL,cb_tell};
  OggVorbis_File A,B; int word,bad=0; long shown=0;
  alarm(50);
  encode(&m,2,44100,8192);
  for(word=2;word>=1;word--){
    long frames=0,wrong=0; double peak=0;
    ca.pos=cb.pos=0;
    if(ov_open_callbacks(&ca,&A,NULL,0,cbs)||ov_open_callbacks(&cb,&B,NULL,0,cbs)){ printf("open failed\n"); return 3; }
    for(;;){
      signed char buf[4096]; float **p; long r,g,j; int c;
      r=ov_read(&A,(char*)buf,sizeof buf,0,word,1,NULL);
      if(r<=0)break;
      for(j=0;j<r/(2*word);j++){
        g=ov_read_float(&B,&p,1,NULL);
        if(g!=1){ printf("twin out of step\n"); return 3; }
        for(c=0;c<2;c++){
          double x=(double)p[c][0]*(word==2?32768.:128.),hi=word==2?32767:127,lo=word==2?-32768:-128,e;
          int got= word==2 ? (short)((unsigned char)buf[(j*2+c)*2]|((unsigned char)buf[(j*2+c)*2+1]<<8)) : buf[j*2+c];
          if(!isfinite(x))continue;
          e=rint(x); if(e>hi)e=hi; if(e<lo)e=lo;
          if(fabs(p[c][0])>peak)peak=fabs(p[c][0]);
          if(got!=(int)e){ wrong++; if(shown<6){ shown++; printf("  word=%d frame %ld ch %d: float %.6g -> expected %d, ov_read gave %d\n",word,frames+j,c,p[c][0],(int)e,got); } }
        }
      }
      frames+=r/(2*word);
    }
    printf("word=%d: %ld frames, peak |float| %.3g, %ld samples not clipped to the nearest representable value\n",word,frames,peak,wrong);
    if(wrong)bad=1;
    ov_clear(&A); ov_clear(&B);
  }
  free(m.d);
  return bad;
}
