/* throwaway replay for F15 (C03/C12): ov_pcm_seek's packet-discard loop crosses from link 0 into a multiplexed link 1
   whose first page is the BOS page of a non-vorbis stream.  The loop dumps the decoder (_decode_clear) and `continue`s
   because the serial number is not one of the vorbis links; if the next _get_next_page fails (I/O error) the loop breaks
   with the decoder cleared and the sample-discard loop calls vorbis_synthesis_pcmout on a zeroed vorbis_dsp_state.
   exit 0: every faulted seek returns (error or success); a crash (SIGSEGV) is the failure. */
#include <stdio.h>
#include <stdlib.h>
#include <string.h>
#include <math.h>
#include <errno.h>
#include <vorbis/vorbisenc.h>
#include <vorbis/vorbisfile.h>
static unsigned char buf[1<<22]; static long blen;
static void wr(ogg_page*og){memcpy(buf+blen,og->header,og->header_len);blen+=og->header_len;memcpy(buf+blen,og->body,og->body_len);blen+=og->body_len;}
static void foreign_bos(int serial){ogg_stream_state os;ogg_page og;ogg_packet op;memset(&op,0,sizeof op);static unsigned char d[8]="fishead";
  ogg_stream_init(&os,serial);op.packet=d;op.bytes=8;op.b_o_s=1;ogg_stream_packetin(&os,&op);while(ogg_stream_flush(&os,&og))wr(&og);ogg_stream_clear(&os);}
static void link_(int serial,int foreign,int secs){
  vorbis_info vi;vorbis_comment vc;vorbis_dsp_state vd;vorbis_block vb;ogg_stream_state os;ogg_page og;ogg_packet op,h,hc,hs;int i,eos=0;
  vorbis_info_init(&vi); if(vorbis_encode_init_vbr(&vi,1,8000,.4f))exit(9);
  vorbis_comment_init(&vc);vorbis_analysis_init(&vd,&vi);vorbis_block_init(&vd,&vb);ogg_stream_init(&os,serial);
  vorbis_analysis_headerout(&vd,&vc,&h,&hc,&hs);
  if(foreign)foreign_bos(foreign);
  ogg_stream_packetin(&os,&h);while(ogg_stream_flush(&os,&og))wr(&og);
  ogg_stream_packetin(&os,&hc);ogg_stream_packetin(&os,&hs);
  while(ogg_stream_flush(&os,&og))wr(&og);
  {float**b=vorbis_analysis_buffer(&vd,8000*secs);for(i=0;i<8000*secs;i++)b[0][i]=.5f*sinf(i*.05f);vorbis_analysis_wrote(&vd,8000*secs);vorbis_analysis_wrote(&vd,0);}
  while(vorbis_analysis_blockout(&vd,&vb)==1){vorbis_analysis(&vb,NULL);vorbis_bitrate_addblock(&vb);
    while(vorbis_bitrate_flushpacket(&vd,&op)){ogg_stream_packetin(&os,&op);while(!eos&&ogg_stream_pageout(&os,&og)){wr(&og);if(ogg_page_eos(&og))eos=1;}}}
  while(ogg_stream_flush(&os,&og))wr(&og);
  ogg_stream_clear(&os);vorbis_block_clear(&vb);vorbis_dsp_clear(&vd);vorbis_comment_clear(&vc);vorbis_info_clear(&vi);
}
typedef struct{long pos;long nread,fail_at;}src;
static size_t rd(void*p,size_t s,size_t m,void*v){src*x=v;long want=s*m;x->nread++;if(x->fail_at&&x->nread==x->fail_at){errno=EIO;return 0;}errno=0;
  if(want>blen-x->pos)want=blen-x->pos;memcpy(p,buf+x->pos,want);x->pos+=want;return want;}
static int sk(void*v,ogg_int64_t off,int wh){src*x=v;long np=wh==SEEK_SET?off:wh==SEEK_CUR?x->pos+off:blen+off;if(np<0||np>blen)return -1;x->pos=np;return 0;}
static long tl(void*v){src*x=v;return x->pos;}
int main(void){ link_(1,0,2); link_(2,77,2);
  ov_callbacks cb={rd,sk,NULL,tl}; src s; OggVorbis_File vf; int r; long k,base,n=0;
  memset(&s,0,sizeof s); r=ov_open_callbacks(&s,&vf,NULL,0,cb); if(r){printf("open=%d\n",r);return 2;}
  ogg_int64_t t0=ov_pcm_total(&vf,0); printf("links=%ld len0=%ld\n",ov_streams(&vf),(long)t0); ov_clear(&vf);
  for(ogg_int64_t tgt=t0-1;tgt>t0-600;tgt-=37){
    memset(&s,0,sizeof s); r=ov_open_callbacks(&s,&vf,NULL,0,cb); if(r)return 2;
    base=s.nread; r=ov_pcm_seek(&vf,tgt); long used=s.nread-base; ov_clear(&vf);
    for(k=1;k<=used+1;k++){ memset(&s,0,sizeof s); r=ov_open_callbacks(&s,&vf,NULL,0,cb); if(r)return 2;
      s.fail_at=s.nread+k; r=ov_pcm_seek(&vf,tgt); n++; ov_clear(&vf); } }
  printf("%ld faulted seeks returned\n",n); return 0; }
