/* throwaway replay for F6: hand-built 33-mode stream; 1-byte long-block packet makes trackonly fail */
#include <stdio.h>
#include <stdlib.h>
#include <string.h>
#include <ogg/ogg.h>
#include <vorbis/vorbisfile.h>
static FILE*out; static ogg_stream_state os; static long pno=0; static ogg_int64_t gp=0; static int lastbs=0;
static void str(oggpack_buffer*o,const char*s){while(*s)oggpack_write(o,*s++,8);}
static void wr(ogg_page*og){fwrite(og->header,1,og->header_len,out);fwrite(og->body,1,og->body_len,out);}
static void flush(void){ogg_page og;while(ogg_stream_flush(&os,&og))wr(&og);}
static void put(oggpack_buffer*o,int bos,int eos,ogg_int64_t g){ogg_packet op;memset(&op,0,sizeof op);op.packet=oggpack_get_buffer(o);op.bytes=oggpack_bytes(o);op.b_o_s=bos;op.e_o_s=eos;op.granulepos=g;op.packetno=pno++;ogg_stream_packetin(&os,&op);}
static void audio(int longp,int bad,int eos){oggpack_buffer o;int bs=longp?128:64;oggpack_writeinit(&o);
  if(bad){oggpack_write(&o,0x82,8);}else if(longp){oggpack_write(&o,0,1);oggpack_write(&o,1,6);oggpack_write(&o,lastbs==128,1);oggpack_write(&o,1,1);oggpack_write(&o,0,1);}
  else {oggpack_write(&o,0,1);oggpack_write(&o,0,6);oggpack_write(&o,0,1);}
  if(lastbs)gp+=lastbs/4+bs/4; lastbs=bs; put(&o,0,eos,gp); oggpack_writeclear(&o);}
int main(int argc,char**argv){int i;oggpack_buffer o;out=fopen(argv[1],"wb");ogg_stream_init(&os,77);
  oggpack_writeinit(&o);oggpack_write(&o,1,8);str(&o,"vorbis");oggpack_write(&o,0,32);oggpack_write(&o,1,8);oggpack_write(&o,8000,32);oggpack_write(&o,0,32);oggpack_write(&o,0,32);oggpack_write(&o,0,32);oggpack_write(&o,6,4);oggpack_write(&o,7,4);oggpack_write(&o,1,1);put(&o,1,0,0);oggpack_writeclear(&o);flush();
  oggpack_writeinit(&o);oggpack_write(&o,3,8);str(&o,"vorbis");oggpack_write(&o,0,32);oggpack_write(&o,0,32);oggpack_write(&o,1,1);put(&o,0,0,0);oggpack_writeclear(&o);
  oggpack_writeinit(&o);oggpack_write(&o,5,8);str(&o,"vorbis");oggpack_write(&o,0,8);
  oggpack_write(&o,0x564342,24);oggpack_write(&o,1,16);oggpack_write(&o,1,24);oggpack_write(&o,0,1);oggpack_write(&o,0,1);oggpack_write(&o,0,5);oggpack_write(&o,0,4);
  oggpack_write(&o,0,6);oggpack_write(&o,0,16);
  oggpack_write(&o,0,6);oggpack_write(&o,1,16);oggpack_write(&o,0,5);oggpack_write(&o,0,2);oggpack_write(&o,5,4);
  oggpack_write(&o,0,6);oggpack_write(&o,0,16);oggpack_write(&o,0,24);oggpack_write(&o,0,24);oggpack_write(&o,0,24);oggpack_write(&o,0,6);oggpack_write(&o,0,8);oggpack_write(&o,0,3);oggpack_write(&o,0,1);
  oggpack_write(&o,0,6);oggpack_write(&o,0,16);oggpack_write(&o,0,1);oggpack_write(&o,0,1);oggpack_write(&o,0,2);oggpack_write(&o,0,8);oggpack_write(&o,0,8);oggpack_write(&o,0,8);
  oggpack_write(&o,32,6);for(i=0;i<33;i++){oggpack_write(&o,i>0,1);oggpack_write(&o,0,16);oggpack_write(&o,0,16);oggpack_write(&o,0,8);}
  oggpack_write(&o,1,1);put(&o,0,0,0);oggpack_writeclear(&o);flush();
  for(i=0;i<5;i++)audio(0,0,0); audio(1,0,0); flush();           /* page 2: S S S S S L */
  audio(1,0,0);audio(1,0,0);audio(1,0,0);audio(1,1,0); flush();  /* page 3: L L L BAD  */
  for(i=0;i<6;i++)audio(1,0,0); flush();                          /* page 4 */
  for(i=0;i<6;i++)audio(1,0,i==5); flush();                       /* page 5 eos */
  fclose(out); printf("built, last granule %ld\n",(long)gp);
  OggVorbis_File vf;int r=ov_fopen(argv[1],&vf);printf("open=%d links=%ld total=%ld\n",r,ov_streams(&vf),(long)ov_pcm_total(&vf,-1));if(r)return 1;
  {float**pcm;int bs,k;long n;for(k=0;k<5;k++){n=ov_read_float(&vf,&pcm,4096,&bs);printf("read %ld tell=%ld\n",n,(long)ov_pcm_tell(&vf));}}
  r=ov_pcm_seek(&vf,atol(argv[2]));printf("seek=%d tell=%ld\n",r,(long)ov_pcm_tell(&vf));
  ov_clear(&vf);return 0;}
