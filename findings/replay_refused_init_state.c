/* Unchanged tree: packet-level calls on a decoder whose set-up was refused.
   Each call is made in a forked child; the parent reports how it ended. */
#include <stdio.h>
#include <stdlib.h>
#include <string.h>
#include <unistd.h>
#include <sys/wait.h>
#include <ogg/ogg.h>
#include <vorbis/codec.h>

static void put_str(oggpack_buffer *o,const char *s){
  while(*s)oggpack_write(o,(unsigned char)*s++,8);
}

static int report(const char *what,pid_t pid){
  int st;
  waitpid(pid,&st,0);
  if(WIFSIGNALED(st)){
    printf("%-28s killed by signal %d\n",what,WTERMSIG(st));
    return 1;
  }
  {int v=WEXITSTATUS(st); if(v>127)v-=256; else if(v>=64)v-=256; printf("%-28s returned %d\n",what,v);}
  return 0;
}

int main(void){
  vorbis_info vi;
  vorbis_comment vc;
  vorbis_dsp_state vd;
  vorbis_block vb;
  ogg_packet id,audio;
  oggpack_buffer o;
  unsigned char zero[8]={0};
  int ret,bad=0;
  pid_t pid;

  oggpack_writeinit(&o);
  oggpack_write(&o,1,8); put_str(&o,"vorbis");
  oggpack_write(&o,0,32);
  oggpack_write(&o,1,8);
  oggpack_write(&o,44100,32);
  oggpack_write(&o,0,32); oggpack_write(&o,0,32); oggpack_write(&o,0,32);
  oggpack_write(&o,8,4); oggpack_write(&o,11,4);
  oggpack_write(&o,1,1);
  memset(&id,0,sizeof(id));
  id.packet=oggpack_get_buffer(&o);
  id.bytes=oggpack_bytes(&o);
  id.b_o_s=1;

  memset(&audio,0,sizeof(audio));
  audio.packet=zero;
  audio.bytes=sizeof(zero);
  audio.packetno=3;

  vorbis_info_init(&vi);
  vorbis_comment_init(&vc);
  ret=vorbis_synthesis_headerin(&vi,&vc,&id);
  printf("headerin(id)                 returned %d\n",ret);
  /* the comment and set-up headers never arrive (or were rejected) */
  ret=vorbis_synthesis_init(&vd,&vi);
  printf("synthesis_init               returned %d (refused)\n",ret);
  vorbis_block_init(&vd,&vb);

  if(!(pid=fork()))_exit(vorbis_synthesis(&vb,&audio)&0xff);
  bad+=report("vorbis_synthesis",pid);
  if(!(pid=fork()))_exit(vorbis_synthesis_trackonly(&vb,&audio)&0xff);
  bad+=report("vorbis_synthesis_trackonly",pid);
  if(!(pid=fork()))_exit(vorbis_synthesis_blockin(&vd,&vb)&0xff);
  bad+=report("vorbis_synthesis_blockin",pid);
  if(!(pid=fork())){float **p;_exit(vorbis_synthesis_pcmout(&vd,&p)&0xff);}
  bad+=report("vorbis_synthesis_pcmout",pid);
  if(!(pid=fork())){float **p;_exit(vorbis_synthesis_lapout(&vd,&p)&0xff);}
  bad+=report("vorbis_synthesis_lapout",pid);
  if(!(pid=fork()))_exit(vorbis_synthesis_read(&vd,0)&0xff);
  bad+=report("vorbis_synthesis_read",pid);
  if(!(pid=fork()))_exit(vorbis_synthesis_restart(&vd)&0xff);
  bad+=report("vorbis_synthesis_restart",pid);

  vorbis_block_clear(&vb);
  vorbis_dsp_clear(&vd);
  vorbis_comment_clear(&vc);
  vorbis_info_clear(&vi);
  oggpack_writeclear(&o);
  return bad?1:0;
}
