/* unchanged tree: ov_read rounds with whatever rounding mode the caller has
   set in MXCSR (x86_64 / SSE2 build); see UNCHANGED_DEFECT.md */
#include <stdio.h>
#include <stdlib.h>
#include <string.h>
#include <math.h>
#include <fenv.h>
#include <vorbis/codec.h>
#include <vorbis/vorbisenc.h>
#include <vorbis/vorbisfile.h>

typedef struct { unsigned char *d; size_t len, cap; } mem_t;
typedef struct { mem_t *m; size_t pos; } src_t;

static void mput(mem_t *m,const void *p,size_t n){
  if(m->len+n>m->cap){ m->cap=(m->len+n)*2; m->d=realloc(m->d,m->cap); }
  memcpy(m->d+m->len,p,n); m->len+=n;
}
static size_t rd(void *p,size_t s,size_t n,void *ds){
  src_t *c=ds; size_t w=s*n;
  if(w>c->m->len-c->pos)w=c->m->len-c->pos;
  memcpy(p,c->m->d+c->pos,w); c->pos+=w; return w/s;
}
static int sk(void *ds,ogg_int64_t o,int wh){
  src_t *c=ds;
  ogg_int64_t b=(wh==SEEK_SET?0:wh==SEEK_CUR?(ogg_int64_t)c->pos:(ogg_int64_t)c->m->len)+o;
  if(b<0||b>(ogg_int64_t)c->m->len)return -1;
  c->pos=(size_t)b; return 0;
}
static long tl(void *ds){ return (long)((src_t*)ds)->pos; }
static const ov_callbacks CB={rd,sk,NULL,tl};

/* one logical stream appended to out */
static void encode_link(mem_t *out,int ch,long rate,float q,long n,int serial){
  vorbis_info vi; vorbis_comment vc; vorbis_dsp_state vd; vorbis_block vb;
  ogg_stream_state os; ogg_page og; ogg_packet op,h1,h2,h3;
  long done=0; int eos=0,i; long j;

  vorbis_info_init(&vi);
  if(vorbis_encode_init_vbr(&vi,ch,rate,q)){ fprintf(stderr,"encoder init failed\n"); exit(99); }
  vorbis_comment_init(&vc);
  vorbis_analysis_init(&vd,&vi);
  vorbis_block_init(&vd,&vb);
  ogg_stream_init(&os,serial);
  vorbis_analysis_headerout(&vd,&vc,&h1,&h2,&h3);
  ogg_stream_packetin(&os,&h1); ogg_stream_packetin(&os,&h2); ogg_stream_packetin(&os,&h3);
  while(ogg_stream_flush(&os,&og)){ mput(out,og.header,og.header_len); mput(out,og.body,og.body_len); }

  while(!eos){
    long c=n-done; if(c>1024)c=1024;
    if(c>0){
      float **b=vorbis_analysis_buffer(&vd,c);
      for(i=0;i<ch;i++)
        for(j=0;j<c;j++)
          b[i][j]=0.8f*(float)sin((done+j)*(0.031+0.017*i)+i);
    }
    vorbis_analysis_wrote(&vd,c); done+=c;
    while(vorbis_analysis_blockout(&vd,&vb)==1){
      vorbis_analysis(&vb,NULL);
      vorbis_bitrate_addblock(&vb);
      while(vorbis_bitrate_flushpacket(&vd,&op)){
        ogg_stream_packetin(&os,&op);
        while(!eos){
          if(!ogg_stream_pageout(&os,&og))break;
          mput(out,og.header,og.header_len); mput(out,og.body,og.body_len);
          if(ogg_page_eos(&og))eos=1;
        }
      }
    }
  }
  ogg_stream_clear(&os); vorbis_block_clear(&vb); vorbis_dsp_clear(&vd);
  vorbis_comment_clear(&vc); vorbis_info_clear(&vi);
}


/* nearest integer of an exactly representable value, computed without
   relying on the current rounding mode (f+0.5 is exact in double) */
static int nearest(float f){
  double d=floor((double)f+0.5);
  if((double)f+0.5==d && fmod(d,2.)!=0.)d-=1.; /* ties to even, as rint */
  return (int)d;
}

static long compare(mem_t *m,int mode,const char *name){
  OggVorbis_File a,b; src_t s1={m,0},s2={m,0};
  short buf[2048]; float **pcm; long have=0,used=0,bad=0,total=0; int bs;
  fesetround(mode);
  if(ov_open_callbacks(&s1,&a,NULL,0,CB)||ov_open_callbacks(&s2,&b,NULL,0,CB))exit(99);
  for(;;){
    long n=ov_read(&a,(char *)buf,sizeof(buf),0,2,1,&bs),f;
    if(n<=0)break;
    for(f=0;f<n/2;f++){
      float x;
      if(used==have){ have=ov_read_float(&b,&pcm,4096,&bs); used=0; if(have<=0)exit(98); }
      x=pcm[0][used++]*32768.f;        /* exact: a power of two */
      if(x>=-32768.f && x<=32767.f){
        total++;
        if(buf[f]!=nearest(x)){
          if(!bad)printf("  %s: float %.6f*32768 = %.4f reads as %d, nearest is %d\n",
                         name,x/32768.f,x,buf[f],nearest(x));
          bad++;
        }
      }
    }
  }
  ov_clear(&a); ov_clear(&b);
  fesetround(FE_TONEAREST);
  printf("%-14s %ld of %ld samples are not the nearest integer\n",name,bad,total);
  return bad;
}

int main(void){
  mem_t m={0,0,0}; long bad=0;
  encode_link(&m,1,44100,0.3f,15000,0x1001);
  bad+=compare(&m,FE_TONEAREST,"FE_TONEAREST");
  bad+=compare(&m,FE_TOWARDZERO,"FE_TOWARDZERO");
  bad+=compare(&m,FE_UPWARD,"FE_UPWARD");
  bad+=compare(&m,FE_DOWNWARD,"FE_DOWNWARD");
  return bad?1:0;
}
