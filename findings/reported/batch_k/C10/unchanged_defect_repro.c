/* shared demo harness: builds Ogg Vorbis streams in memory and decodes
   them through the packet API and through vorbisfile */
#include <stdio.h>
#include <stdlib.h>
#include <string.h>
#include <math.h>
#include <errno.h>
#include <ogg/ogg.h>
#include <vorbis/codec.h>
#include <vorbis/vorbisenc.h>
#include <vorbis/vorbisfile.h>

typedef struct { unsigned char *d; size_t n, cap; } buf_t;

static void buf_add(buf_t *b, const void *p, size_t n){
  if(b->n+n>b->cap){
    b->cap=(b->n+n)*2+4096;
    b->d=realloc(b->d,b->cap);
  }
  memcpy(b->d+b->n,p,n);
  b->n+=n;
}
static void buf_page(buf_t *b, ogg_page *og){
  buf_add(b,og->header,og->header_len);
  buf_add(b,og->body,og->body_len);
}

typedef struct { float *d; size_t n, cap; } pcm_t;   /* interleaved */
static void pcm_add(pcm_t *p, float **ch, int channels, int samples){
  int i,j;
  size_t need=p->n+(size_t)channels*samples;
  if(need>p->cap){
    p->cap=need*2+4096;
    p->d=realloc(p->d,p->cap*sizeof(float));
  }
  for(j=0;j<samples;j++)
    for(i=0;i<channels;i++)
      p->d[p->n++]=ch[i][j];
}

/* encode one logical stream (one chain link) and append its pages to out.
   short_log2: if nonzero, the identification header is rewritten to
   announce a short block of 1<<short_log2 samples */
static void make_link(buf_t *out, long serial, int channels, long rate,
                      long nsamples, float quality, double freq, int short_log2){
  vorbis_info vi; vorbis_comment vc; vorbis_dsp_state vd; vorbis_block vb;
  ogg_stream_state os; ogg_page og; ogg_packet op;
  ogg_packet h0,h1,h2;
  unsigned char idcopy[64];
  long done=0;
  int eos=0;

  vorbis_info_init(&vi);
  if(vorbis_encode_init_vbr(&vi,channels,rate,quality)){
    fprintf(stderr,"encoder init failed\n"); exit(2);
  }
  vorbis_comment_init(&vc);
  vorbis_comment_add_tag(&vc,"TITLE","demo");
  vorbis_analysis_init(&vd,&vi);
  vorbis_block_init(&vd,&vb);
  ogg_stream_init(&os,serial);

  vorbis_analysis_headerout(&vd,&vc,&h0,&h1,&h2);
  if(short_log2){
    memcpy(idcopy,h0.packet,h0.bytes);
    idcopy[28]=(idcopy[28]&0xf0)|(short_log2&0x0f);
    h0.packet=idcopy;
  }
  ogg_stream_packetin(&os,&h0);
  ogg_stream_packetin(&os,&h1);
  ogg_stream_packetin(&os,&h2);
  while(ogg_stream_flush(&os,&og)) buf_page(out,&og);

  while(!eos){
    long n=nsamples-done;
    if(n>1024)n=1024;
    if(n>0){
      float **b=vorbis_analysis_buffer(&vd,n);
      long i; int c;
      for(i=0;i<n;i++){
        double t=(double)(done+i)/rate;
        for(c=0;c<channels;c++){
          double v=0.4*sin(2*M_PI*freq*(c+1)*t);
          /* a click now and then so that short blocks show up */
          if(((done+i)%3000)==1500) v+=0.5;
          b[c][i]=v;
        }
      }
      vorbis_analysis_wrote(&vd,n);
      done+=n;
    }else
      vorbis_analysis_wrote(&vd,0);

    while(vorbis_analysis_blockout(&vd,&vb)==1){
      vorbis_analysis(&vb,NULL);
      vorbis_bitrate_addblock(&vb);
      while(vorbis_bitrate_flushpacket(&vd,&op)){
        ogg_stream_packetin(&os,&op);
        while(!eos){
          if(!ogg_stream_pageout(&os,&og))break;
          buf_page(out,&og);
          if(ogg_page_eos(&og))eos=1;
        }
      }
    }
  }
  ogg_stream_clear(&os);
  vorbis_block_clear(&vb);
  vorbis_dsp_clear(&vd);
  vorbis_comment_clear(&vc);
  vorbis_info_clear(&vi);
}

/* ---- reference: packet level decode of a (possibly chained) stream ---- */
static int decode_packets(const buf_t *in, size_t chunk, pcm_t *out){
  ogg_sync_state oy; ogg_stream_state os; ogg_page og; ogg_packet op;
  vorbis_info vi; vorbis_comment vc; vorbis_dsp_state vd; vorbis_block vb;
  size_t pos=0;
  int have_os=0, headers=0, ready=0;

  ogg_sync_init(&oy);
  while(1){
    int r=ogg_sync_pageout(&oy,&og);
    if(r<0){ fprintf(stderr,"packet decode: sync hole\n"); return -1; }
    if(r==0){
      size_t n=in->n-pos;
      char *b;
      if(n==0)break;
      if(n>chunk)n=chunk;
      b=ogg_sync_buffer(&oy,n);
      memcpy(b,in->d+pos,n);
      ogg_sync_wrote(&oy,n);
      pos+=n;
      continue;
    }
    if(ogg_page_bos(&og)){
      if(ready){ vorbis_block_clear(&vb); vorbis_dsp_clear(&vd); ready=0; }
      if(have_os){
        ogg_stream_clear(&os);
        vorbis_comment_clear(&vc); vorbis_info_clear(&vi);
      }
      ogg_stream_init(&os,ogg_page_serialno(&og));
      vorbis_info_init(&vi); vorbis_comment_init(&vc);
      have_os=1; headers=0;
    }
    if(!have_os)continue;
    if(ogg_stream_pagein(&os,&og)<0)continue; /* some other stream */
    while(1){
      r=ogg_stream_packetout(&os,&op);
      if(r==0)break;
      if(r<0){ fprintf(stderr,"packet decode: hole\n"); return -1; }
      if(headers<3){
        if(vorbis_synthesis_headerin(&vi,&vc,&op)<0){
          fprintf(stderr,"packet decode: bad header\n"); return -1;
        }
        if(++headers==3){
          if(vorbis_synthesis_init(&vd,&vi)){
            fprintf(stderr,"packet decode: init failed\n"); return -1;
          }
          vorbis_block_init(&vd,&vb);
          ready=1;
        }
        continue;
      }
      if(vorbis_synthesis(&vb,&op)==0)
        vorbis_synthesis_blockin(&vd,&vb);
      {
        float **pcm; int s;
        while((s=vorbis_synthesis_pcmout(&vd,&pcm))>0){
          pcm_add(out,pcm,vi.channels,s);
          vorbis_synthesis_read(&vd,s);
        }
      }
    }
  }
  if(ready){ vorbis_block_clear(&vb); vorbis_dsp_clear(&vd); }
  if(have_os){
    ogg_stream_clear(&os);
    vorbis_comment_clear(&vc); vorbis_info_clear(&vi);
  }
  ogg_sync_clear(&oy);
  return 0;
}

/* ---- memory data source with a configurable delivery size ---- */
typedef struct { const buf_t *b; size_t pos; size_t chunk; } src_t;

static size_t src_read(void *ptr,size_t size,size_t nmemb,void *ds){
  src_t *s=ds;
  size_t want=size*nmemb, left=s->b->n-s->pos;
  if(want>s->chunk)want=s->chunk;
  if(want>left)want=left;
  memcpy(ptr,s->b->d+s->pos,want);
  s->pos+=want;
  return want;
}
static int src_seek(void *ds,ogg_int64_t off,int whence){
  src_t *s=ds;
  ogg_int64_t p;
  if(whence==SEEK_SET)p=off;
  else if(whence==SEEK_CUR)p=(ogg_int64_t)s->pos+off;
  else p=(ogg_int64_t)s->b->n+off;
  if(p<0||p>(ogg_int64_t)s->b->n)return -1;
  s->pos=p;
  return 0;
}
static long src_tell(void *ds){ return ((src_t *)ds)->pos; }

/* decode everything through vorbisfile with ov_read_float */
static int decode_vf_float(const buf_t *in,int seekable,size_t chunk,int maxlen,pcm_t *out){
  OggVorbis_File vf;
  src_t s;
  ov_callbacks cb;
  int ret;
  s.b=in; s.pos=0; s.chunk=chunk;
  cb.read_func=src_read;
  cb.seek_func=seekable?src_seek:NULL;
  cb.close_func=NULL;
  cb.tell_func=seekable?src_tell:NULL;
  ret=ov_open_callbacks(&s,&vf,NULL,0,cb);
  if(ret){
    fprintf(stderr,"ov_open_callbacks (%s, %lu byte reads) failed: %d\n",
            seekable?"seekable":"streaming",(unsigned long)chunk,ret);
    return -1;
  }
  while(1){
    float **pcm; int sec;
    long n=ov_read_float(&vf,&pcm,maxlen,&sec);
    if(n==0)break;
    if(n<0){
      fprintf(stderr,"ov_read_float (%s, %lu byte reads, max %d) reported %ld\n",
              seekable?"seekable":"streaming",(unsigned long)chunk,maxlen,n);
      ov_clear(&vf);
      return -1;
    }
    pcm_add(out,pcm,ov_info(&vf,-1)->channels,n);
  }
  ov_clear(&vf);
  return 0;
}

static int pcm_same(const pcm_t *a,const pcm_t *b,const char *what){
  if(a->n!=b->n){
    fprintf(stderr,"%s: %lu values, reference has %lu\n",what,
            (unsigned long)b->n,(unsigned long)a->n);
    return 0;
  }
  if(a->n && memcmp(a->d,b->d,a->n*sizeof(float))){
    size_t i;
    for(i=0;i<a->n;i++)if(memcmp(a->d+i,b->d+i,sizeof(float)))break;
    fprintf(stderr,"%s: differs from the reference at value %lu\n",what,(unsigned long)i);
    return 0;
  }
  return 1;
}
/* split a buffer into pages */
typedef struct { size_t off,len; int bos,eos; } pg_t;
static int split(const buf_t *b,pg_t *pg,int max){
  ogg_sync_state oy; ogg_page og; int n=0; size_t off=0;
  ogg_sync_init(&oy);
  memcpy(ogg_sync_buffer(&oy,b->n),b->d,b->n); ogg_sync_wrote(&oy,b->n);
  while(ogg_sync_pageout(&oy,&og)==1 && n<max){
    pg[n].off=off; pg[n].len=og.header_len+og.body_len;
    pg[n].bos=ogg_page_bos(&og); pg[n].eos=ogg_page_eos(&og);
    off+=pg[n].len; n++;
  }
  ogg_sync_clear(&oy);
  return n;
}
static void foreign(buf_t *out,long serial,int npk){
  ogg_stream_state os; ogg_page og; ogg_packet op; int i;
  unsigned char data[64];
  ogg_stream_init(&os,serial);
  for(i=0;i<npk;i++){
    memset(data,0x55+i,sizeof(data)); memcpy(data,"fakehdr",7);
    memset(&op,0,sizeof(op));
    op.packet=data; op.bytes=40; op.b_o_s=(i==0); op.e_o_s=(i==npk-1);
    op.granulepos=i; op.packetno=i;
    ogg_stream_packetin(&os,&op);
    while(ogg_stream_flush(&os,&og))buf_page(out,&og);
  }
  ogg_stream_clear(&os);
}
/* between!=0: the foreign stream's data page sits between the Vorbis
   headers and the (only) Vorbis audio page; between==0: it follows it */
static int run(long ns,int between){
  buf_t v={0},f={0},m={0}; pg_t vp[64],fp[64]; int nv,nf,i;
  pcm_t ref={0},q={0},r={0};
  make_link(&v,11,1,44100,ns,0.3f,440.,0);
  foreign(&f,22,3);
  nv=split(&v,vp,64); nf=split(&f,fp,64);
  fprintf(stderr,"%ld samples, foreign page %s the audio: %d vorbis pages, %d foreign pages\n",ns,between?"before":"after",nv,nf);
  /* BOS(v) BOS(f) v-headers f-data v-audio... f-eos */
  buf_add(&m,v.d+vp[0].off,vp[0].len);
  buf_add(&m,f.d+fp[0].off,fp[0].len);
  for(i=1;i<nv && i<2;i++) buf_add(&m,v.d+vp[i].off,vp[i].len); /* header page(s) */
  /* header may take more than one page: find first audio page = pages after headers; assume headers = pages 0..1 */
  if(between)buf_add(&m,f.d+fp[1].off,fp[1].len);
  for(;i<nv;i++) buf_add(&m,v.d+vp[i].off,vp[i].len);
  if(!between)buf_add(&m,f.d+fp[1].off,fp[1].len);
  buf_add(&m,f.d+fp[2].off,fp[2].len);
  if(decode_packets(&v,4096,&ref))return 1;
  fprintf(stderr,"ref %lu\n",(unsigned long)ref.n);
  if(decode_vf_float(&m,0,2048,4096,&q))return 1;
  if(decode_vf_float(&m,1,2048,4096,&r))return 1;
  fprintf(stderr,"streaming %lu seekable %lu\n",(unsigned long)q.n,(unsigned long)r.n);
  return !(pcm_same(&ref,&q,"streaming")&&pcm_same(&ref,&r,"seekable"));
}
int main(void){
  int bad=0;
  bad|=run(200000,1);   /* several audio pages: fine */
  bad|=run(500,0);      /* one audio page, foreign page after it: fine */
  bad|=run(500,1);      /* one audio page, foreign page before it: seekable mode returns no audio */
  if(bad){ fprintf(stderr,"DEFECT REPRODUCED\n"); return 1; }
  printf("all modes agree\n");
  return 0;
}
