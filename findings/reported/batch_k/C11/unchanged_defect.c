/* Unchanged tree: a packet lost inside the LAST page of a stream changes
   what the final packet hands out (the end-of-stream trim is not applied),
   although the final packet is the second packet after the loss.

   Stream from the bundled encoder, decoded through vorbis_synthesis /
   vorbis_synthesis_blockin / vorbis_synthesis_pcmout; granule positions only
   on every 8th packet and on the last one, as Ogg pages deliver them.

   Exit 0: no difference.  Exit 1: difference (observed on the unchanged tree). */
#include <stdio.h>
#include <stdlib.h>
#include <string.h>
#include <math.h>
#include <vorbis/codec.h>
#include <vorbis/vorbisenc.h>

typedef struct { unsigned char *data; long bytes; ogg_int64_t gp; int eos; } pkt;
typedef struct { pkt *p; int n; } plist;

static void padd(plist *l,ogg_packet *op){
  pkt *k;
  l->p=realloc(l->p,sizeof(pkt)*(l->n+1));
  k=&l->p[l->n++];
  k->data=malloc(op->bytes?op->bytes:1);
  memcpy(k->data,op->packet,op->bytes);
  k->bytes=op->bytes; k->gp=op->granulepos; k->eos=op->e_o_s;
}

static unsigned rs=4711;
static float frand(void){
  rs=rs*1103515245u+12345u;
  return ((rs>>8)&0xffff)/32768.f-1.f;
}

static void encode(plist *hdr,plist *aud){
  vorbis_info vi; vorbis_comment vc; vorbis_dsp_state vd; vorbis_block vb;
  ogg_packet op,h[3];
  long off=0,total=44100*2+333;
  int done=0,i;
  vorbis_info_init(&vi);
  if(vorbis_encode_init_vbr(&vi,1,44100,0.4f)){fprintf(stderr,"encoder init failed\n");exit(2);}
  vorbis_comment_init(&vc);
  vorbis_analysis_init(&vd,&vi);
  vorbis_block_init(&vd,&vb);
  vorbis_analysis_headerout(&vd,&vc,&h[0],&h[1],&h[2]);
  for(i=0;i<3;i++)padd(hdr,&h[i]);
  while(!done){
    if(off<total){
      int n=1024;
      float **b;
      if(off+n>total)n=total-off;
      b=vorbis_analysis_buffer(&vd,n);
      for(i=0;i<n;i++)b[0][i]=0.4f*sin((off+i)*0.03)+0.05f*frand();
      vorbis_analysis_wrote(&vd,n);
      off+=n;
    }else{
      vorbis_analysis_wrote(&vd,0);
      done=1;
    }
    while(vorbis_analysis_blockout(&vd,&vb)==1){
      vorbis_analysis(&vb,NULL);
      vorbis_bitrate_addblock(&vb);
      while(vorbis_bitrate_flushpacket(&vd,&op))padd(aud,&op);
    }
  }
  vorbis_block_clear(&vb);
  vorbis_dsp_clear(&vd);
  vorbis_comment_clear(&vc);
  vorbis_info_clear(&vi);
}

typedef struct { float *s; int n; } pout;

/* feed the packets idx[0..steps-1] (indices into aud) to one decoder;
   out[k]: the samples handed out right after step k */
static pout *decode(plist *hdr,plist *aud,int *idx,int steps,ogg_int64_t shift){
  vorbis_info vi; vorbis_comment vc; vorbis_dsp_state vd; vorbis_block vb;
  ogg_packet op;
  pout *o=calloc(steps,sizeof(*o));
  int i,k;
  vorbis_info_init(&vi);
  vorbis_comment_init(&vc);
  for(i=0;i<3;i++){
    memset(&op,0,sizeof(op));
    op.packet=hdr->p[i].data; op.bytes=hdr->p[i].bytes;
    op.b_o_s=(i==0); op.packetno=i;
    if(vorbis_synthesis_headerin(&vi,&vc,&op)){fprintf(stderr,"bad header\n");exit(2);}
  }
  if(vorbis_synthesis_init(&vd,&vi)){fprintf(stderr,"synthesis init\n");exit(2);}
  vorbis_block_init(&vd,&vb);
  for(k=0;k<steps;k++){
    pkt *p=&aud->p[idx[k]];
    memset(&op,0,sizeof(op));
    op.packet=p->data; op.bytes=p->bytes;
    op.packetno=3+idx[k];
    op.e_o_s=p->eos;
    /* positions as an Ogg page would deliver them */
    if(p->eos || (idx[k]%8)==7)
      op.granulepos=p->gp-shift;
    else
      op.granulepos=-1;
    if(vorbis_synthesis(&vb,&op)==0){
      float **pcm; int n;
      if(vorbis_synthesis_blockin(&vd,&vb)){fprintf(stderr,"blockin refused\n");exit(2);}
      while((n=vorbis_synthesis_pcmout(&vd,&pcm))>0){
        o[k].s=realloc(o[k].s,sizeof(float)*(o[k].n+n));
        memcpy(o[k].s+o[k].n,pcm[0],n*sizeof(float));
        o[k].n+=n;
        vorbis_synthesis_read(&vd,n);
      }
    }else{
      fprintf(stderr,"packet %d rejected?\n",idx[k]);exit(2);
    }
  }
  vorbis_block_clear(&vb);
  vorbis_dsp_clear(&vd);
  vorbis_comment_clear(&vc);
  vorbis_info_clear(&vi);
  return o;
}

static int same(pout *a,pout *b){
  return a->n==b->n && (a->n==0 || !memcmp(a->s,b->s,sizeof(float)*a->n));
}


int main(void){
  plist hdr={0},aud={0};
  int *all,*idx,i,n,bad=0,steps=0,lost;
  pout *ref,*dis;
  encode(&hdr,&aud);
  n=aud.n;
  all=malloc(sizeof(int)*n); idx=malloc(sizeof(int)*n);
  for(i=0;i<n;i++)all[i]=i;
  /* last marked packet before the final one is the last i<n-1 with i%8==7;
     lose a packet between it and the end */
  lost=n-3;
  if(lost%8==7)lost--;
  printf("%d packets; stream ends at sample %ld\n",n,(long)aud.p[n-1].gp);
  ref=decode(&hdr,&aud,all,n,0);
  for(i=0;i<n;i++)if(i!=lost)idx[steps++]=i;
  dis=decode(&hdr,&aud,idx,steps,0);
  for(i=lost+2;i<n;i++)
    if(!same(&ref[i],&dis[i-1])){
      printf("packet %d lost: packet %d came out with %d samples instead of %d\n",lost,i,dis[i-1].n,ref[i].n);
      bad++;
    }
  printf(bad?"FAIL\n":"ok\n");
  return bad?1:0;
}
