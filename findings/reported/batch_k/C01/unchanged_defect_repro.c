/* Reproducer for UNCHANGED_DEFECT.md: floor 0 with a 32 bit amplitude field.
   Exit status 0: all four runs conform.  1: the 31 or 32 bit run does not.
   2: a control run (8 or 16 bits) fails, i.e. the reference is wrong. */

#include <stdio.h>
#include <stdlib.h>
#include <string.h>
#include <math.h>
#include <ogg/ogg.h>
#include <vorbis/codec.h>

#ifndef M_PI
#define M_PI 3.14159265358979323846
#endif

/* floor1_inverse_dB_table (unused here, kept with the shared helper code) */
static const float inverse_dB_table[256]={
  1.0649863e-07f, 1.1341951e-07f, 1.2079015e-07f, 1.2863978e-07f,
  1.3699951e-07f, 1.4590251e-07f, 1.5538408e-07f, 1.6548181e-07f,
  1.7623575e-07f, 1.8768855e-07f, 1.9988561e-07f, 2.1287530e-07f,
  2.2670913e-07f, 2.4144197e-07f, 2.5713223e-07f, 2.7384213e-07f,
  2.9163793e-07f, 3.1059021e-07f, 3.3077411e-07f, 3.5226968e-07f,
  3.7516214e-07f, 3.9954229e-07f, 4.2550680e-07f, 4.5315863e-07f,
  4.8260743e-07f, 5.1396998e-07f, 5.4737065e-07f, 5.8294187e-07f,
  6.2082472e-07f, 6.6116941e-07f, 7.0413592e-07f, 7.4989464e-07f,
  7.9862701e-07f, 8.5052630e-07f, 9.0579828e-07f, 9.6466216e-07f,
  1.0273513e-06f, 1.0941144e-06f, 1.1652161e-06f, 1.2409384e-06f,
  1.3215816e-06f, 1.4074654e-06f, 1.4989305e-06f, 1.5963394e-06f,
  1.7000785e-06f, 1.8105592e-06f, 1.9282195e-06f, 2.0535261e-06f,
  2.1869758e-06f, 2.3290978e-06f, 2.4804557e-06f, 2.6416497e-06f,
  2.8133190e-06f, 2.9961443e-06f, 3.1908506e-06f, 3.3982101e-06f,
  3.6190449e-06f, 3.8542308e-06f, 4.1047004e-06f, 4.3714470e-06f,
  4.6555282e-06f, 4.9580707e-06f, 5.2802740e-06f, 5.6234160e-06f,
  5.9888572e-06f, 6.3780469e-06f, 6.7925283e-06f, 7.2339451e-06f,
  7.7040476e-06f, 8.2047000e-06f, 8.7378876e-06f, 9.3057248e-06f,
  9.9104632e-06f, 1.0554501e-05f, 1.1240392e-05f, 1.1970856e-05f,
  1.2748789e-05f, 1.3577278e-05f, 1.4459606e-05f, 1.5399272e-05f,
  1.6400004e-05f, 1.7465768e-05f, 1.8600792e-05f, 1.9809576e-05f,
  2.1096914e-05f, 2.2467911e-05f, 2.3928002e-05f, 2.5482978e-05f,
  2.7139006e-05f, 2.8902651e-05f, 3.0780908e-05f, 3.2781225e-05f,
  3.4911534e-05f, 3.7180282e-05f, 3.9596466e-05f, 4.2169667e-05f,
  4.4910090e-05f, 4.7828601e-05f, 5.0936773e-05f, 5.4246931e-05f,
  5.7772202e-05f, 6.1526565e-05f, 6.5524908e-05f, 6.9783085e-05f,
  7.4317983e-05f, 7.9147585e-05f, 8.4291040e-05f, 8.9768747e-05f,
  9.5602426e-05f, 0.00010181521f, 0.00010843174f, 0.00011547824f,
  0.00012298267f, 0.00013097477f, 0.00013948625f, 0.00014855085f,
  0.00015820453f, 0.00016848555f, 0.00017943469f, 0.00019109536f,
  0.00020351382f, 0.00021673929f, 0.00023082423f, 0.00024582449f,
  0.00026179955f, 0.00027881276f, 0.00029693158f, 0.00031622787f,
  0.00033677814f, 0.00035866388f, 0.00038197188f, 0.00040679456f,
  0.00043323036f, 0.00046138411f, 0.00049136745f, 0.00052329927f,
  0.00055730621f, 0.00059352311f, 0.00063209358f, 0.00067317058f,
  0.00071691700f, 0.00076350630f, 0.00081312324f, 0.00086596457f,
  0.00092223983f, 0.00098217216f, 0.0010459992f, 0.0011139742f,
  0.0011863665f, 0.0012634633f, 0.0013455702f, 0.0014330129f,
  0.0015261382f, 0.0016253153f, 0.0017309374f, 0.0018434235f,
  0.0019632195f, 0.0020908006f, 0.0022266726f, 0.0023713743f,
  0.0025254795f, 0.0026895994f, 0.0028643847f, 0.0030505286f,
  0.0032487691f, 0.0034598925f, 0.0036847358f, 0.0039241906f,
  0.0041792066f, 0.0044507950f, 0.0047400328f, 0.0050480668f,
  0.0053761186f, 0.0057254891f, 0.0060975636f, 0.0064938176f,
  0.0069158225f, 0.0073652516f, 0.0078438871f, 0.0083536271f,
  0.0088964928f, 0.009474637f, 0.010090352f, 0.010746080f,
  0.011444421f, 0.012188144f, 0.012980198f, 0.013823725f,
  0.014722068f, 0.015678791f, 0.016697687f, 0.017782797f,
  0.018938423f, 0.020169149f, 0.021479854f, 0.022875735f,
  0.024362330f, 0.025945531f, 0.027631618f, 0.029427276f,
  0.031339626f, 0.033376252f, 0.035545228f, 0.037855157f,
  0.040315199f, 0.042935108f, 0.045725273f, 0.048696758f,
  0.051861348f, 0.055231591f, 0.058820850f, 0.062643361f,
  0.066714279f, 0.071049749f, 0.075666962f, 0.080584227f,
  0.085821044f, 0.091398179f, 0.097337747f, 0.10366330f,
  0.11039993f, 0.11757434f, 0.12521498f, 0.13335215f,
  0.14201813f, 0.15124727f, 0.16107617f, 0.17154380f,
  0.18269168f, 0.19456402f, 0.20720788f, 0.22067342f,
  0.23501402f, 0.25028656f, 0.26655159f, 0.28387361f,
  0.30232132f, 0.32196786f, 0.34289114f, 0.36517414f,
  0.38890521f, 0.41417847f, 0.44109412f, 0.46975890f,
  0.50028648f, 0.53279791f, 0.56742212f, 0.60429640f,
  0.64356699f, 0.68538959f, 0.72993007f, 0.77736504f,
  0.82788260f, 0.88168307f, 0.9389798f, 1.f,
};
/* ------------------------------------------------------------------ */
/* A very small Vorbis I stream writer and an independent reference    */
/* synthesiser, both written from the specification text.  The writer  */
/* covers exactly what the hand-made streams below need.               */
/* ------------------------------------------------------------------ */

static int ilog(unsigned long v){ int r=0; while(v){ r++; v>>=1; } return r; }

/* Vorbis float32: sign | 10 bit exponent (bias 788) | 21 bit mantissa */
static unsigned long f32pack(double v){
  unsigned long sign=0; long e=788; double m=v;
  if(m<0){ sign=0x80000000UL; m=-m; }
  while(m!=floor(m)){ m*=2; e--; }
  while(m>=2097152.){ m/=2; e++; }
  return sign | ((unsigned long)e<<21) | (unsigned long)m;
}

#define MAXENT 64
typedef struct{
  int dim,entries;
  int len[MAXENT];        /* 0 = unused entry */
  int sparse;             /* write the length list with per-entry flags */
  int maptype;            /* 0 none, 1 lattice, 2 explicit */
  double qmin,qdelta;
  int qbits,seq;
  int nquant;
  int quant[MAXENT*4];
  unsigned code[MAXENT];  /* canonical codewords, MSb first */
}book;

/* Section 3.2.1: every entry gets the lowest valued codeword of its
   length that is still free in the tree. */
static void book_assign(book *b){
  int i,j;
  for(i=0;i<b->entries;i++){
    unsigned c;
    if(!b->len[i])continue;
    for(c=0;;c++){
      int clash=0;
      if(c>>b->len[i]){ fprintf(stderr,"demo: overfull tree\n"); exit(2); }
      for(j=0;j<i && !clash;j++){
        int l;
        if(!b->len[j])continue;
        l=b->len[j]<b->len[i]?b->len[j]:b->len[i];
        if((b->code[j]>>(b->len[j]-l))==(c>>(b->len[i]-l)))clash=1;
      }
      if(!clash)break;
    }
    b->code[i]=c;
  }
}

static void book_write(oggpack_buffer *o,book *b){
  int i;
  book_assign(b);
  oggpack_write(o,0x564342,24);
  oggpack_write(o,b->dim,16);
  oggpack_write(o,b->entries,24);
  oggpack_write(o,0,1);                     /* not length ordered */
  oggpack_write(o,b->sparse?1:0,1);
  for(i=0;i<b->entries;i++){
    if(b->sparse){
      oggpack_write(o,b->len[i]?1:0,1);
      if(b->len[i])oggpack_write(o,b->len[i]-1,5);
    }else
      oggpack_write(o,b->len[i]-1,5);
  }
  oggpack_write(o,b->maptype,4);
  if(b->maptype){
    oggpack_write(o,f32pack(b->qmin),32);
    oggpack_write(o,f32pack(b->qdelta),32);
    oggpack_write(o,b->qbits-1,4);
    oggpack_write(o,b->seq,1);
    for(i=0;i<b->nquant;i++)oggpack_write(o,b->quant[i],b->qbits);
  }
}

/* codewords go into the packet most significant bit first */
static void book_put(oggpack_buffer *o,book *b,int entry){
  int i;
  if(!b->len[entry]){ fprintf(stderr,"demo: unused entry\n"); exit(2); }
  for(i=b->len[entry]-1;i>=0;i--)oggpack_write(o,(b->code[entry]>>i)&1,1);
}

/* Section 3.2.1 / 3.3: the VQ vector an entry stands for */
static void book_vector(book *b,int entry,double *out){
  int k; double last=0; int div=1;
  int qv=0;
  if(b->maptype==1){
    /* lookup1_values: greatest integer with qv^dim <= entries */
    for(qv=1;;qv++){
      long acc=1; for(k=0;k<b->dim;k++)acc*=(qv+1);
      if(acc>b->entries)break;
    }
  }
  for(k=0;k<b->dim;k++){
    int q;
    if(b->maptype==1){ q=b->quant[(entry/div)%qv]; div*=qv; }
    else q=b->quant[entry*b->dim+k];
    out[k]=q*b->qdelta+b->qmin+last;
    if(b->seq)last=out[k];
  }
}

static void hdr_id(oggpack_buffer *o,int channels,long rate,int bs0,int bs1){
  const char *v="vorbis"; int i;
  oggpack_write(o,1,8);
  for(i=0;i<6;i++)oggpack_write(o,v[i],8);
  oggpack_write(o,0,32);
  oggpack_write(o,channels,8);
  oggpack_write(o,rate,32);
  oggpack_write(o,0,32); oggpack_write(o,0,32); oggpack_write(o,0,32);
  oggpack_write(o,ilog(bs0)-1,4);
  oggpack_write(o,ilog(bs1)-1,4);
  oggpack_write(o,1,1);
}
static void hdr_comment(oggpack_buffer *o){
  const char *v="vorbis"; int i;
  oggpack_write(o,3,8);
  for(i=0;i<6;i++)oggpack_write(o,v[i],8);
  oggpack_write(o,0,32);
  oggpack_write(o,0,32);
  oggpack_write(o,1,1);
}
static void hdr_setup_begin(oggpack_buffer *o){
  const char *v="vorbis"; int i;
  oggpack_write(o,5,8);
  for(i=0;i<6;i++)oggpack_write(o,v[i],8);
}
/* a floor 1 with no partitions: only the two implicit posts at 0 and
   1<<rangebits */
static void floor1_write_2post(oggpack_buffer *o,int mult,int rangebits){
  oggpack_write(o,1,16);          /* floor type 1 */
  oggpack_write(o,0,5);           /* partitions */
  oggpack_write(o,mult-1,2);
  oggpack_write(o,rangebits,4);
}
static void residue_write(oggpack_buffer *o,int type,long begin,long end,
                          long psize,int classes,int classbook,
                          const int *cascade,const int *books,int nbooks){
  int i;
  oggpack_write(o,type,16);
  oggpack_write(o,begin,24);
  oggpack_write(o,end,24);
  oggpack_write(o,psize-1,24);
  oggpack_write(o,classes-1,6);
  oggpack_write(o,classbook,8);
  for(i=0;i<classes;i++){
    oggpack_write(o,cascade[i]&7,3);
    if(cascade[i]>>3){
      oggpack_write(o,1,1);
      oggpack_write(o,cascade[i]>>3,5);
    }else
      oggpack_write(o,0,1);
  }
  for(i=0;i<nbooks;i++)oggpack_write(o,books[i],8);
}

/* ---- reference synthesis ------------------------------------------ */

/* Section 9.2.7 render_line, on the integer dB scale */
static void ref_render_line(int x0,int y0,int x1,int y1,int *v,int n){
  int dy=y1-y0, adx=x1-x0, ady=abs(dy), base=dy/adx;
  int x=x0,y=y0,err=0,sy=(dy<0?base-1:base+1);
  ady-=abs(base)*adx;
  if(x<n)v[x]=y;
  for(x=x0+1;x<x1;x++){
    err+=ady;
    if(err>=adx){ err-=adx; y+=sy; }else y+=base;
    if(x<n)v[x]=y;
  }
}

/* two-post floor 1 curve: Y0,Y1 as read from the packet */
static void ref_floor1_2post(int mult,int rangebits,int Y0,int Y1,
                             double *curve,int n){
  int *v=calloc(n+1,sizeof(*v));
  int i,hx=1<<rangebits;
  ref_render_line(0,Y0*mult,hx,Y1*mult,v,n);
  for(i=hx;i<n;i++)v[i]=Y1*mult;
  for(i=0;i<n;i++)curve[i]=inverse_dB_table[v[i]];
  free(v);
}

/* Section 4.3.7 with the usual (unscaled) inverse MDCT kernel */
static void ref_imdct(const double *X,double *y,int n){
  int i,k;
  for(i=0;i<n;i++){
    double acc=0;
    for(k=0;k<n/2;k++)
      acc+=X[k]*cos(M_PI/2/n*(2*i+1+n/2.)*(2*k+1));
    y[i]=acc;
  }
}

/* Section 4.3.1 window for a block of size n between blocks of size
   prevn and nextn (short blocks always use the short slopes) */
static void ref_window(double *w,int n,int bs0,int islong,int prevlong,int nextlong){
  int ln=(islong && !prevlong)?bs0:n;
  int rn=(islong && !nextlong)?bs0:n;
  int ls=n/4-ln/4, le=n/4+ln/4, rs=n*3/4-rn/4, re=n*3/4+rn/4, i;
  for(i=0;i<n;i++)w[i]=0;
  for(i=ls;i<le;i++){
    double s=sin((i-ls+.5)/(ln/2)*M_PI/2);
    w[i]=sin(M_PI/2*s*s);
  }
  for(i=le;i<rs;i++)w[i]=1;
  for(i=rs;i<re;i++){
    double s=sin((i-rs+.5)/(rn/2)*M_PI/2+M_PI/2);
    w[i]=sin(M_PI/2*s*s);
  }
}

typedef struct{
  int channels,bs0,bs1;
  int nblocks;
  long total;            /* samples per channel defined so far */
  long center;           /* absolute position of the last block centre */
  long origin;           /* absolute position of the first block centre */
  double **acc;          /* [channel][absolute position] */
  long cap;
  int lastn;
}refsynth;

static void ref_init(refsynth *r,int channels,int bs0,int bs1,long cap){
  int i;
  memset(r,0,sizeof(*r));
  r->channels=channels; r->bs0=bs0; r->bs1=bs1; r->cap=cap;
  r->acc=calloc(channels,sizeof(*r->acc));
  for(i=0;i<channels;i++)r->acc[i]=calloc(cap,sizeof(**r->acc));
}

/* add one block: spec[ch] holds n/2 spectral values (floor*residue) */
static void ref_block(refsynth *r,double **spec,int islong,int prevlong,int nextlong){
  int n=islong?r->bs1:r->bs0, ch,i;
  double *y=calloc(n,sizeof(*y)), *w=calloc(n,sizeof(*w));
  long start;
  if(r->nblocks==0){
    r->origin=r->center=r->bs1;           /* leave room in front */
  }else{
    r->center+=r->lastn/4+n/4;
  }
  start=r->center-n/2;
  if(start+n>r->cap){ fprintf(stderr,"demo: reference buffer too small\n"); exit(2); }
  ref_window(w,n,r->bs0,islong,prevlong,nextlong);
  for(ch=0;ch<r->channels;ch++){
    ref_imdct(spec[ch],y,n);
    for(i=0;i<n;i++)r->acc[ch][start+i]+=y[i]*w[i];
  }
  r->lastn=n;
  r->nblocks++;
  r->total=r->center-r->origin;
  free(y); free(w);
}
/* ------------------------------------------------------------------ */
/* Mono stream, one mode (128 sample blocks), floor type 0 of order 4  */
/* whose amplitude field is AMPBITS wide, type 1 residue.              */
/* Run once with an 8 bit amplitude (control) and once with 32 bits.   */
/* ------------------------------------------------------------------ */

#define BS0     128
#define BS1     128
#define NPACK   6
#define ORDER   4
#define BARKMAP 32
#define F0RATE  8000
#define AMPDB   2

static book classbook, valbook, lspbook;

static unsigned rnd_state;
static unsigned rnd(void){ rnd_state=rnd_state*1103515245u+12345u; return (rnd_state>>16)&0x7fff; }

static void fail(const char *m){ fprintf(stderr,"repro: %s\n",m); exit(1); }

static double bark(double x){
  return 13.1*atan(.00074*x)+2.24*atan(.0000000185*x*x)+.0001*x;
}

/* section 6.2.3 */
static void ref_floor0(int ampbits,unsigned long amplitude,const double *coeff,
                       double *curve,int n){
  int i,j;
  for(i=0;i<n;i++){
    double foobar=floor(bark((double)F0RATE*i/(2.*n))*BARKMAP/bark(.5*F0RATE));
    int map=(foobar<BARKMAP-1?(int)foobar:BARKMAP-1);
    double w=M_PI*map/BARKMAP, cw=cos(w), p,q;
    /* ORDER is even */
    p=(1.-cw)/2.; q=(1.+cw)/2.;
    for(j=0;j<=(ORDER-2)/2;j++){
      p*=4.*(cos(coeff[2*j+1])-cw)*(cos(coeff[2*j+1])-cw);
      q*=4.*(cos(coeff[2*j])-cw)*(cos(coeff[2*j])-cw);
    }
    curve[i]=exp(.11512925*((double)amplitude*AMPDB/
                            ((pow(2.,ampbits)-1.)*sqrt(p+q))-AMPDB));
  }
}

static int run(int ampbits){
  vorbis_info vi; vorbis_comment vc; vorbis_dsp_state vd; vorbis_block vb;
  oggpack_buffer o;
  ogg_packet op;
  refsynth ref;
  int i,j,k,ret,bad=0;
  long got=0;
  static float out[NPACK*BS1];
  double peak=0,worst=0;

  rnd_state=4242;
  memset(&classbook,0,sizeof(classbook));
  classbook.dim=1; classbook.entries=2; classbook.len[0]=1; classbook.len[1]=1;

  memset(&valbook,0,sizeof(valbook));
  valbook.dim=2; valbook.entries=16;
  for(i=0;i<16;i++)valbook.len[i]=4;
  valbook.maptype=1; valbook.qmin=-3; valbook.qdelta=2; valbook.qbits=2;
  valbook.nquant=4; for(i=0;i<4;i++)valbook.quant[i]=i;

  /* LSP book: 4 dimensions, sequence mode, so every vector is an
     increasing list of angles below pi */
  memset(&lspbook,0,sizeof(lspbook));
  lspbook.dim=4; lspbook.entries=16;
  for(i=0;i<16;i++)lspbook.len[i]=4;
  lspbook.maptype=1; lspbook.qmin=.25; lspbook.qdelta=.25; lspbook.qbits=1; lspbook.seq=1;
  lspbook.nquant=2; lspbook.quant[0]=0; lspbook.quant[1]=1;

  vorbis_info_init(&vi);
  vorbis_comment_init(&vc);

  oggpack_writeinit(&o);
  hdr_id(&o,1,8000,BS0,BS1);
  memset(&op,0,sizeof(op));
  op.packet=oggpack_get_buffer(&o); op.bytes=oggpack_bytes(&o); op.b_o_s=1; op.packetno=0;
  if(vorbis_synthesis_headerin(&vi,&vc,&op))fail("identification header refused");
  oggpack_writeclear(&o);

  oggpack_writeinit(&o);
  hdr_comment(&o);
  memset(&op,0,sizeof(op));
  op.packet=oggpack_get_buffer(&o); op.bytes=oggpack_bytes(&o); op.packetno=1;
  if(vorbis_synthesis_headerin(&vi,&vc,&op))fail("comment header refused");
  oggpack_writeclear(&o);

  oggpack_writeinit(&o);
  hdr_setup_begin(&o);
  oggpack_write(&o,3-1,8);                 /* three codebooks */
  book_write(&o,&classbook);
  book_write(&o,&valbook);
  book_write(&o,&lspbook);
  oggpack_write(&o,0,6); oggpack_write(&o,0,16);   /* time domain placeholder */
  oggpack_write(&o,1-1,6);                 /* one floor */
  oggpack_write(&o,0,16);                  /* floor type 0 */
  oggpack_write(&o,ORDER,8);
  oggpack_write(&o,F0RATE,16);
  oggpack_write(&o,BARKMAP,16);
  oggpack_write(&o,ampbits,6);
  oggpack_write(&o,AMPDB,8);
  oggpack_write(&o,1-1,4);                 /* one book */
  oggpack_write(&o,2,8);
  oggpack_write(&o,1-1,6);                 /* one residue */
  {
    int cascade[2]={0,1}, books[1]={1};
    residue_write(&o,1,0,BS0/2,8,2,0,cascade,books,1);
  }
  oggpack_write(&o,1-1,6);                 /* one mapping */
  oggpack_write(&o,0,16);
  oggpack_write(&o,0,1); oggpack_write(&o,0,1); oggpack_write(&o,0,2);
  oggpack_write(&o,0,8); oggpack_write(&o,0,8); oggpack_write(&o,0,8);
  oggpack_write(&o,1-1,6);                 /* one mode */
  oggpack_write(&o,0,1); oggpack_write(&o,0,16); oggpack_write(&o,0,16); oggpack_write(&o,0,8);
  oggpack_write(&o,1,1);
  memset(&op,0,sizeof(op));
  op.packet=oggpack_get_buffer(&o); op.bytes=oggpack_bytes(&o); op.packetno=2;
  if(vorbis_synthesis_headerin(&vi,&vc,&op))fail("setup header refused");
  oggpack_writeclear(&o);

  if(vorbis_synthesis_init(&vd,&vi))fail("vorbis_synthesis_init failed");
  vorbis_block_init(&vd,&vb);
  ref_init(&ref,1,BS0,BS1,(NPACK+4)*BS1);

  for(k=0;k<NPACK;k++){
    int n2=BS0/2, parts=n2/8;
    unsigned long amplitude;
    int lspent;
    int cls[8], ent[8][4];
    double coeff[ORDER], spec_store[BS0/2], curve[BS0/2];
    double *spec[1];
    float **pcm;
    int n,p;

    /* amplitude between 1/4 and 1/2 of full scale: below 2^31 when the
       field is 32 bits wide */
    amplitude=(unsigned long)((pow(2.,ampbits)-1.)*(.25+(rnd()%64)/256.));
    if(k==NPACK-2 && ampbits==32)amplitude=0xc0000000UL;  /* and one above */
    lspent=rnd()&15;
    for(p=0;p<parts;p++){
      cls[p]=(rnd()%3)!=0;
      for(j=0;j<4;j++)ent[p][j]=rnd()&15;
    }

    oggpack_writeinit(&o);
    oggpack_write(&o,0,1);                 /* audio packet, no mode bits */
    oggpack_write(&o,amplitude,ampbits);
    oggpack_write(&o,0,ilog(1));           /* book number, ilog(number of books) bits */
    book_put(&o,&lspbook,lspent);
    for(p=0;p<parts;p++){
      book_put(&o,&classbook,cls[p]);
      if(cls[p])
        for(j=0;j<4;j++)book_put(&o,&valbook,ent[p][j]);
    }

    book_vector(&lspbook,lspent,coeff);
    ref_floor0(ampbits,amplitude,coeff,curve,n2);
    for(i=0;i<n2;i++)spec_store[i]=0;
    for(p=0;p<parts;p++)
      if(cls[p])
        for(j=0;j<4;j++){
          double v[2];
          book_vector(&valbook,ent[p][j],v);
          spec_store[p*8+j*2]+=v[0];
          spec_store[p*8+j*2+1]+=v[1];
        }
    for(i=0;i<n2;i++)spec_store[i]*=curve[i];
    spec[0]=spec_store;
    ref_block(&ref,spec,0,0,0);

    memset(&op,0,sizeof(op));
    op.packet=oggpack_get_buffer(&o); op.bytes=oggpack_bytes(&o);
    op.packetno=3+k; op.granulepos=-1;
    ret=vorbis_synthesis(&vb,&op);
    if(ret){ fprintf(stderr,"repro: vorbis_synthesis returned %d on packet %d\n",ret,k); return 1; }
    if(vorbis_synthesis_blockin(&vd,&vb))fail("vorbis_synthesis_blockin failed");
    while((n=vorbis_synthesis_pcmout(&vd,&pcm))>0){
      for(i=0;i<n;i++)out[got+i]=pcm[0][i];
      got+=n;
      vorbis_synthesis_read(&vd,n);
    }
    oggpack_writeclear(&o);
  }

  if(got!=ref.total){
    fprintf(stderr,"repro: decoder returned %ld samples, specification says %ld\n",got,ref.total);
    return 1;
  }
  for(i=0;i<got;i++){
    double e=ref.acc[0][ref.origin+i], d=fabs(e-out[i]);
    if(fabs(e)>peak)peak=fabs(e);
    if(isnan(d))d=INFINITY;
    if(d>worst)worst=d;
    if(!isfinite(out[i]))bad++;
  }
  printf("amplitude bits %2d: samples %ld, reference peak %g, worst deviation %g, non-finite samples %d\n",
         ampbits,got,peak,worst,bad);
  vorbis_block_clear(&vb);
  vorbis_dsp_clear(&vd);
  vorbis_comment_clear(&vc);
  vorbis_info_clear(&vi);
  return !(worst<=2e-3*peak);
}

int main(void){
  int r8=run(8);
  int r16=run(16);
  int r31=run(31);
  int r32=run(32);
  if(r8||r16){ fprintf(stderr,"repro: control runs fail, the reference is off\n"); return 2; }
  if(r31)fprintf(stderr,"repro: 31 bit amplitude field decodes wrongly\n");
  if(r32)fprintf(stderr,"repro: 32 bit amplitude field decodes wrongly\n");
  return (r31||r32)?1:0;
}
