/* Reproducer for UNCHANGED_DEFECT.md: exits 1 on the unchanged tree. */
#include <stdio.h>
#include <stdlib.h>
#include <string.h>
#include <errno.h>
#include <math.h>
#include <vorbis/codec.h>
#include <vorbis/vorbisenc.h>
#include <vorbis/vorbisfile.h>

/* ---------- build an Ogg Vorbis stream in memory ---------- */
typedef struct { unsigned char *d; long n, cap; } mem_t;
static void mem_put(mem_t *m,const void *p,long n){
  if(m->n+n>m->cap){ m->cap=(m->n+n)*2+4096; m->d=realloc(m->d,m->cap); }
  memcpy(m->d+m->n,p,n); m->n+=n;
}
static void put_page(mem_t *m,ogg_page *og){
  mem_put(m,og->header,og->header_len); mem_put(m,og->body,og->body_len);
}
static void encode_link(mem_t *m,int serial,int channels,long rate,double secs,double freq){
  vorbis_info vi; vorbis_comment vc; vorbis_dsp_state vd; vorbis_block vb;
  ogg_stream_state os; ogg_page og; ogg_packet op,h1,h2,h3;
  long total=(long)(secs*rate),done=0; int eos=0;
  vorbis_info_init(&vi);
  if(vorbis_encode_init_vbr(&vi,channels,rate,0.3f)){fprintf(stderr,"enc init\n");exit(99);}
  vorbis_comment_init(&vc); vorbis_comment_add_tag(&vc,"TITLE","demo");
  vorbis_analysis_init(&vd,&vi); vorbis_block_init(&vd,&vb);
  ogg_stream_init(&os,serial);
  vorbis_analysis_headerout(&vd,&vc,&h1,&h2,&h3);
  ogg_stream_packetin(&os,&h1); ogg_stream_packetin(&os,&h2); ogg_stream_packetin(&os,&h3);
  while(ogg_stream_flush(&os,&og))put_page(m,&og);
  while(!eos){
    long n=total-done; int i,c;
    if(n>1024)n=1024;
    if(n<=0){ vorbis_analysis_wrote(&vd,0); }
    else{
      float **buf=vorbis_analysis_buffer(&vd,n);
      for(i=0;i<n;i++)for(c=0;c<channels;c++)
        buf[c][i]=0.4f*sin(2*M_PI*freq*(done+i)/rate*(1.0+0.1*c))
                 +0.1f*sin(2*M_PI*(freq*3.7)*(done+i)/rate);
      vorbis_analysis_wrote(&vd,n); done+=n;
    }
    while(vorbis_analysis_blockout(&vd,&vb)==1){
      vorbis_analysis(&vb,NULL); vorbis_bitrate_addblock(&vb);
      while(vorbis_bitrate_flushpacket(&vd,&op)){
        ogg_stream_packetin(&os,&op);
        while(!eos){
          if(!ogg_stream_pageout(&os,&og))break;
          put_page(m,&og);
          if(ogg_page_eos(&og))eos=1;
        }
      }
    }
  }
  ogg_stream_clear(&os); vorbis_block_clear(&vb); vorbis_dsp_clear(&vd);
  vorbis_comment_clear(&vc); vorbis_info_clear(&vi);
}

/* ---------- a data source with switchable faults ---------- */
typedef struct {
  const unsigned char *d; long n, pos;
  long nread, nseek;          /* calls seen so far */
  long fail_read_at;          /* 1-based index of the read call that fails (0: never) */
  int  fail_mode;             /* 0: return 0 with errno=EIO, 1: return 0 (end of data) */
  long fail_seek_at;
  long stop_at;               /* reads never cross this offset (short read), -1: off */
  int  closed;
} src_t;
static size_t src_read(void *p,size_t sz,size_t nm,void *ds){
  src_t *s=ds; long want=(long)(sz*nm),left=s->n-s->pos;
  s->nread++;
  if(s->fail_read_at && s->nread==s->fail_read_at){
    if(s->fail_mode==0)errno=EIO;
    return 0;
  }
  if(want>left)want=left;
  if(s->stop_at>=0 && s->pos<s->stop_at && s->pos+want>s->stop_at)want=s->stop_at-s->pos;
  memcpy(p,s->d+s->pos,want); s->pos+=want;
  return want;
}
static int src_seek(void *ds,ogg_int64_t off,int wh){
  src_t *s=ds; long np;
  s->nseek++;
  if(s->fail_seek_at && s->nseek==s->fail_seek_at)return -1;
  np=(wh==SEEK_SET?off:wh==SEEK_CUR?s->pos+off:s->n+off);
  if(np<0||np>s->n)return -1;
  s->pos=np; return 0;
}
static long src_tell(void *ds){ return ((src_t*)ds)->pos; }
static int src_close(void *ds){ ((src_t*)ds)->closed++; return 0; }
static ov_callbacks src_cb={src_read,src_seek,src_close,src_tell};
static void src_init(src_t *s,mem_t *m){ memset(s,0,sizeof(*s)); s->d=m->d; s->n=m->n; s->stop_at=-1; }
/* shift the granule position of every audio page by 'shift' */
static void shift_granules(mem_t *m,ogg_int64_t shift){
  long p=0;
  while(p+27<=m->n){
    unsigned char *h=m->d+p; int nseg=h[26],i; long body=0; ogg_page og; ogg_int64_t g=0;
    for(i=0;i<nseg;i++)body+=h[27+i];
    for(i=7;i>=0;i--)g=(g<<8)|h[6+i];
    if(g!=-1 && g!=0){ g+=shift; for(i=0;i<8;i++){h[6+i]=(unsigned char)(g&0xff);g>>=8;} }
    og.header=h; og.header_len=27+nseg; og.body=h+27+nseg; og.body_len=body;
    ogg_page_checksum_set(&og);
    p+=27+nseg+body;
  }
}
int main(void){
  mem_t m={0}; long k; int bad=0; ogg_int64_t ref;
  encode_link(&m,77,2,44100,2.0,440.);
  shift_granules(&m,1000000);
  { src_t s; OggVorbis_File vf; src_init(&s,&m);
    if(ov_open_callbacks(&s,&vf,NULL,0,src_cb)){printf("ref open failed\n");return 2;}
    ref=ov_pcm_total(&vf,-1); printf("reference: total %ld tell %ld\n",(long)ref,(long)ov_pcm_tell(&vf)); ov_clear(&vf); }
  for(k=1;;k++){
    src_t s; OggVorbis_File vf; int r; src_init(&s,&m); s.fail_read_at=k; s.fail_mode=0;
    r=ov_open_callbacks(&s,&vf,NULL,0,src_cb);
    if(s.nread<k){ if(!r)ov_clear(&vf); break; }
    if(r==0){
      ogg_int64_t t=ov_pcm_total(&vf,-1),tl=ov_pcm_tell(&vf);
      printf("read #%ld fails (EIO): open returns 0, total %ld tell %ld%s\n",k,(long)t,(long)tl,(t!=ref)?"  <-- wrong length":(tl!=0?"  <-- not at start":""));
      if(t!=ref||tl!=0)bad=1;
      ov_clear(&vf);
    }
  }
  return bad;
}
