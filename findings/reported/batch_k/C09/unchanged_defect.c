/* Reproducer for a defect of the UNCHANGED tree (see UNCHANGED_DEFECT.md).
 *
 * A three link chained Ogg Vorbis file is built in memory.  The middle link
 * does not start at granule position 0: all granule positions of its audio
 * pages are shifted up by 100000 (and the page checksums redone), which is
 * what a link captured from the middle of a broadcast looks like and is
 * explicitly allowed by the Vorbis I specification (A.2).  Without a fault
 * the library handles that link correctly: it reports 41113 samples and
 * delivers 41113.
 *
 * The file is then opened once per read call an open makes, with exactly
 * that one call failing the way fread() fails (nothing stored, errno set,
 * 0 returned).  Each open has to be refused or to describe the file
 * exactly.  On the unchanged tree one of them succeeds and reports
 * 141113 samples for the middle link.
 *
 * build:  cc -g -I<src>/include unchanged_defect.c <b>/lib/libvorbisfile.a \
 *            <b>/lib/libvorbisenc.a <b>/lib/libvorbis.a -logg -lm -lpthread
 * exit 0: no violation seen.  exit 1: violation.  exit 2: set-up error.
 */
#include <stdio.h>
#include <stdlib.h>
#include <string.h>
#include <math.h>
#include <errno.h>
#include <vorbis/codec.h>
#include <vorbis/vorbisenc.h>
#include <vorbis/vorbisfile.h>

typedef struct {
  unsigned char *data;
  long len, cap;
} buf_t;

static void buf_add(buf_t *b, const void *p, long n){
  if(b->len+n>b->cap){
    b->cap=(b->len+n)*2+4096;
    b->data=realloc(b->data,b->cap);
    if(!b->data){ fprintf(stderr,"out of memory\n"); exit(2); }
  }
  memcpy(b->data+b->len,p,n);
  b->len+=n;
}

static void put_page(buf_t *b, ogg_page *og){
  buf_add(b,og->header,og->header_len);
  buf_add(b,og->body,og->body_len);
}

/* encode one logical stream */
static void encode_link(buf_t *out,int channels,long rate,float quality,
                        int serial,long nsamples,const char *title){
  vorbis_info vi;
  vorbis_comment vc;
  vorbis_dsp_state vd;
  vorbis_block vb;
  ogg_stream_state os;
  ogg_page og;
  ogg_packet op;
  long done=0;
  int eos=0;
  unsigned int noise=(unsigned int)serial;

  vorbis_info_init(&vi);
  if(vorbis_encode_init_vbr(&vi,channels,rate,quality)){
    fprintf(stderr,"encoder set-up refused\n"); exit(2);
  }
  vorbis_comment_init(&vc);
  vorbis_comment_add_tag(&vc,"TITLE",title);
  vorbis_analysis_init(&vd,&vi);
  vorbis_block_init(&vd,&vb);
  ogg_stream_init(&os,serial);

  {
    ogg_packet h,hc,hb;
    vorbis_analysis_headerout(&vd,&vc,&h,&hc,&hb);
    ogg_stream_packetin(&os,&h);
    ogg_stream_packetin(&os,&hc);
    ogg_stream_packetin(&os,&hb);
    while(ogg_stream_flush(&os,&og))put_page(out,&og);
  }

  while(!eos){
    long n=nsamples-done;
    if(n>1024)n=1024;
    if(n>0){
      float **pcm=vorbis_analysis_buffer(&vd,n);
      long i; int c;
      for(c=0;c<channels;c++)
        for(i=0;i<n;i++){
          double t=(double)(done+i)/rate;
          noise=noise*1103515245u+12345u;
          pcm[c][i]=0.4*sin(2*M_PI*(220.0+110.0*c+serial%7)*t)+
                    0.2*sin(2*M_PI*(1510.0+3*c)*t+0.3*c)+
                    0.15*(((noise>>16)&0x7fff)/16384.0-1.0);
        }
      done+=n;
    }
    vorbis_analysis_wrote(&vd,n>0?n:0);

    while(vorbis_analysis_blockout(&vd,&vb)==1){
      vorbis_analysis(&vb,NULL);
      vorbis_bitrate_addblock(&vb);
      while(vorbis_bitrate_flushpacket(&vd,&op)){
        ogg_stream_packetin(&os,&op);
        while(!eos){
          if(!ogg_stream_pageout(&os,&og))break;
          put_page(out,&og);
          if(ogg_page_eos(&og))eos=1;
        }
      }
    }
  }

  ogg_stream_clear(&os);
  vorbis_block_clear(&vb);
  vorbis_dsp_clear(&vd);
  vorbis_comment_clear(&vc);
  vorbis_info_clear(&vi);
}

/* memory data source */
typedef struct {
  const unsigned char *data;
  long len, pos;
} mem_t;

static long read_calls=0;
static long fail_at=0;   /* 1-based call number that fails; 0: none */

static size_t mem_read(void *ptr,size_t size,size_t nmemb,void *ds){
  mem_t *m=ds;
  long want=(long)(size*nmemb);
  read_calls++;
  if(read_calls==fail_at){
    errno=EIO;
    return 0;
  }
  if(want>m->len-m->pos)want=m->len-m->pos;
  if(want<0)want=0;
  memcpy(ptr,m->data+m->pos,want);
  m->pos+=want;
  return want;
}
static int mem_seek(void *ds,ogg_int64_t off,int whence){
  mem_t *m=ds;
  ogg_int64_t p;
  if(whence==SEEK_SET)p=off;
  else if(whence==SEEK_CUR)p=m->pos+off;
  else p=m->len+off;
  if(p<0||p>m->len)return -1;
  m->pos=(long)p;
  return 0;
}
static long mem_tell(void *ds){ return ((mem_t *)ds)->pos; }
static const ov_callbacks mem_cb={mem_read,mem_seek,NULL,mem_tell};

/* decode a whole file through vorbisfile into interleaved floats,
   recording for every sample frame which link it was reported for */
typedef struct {
  float *pcm;   /* interleaved, channel count of the link it came from */
  long  frames;
} audio_t;

static int read_all(OggVorbis_File *vf,int links,audio_t *per_link){
  int i;
  for(i=0;i<links;i++){ per_link[i].pcm=NULL; per_link[i].frames=0; }
  int last=-1;
  while(1){
    float **pcm;
    int sec=-1;
    long n=ov_read_float(vf,&pcm,4096,&sec);
    if(n==0)break;
    if(n<0){
      fprintf(stderr,"FAIL: ov_read_float reported %ld in the middle of the data\n",n);
      return 1;
    }
    if(sec<0||sec>=links){
      fprintf(stderr,"FAIL: data reported for link %d\n",sec);
      return 1;
    }
    if(sec<last){
      fprintf(stderr,"FAIL: link %d delivered after link %d\n",sec,last);
      return 1;
    }
    last=sec;
    {
      int ch=ov_info(vf,sec)->channels;
      audio_t *a=per_link+sec;
      long j; int c;
      a->pcm=realloc(a->pcm,sizeof(float)*ch*(a->frames+n));
      for(j=0;j<n;j++)
        for(c=0;c<ch;c++)
          a->pcm[(a->frames+j)*ch+c]=pcm[c][j];
      a->frames+=n;
    }
  }
  return 0;
}

/* shift the granule positions of all audio pages (pages after the header pages) by delta */
static void shift_granules(buf_t *b,long delta,int header_pages){
  long pos=0; int pageno=0;
  while(pos+27<=b->len){
    unsigned char *h=b->data+pos;
    int nseg=h[26],i; long body=0;
    ogg_page og;
    for(i=0;i<nseg;i++)body+=h[27+i];
    og.header=h; og.header_len=27+nseg; og.body=h+27+nseg; og.body_len=body;
    if(pageno>=header_pages){
      ogg_int64_t g=ogg_page_granulepos(&og);
      if(g!=-1){
        g+=delta; 
        for(i=0;i<8;i++){h[6+i]=(unsigned char)(g&0xff); g>>=8;}
        ogg_page_checksum_set(&og);
      }
    }
    pos+=og.header_len+og.body_len; pageno++;
  }
}

#define LINKS 3

static const int   channels[LINKS]={2,1,2};
static const long  rate[LINKS]={44100,32000,48000};
static const float quality[LINKS]={0.4f,0.3f,0.5f};
static const int   serial[LINKS]={0x1001,0x2002,0x3003};
static const long  length[LINKS]={30001,41113,25007};
static const char *title[LINKS]={"first","second","third"};

static audio_t alone[LINKS];

/* returns 0 when the open handle describes the chain exactly */
static int check_chain(OggVorbis_File *vf,long n){
  audio_t chained[LINKS];
  ogg_int64_t sum=0;
  int i,bad=0;

  if(ov_streams(vf)!=LINKS){
    fprintf(stderr,"FAIL (fault at read %ld): open succeeded and reports %ld links, %d present\n",
            n,ov_streams(vf),LINKS);
    return 1;
  }
  for(i=0;i<LINKS;i++){
    vorbis_info *vi=ov_info(vf,i);
    vorbis_comment *vc=ov_comment(vf,i);
    char want[64];
    snprintf(want,sizeof(want),"TITLE=%s",title[i]);
    if(!vi || vi->channels!=channels[i] || vi->rate!=rate[i]){
      fprintf(stderr,"FAIL (fault at read %ld): link %d: channels/rate %d/%ld, want %d/%ld\n",n,i,
              vi?vi->channels:-1,vi?vi->rate:-1,channels[i],rate[i]);
      bad=1;
    }
    if(ov_serialnumber(vf,i)!=serial[i]){
      fprintf(stderr,"FAIL (fault at read %ld): link %d: serial number %lx, want %x\n",n,i,
              ov_serialnumber(vf,i),serial[i]);
      bad=1;
    }
    if(!vc || vc->comments!=1 || strcmp(vc->user_comments[0],want)){
      fprintf(stderr,"FAIL (fault at read %ld): link %d: wrong comments\n",n,i);
      bad=1;
    }
    if(ov_pcm_total(vf,i)!=length[i]){
      fprintf(stderr,"FAIL (fault at read %ld): link %d: %ld samples reported, the link holds %ld\n",n,i,
              (long)ov_pcm_total(vf,i),length[i]);
      bad=1;
    }
    sum+=length[i];
  }
  if(ov_pcm_total(vf,-1)!=sum){
    fprintf(stderr,"FAIL (fault at read %ld): total of %ld samples reported, the file holds %ld\n",
            n,(long)ov_pcm_total(vf,-1),(long)sum);
    bad=1;
  }
  if(bad)return 1;

  if(read_all(vf,LINKS,chained))return 1;
  for(i=0;i<LINKS;i++){
    if(chained[i].frames!=alone[i].frames){
      fprintf(stderr,"FAIL (fault at read %ld): link %d: %ld samples read from the chain, %ld alone\n",
              n,i,chained[i].frames,alone[i].frames);
      bad=1;
    }else if(memcmp(chained[i].pcm,alone[i].pcm,
                    sizeof(float)*channels[i]*alone[i].frames)){
      fprintf(stderr,"FAIL (fault at read %ld): link %d: audio read from the chain differs from the link alone\n",n,i);
      bad=1;
    }
    free(chained[i].pcm);
  }
  return bad;
}

int main(void){
  buf_t link[LINKS];
  buf_t chain={0,0,0};
  OggVorbis_File vf;
  mem_t m;
  int i,ret;
  long n,opens_reads,refused=0,accepted=0;

  for(i=0;i<LINKS;i++){
    memset(link+i,0,sizeof(link[i]));
    encode_link(link+i,channels[i],rate[i],quality[i],serial[i],length[i],title[i]);
    if(i==1)shift_granules(link+i,100000,2);
    buf_add(&chain,link[i].data,link[i].len);
  }

  /* every link on its own */
  for(i=0;i<LINKS;i++){
    m.data=link[i].data; m.len=link[i].len; m.pos=0;
    if((ret=ov_open_callbacks(&m,&vf,NULL,0,mem_cb))){
      fprintf(stderr,"set-up: link %d does not open alone (%d)\n",i,ret);
      return 2;
    }
    if(ov_streams(&vf)!=1 || ov_pcm_total(&vf,0)!=length[i]){
      fprintf(stderr,"set-up: link %d alone: %ld streams, %ld samples (want %ld)\n",
              i,ov_streams(&vf),(long)ov_pcm_total(&vf,0),length[i]);
      return 2;
    }
    if(read_all(&vf,1,alone+i))return 2;
    if(alone[i].frames!=length[i]){
      fprintf(stderr,"set-up: link %d alone delivers %ld of %ld samples\n",
              i,alone[i].frames,length[i]);
      return 2;
    }
    ov_clear(&vf);
  }

  /* the chain without a fault */
  m.data=chain.data; m.len=chain.len; m.pos=0;
  read_calls=0; fail_at=0;
  if((ret=ov_open_callbacks(&m,&vf,NULL,0,mem_cb))){
    fprintf(stderr,"FAIL: the chained file does not open (%d)\n",ret);
    return 1;
  }
  opens_reads=read_calls;
  if(check_chain(&vf,0))return 1;
  ov_clear(&vf);

  /* one fault per open, at every read call the open makes */
  for(n=1;n<=opens_reads;n++){
    m.pos=0;
    read_calls=0; fail_at=n;
    ret=ov_open_callbacks(&m,&vf,NULL,0,mem_cb);
    fail_at=0;
    if(ret<0){
      refused++;
      continue;
    }
    if(ret>0){
      fprintf(stderr,"FAIL (fault at read %ld): ov_open_callbacks returned %d\n",n,ret);
      return 1;
    }
    accepted++;
    if(check_chain(&vf,n))return 1;
    ov_clear(&vf);
  }

  printf("ok: %ld read calls per open; with one failing, %ld opens were refused, "
         "%ld succeeded and were exact\n",opens_reads,refused,accepted);
  return 0;
}
