#include <stdio.h>
#include <stdlib.h>
#include <string.h>
#include <math.h>
#include <errno.h>
#include <vorbis/codec.h>
#include <vorbis/vorbisenc.h>
#include <vorbis/vorbisfile.h>

typedef struct { unsigned char *d; long n, cap; } buf_t;
static void buf_add(buf_t *b,const void *p,long n){
  if(b->n+n>b->cap){ b->cap=(b->n+n)*2+4096; b->d=realloc(b->d,b->cap); }
  memcpy(b->d+b->n,p,n); b->n+=n;
}

static unsigned rs=12345;
static float frand(void){ rs=rs*1103515245u+12345u; return ((rs>>8)&0xffff)/32768.f-1.f; }

/* encode `secs` of audio; clicks_from: second from which clicks (transients) are added (<0: none) */
static void encode_link(buf_t *out,int serial,int ch,long rate,double secs,float q,
                        double clicks_from,ogg_int64_t gran_shift){
  vorbis_info vi; vorbis_comment vc; vorbis_dsp_state vd; vorbis_block vb;
  ogg_stream_state os; ogg_page og; ogg_packet op;
  long total=(long)(secs*rate),done=0; int eos=0;
  vorbis_info_init(&vi);
  if(vorbis_encode_init_vbr(&vi,ch,rate,q)){fprintf(stderr,"enc init\n");exit(2);}
  vorbis_comment_init(&vc);
  vorbis_analysis_init(&vd,&vi); vorbis_block_init(&vd,&vb);
  ogg_stream_init(&os,serial);
  { ogg_packet h,hc,hb; vorbis_analysis_headerout(&vd,&vc,&h,&hc,&hb);
    ogg_stream_packetin(&os,&h); ogg_stream_packetin(&os,&hc); ogg_stream_packetin(&os,&hb);
    while(ogg_stream_flush(&os,&og)){ buf_add(out,og.header,og.header_len); buf_add(out,og.body,og.body_len);} }
  while(!eos){
    long n=1024,i; int c;
    if(done>=total){ vorbis_analysis_wrote(&vd,0); }
    else{
      float **b; if(n>total-done)n=total-done;
      b=vorbis_analysis_buffer(&vd,n);
      for(i=0;i<n;i++){ long t=done+i;
        for(c=0;c<ch;c++){
          float s=0.3f*sinf(t*0.05f*(c+1))+0.05f*frand();
          if(clicks_from>=0 && t>=clicks_from*rate && (t%1500)<8) s+=0.9f*((t%3000)<8?1.f:-1.f);
          b[c][i]=s; } }
      vorbis_analysis_wrote(&vd,n); done+=n;
    }
    while(vorbis_analysis_blockout(&vd,&vb)==1){
      vorbis_analysis(&vb,NULL); vorbis_bitrate_addblock(&vb);
      while(vorbis_bitrate_flushpacket(&vd,&op)){
        op.granulepos+=gran_shift;
        ogg_stream_packetin(&os,&op);
        while(!eos){ if(!ogg_stream_pageout(&os,&og))break;
          buf_add(out,og.header,og.header_len); buf_add(out,og.body,og.body_len);
          if(ogg_page_eos(&og))eos=1; }
      }
    }
  }
  ogg_stream_clear(&os); vorbis_block_clear(&vb); vorbis_dsp_clear(&vd);
  vorbis_comment_clear(&vc); vorbis_info_clear(&vi);
}

/* memory data source with fault injection */
typedef struct { buf_t *b; long pos; int fail_seeks; int fail_reads; long nseek,nread; } src_t;
static size_t m_read(void *p,size_t sz,size_t nm,void *ds){
  src_t *s=ds; long n=sz*nm; s->nread++;
  if(s->fail_reads>0){ s->fail_reads--; errno=EIO; return 0; }
  if(n>s->b->n-s->pos)n=s->b->n-s->pos; if(n<0)n=0;
  memcpy(p,s->b->d+s->pos,n); s->pos+=n; return n;
}
static int m_seek(void *ds,ogg_int64_t off,int wh){
  src_t *s=ds; long np; s->nseek++;
  if(s->fail_seeks>0){ s->fail_seeks--; return -1; }
  np= wh==SEEK_SET?off: wh==SEEK_CUR?s->pos+off: s->b->n+off;
  if(np<0||np>s->b->n)return -1; s->pos=np; return 0;
}
static long m_tell(void *ds){ return ((src_t*)ds)->pos; }
static ov_callbacks CB={m_read,m_seek,NULL,m_tell};

/* reference decode */
typedef struct { float *s; int *link; long n; int ch; } ref_t;
static int make_ref(buf_t *b,ref_t *r,int ch){
  src_t s={b,0,0,0,0,0}; OggVorbis_File vf; long cap=0; int rc;
  if((rc=ov_open_callbacks(&s,&vf,NULL,0,CB))){fprintf(stderr,"ref open %d\n",rc);return -1;}
  r->n=0;r->s=NULL;r->link=NULL;r->ch=ch;
  for(;;){ float **pcm; int sec; long i; ogg_int64_t t=ov_pcm_tell(&vf);
    long got=ov_read_float(&vf,&pcm,4096,&sec);
    if(got==0)break; if(got<0){fprintf(stderr,"ref read %ld\n",got);return -1;}
    if(t!=r->n){fprintf(stderr,"ref: tell %ld expected %ld\n",(long)t,r->n);return -1;}
    if(r->n+got>cap){cap=(r->n+got)*2;r->s=realloc(r->s,cap*sizeof(float));r->link=realloc(r->link,cap*sizeof(int));}
    for(i=0;i<got;i++){r->s[r->n+i]=pcm[0][i];r->link[r->n+i]=sec;}
    r->n+=got; }
  if(r->n!=ov_pcm_total(&vf,-1)){fprintf(stderr,"ref: total %ld read %ld\n",(long)ov_pcm_total(&vf,-1),r->n);return -1;}
  ov_clear(&vf); return 0;
}
/* read up to `want` samples (all if want<0) after a seek and compare with the reference */
static int check_from(OggVorbis_File *vf,ref_t *r,long want,const char *what){
  ogg_int64_t T=ov_pcm_tell(vf); long cnt=0;
  if(T<0||T>r->n){fprintf(stderr,"%s: bad tell %ld\n",what,(long)T);return 1;}
  while(want<0||cnt<want){ float **pcm;int sec;long i;
    ogg_int64_t t=ov_pcm_tell(vf);
    long got=ov_read_float(vf,&pcm,(want<0||want-cnt>4096)?4096:(int)(want-cnt),&sec);
    if(got<0){fprintf(stderr,"%s: read error %ld at %ld\n",what,got,(long)t);return 1;}
    if(t!=T+cnt){fprintf(stderr,"%s: tell %ld, expected %ld\n",what,(long)t,(long)(T+cnt));return 1;}
    if(got==0){ if(T+cnt!=r->n){fprintf(stderr,"%s: EOF at %ld, total %ld\n",what,(long)(T+cnt),r->n);return 1;} break; }
    if(T+cnt+got>r->n){fprintf(stderr,"%s: read past total (%ld+%ld > %ld)\n",what,(long)(T+cnt),got,r->n);return 1;}
    for(i=0;i<got;i++){
      if(memcmp(&pcm[0][i],&r->s[T+cnt+i],sizeof(float))||sec!=r->link[T+cnt+i]){
        fprintf(stderr,"%s: mismatch at %ld (seek pos %ld): got %g/link %d want %g/link %d\n",what,(long)(T+cnt+i),(long)T,pcm[0][i],sec,r->s[T+cnt+i],r->link[T+cnt+i]);return 1;}
    }
    cnt+=got; }
  return 0;
}

/* One transient read error (read_func returns 0 with errno set, the way
   vorbisfile asks a callback to report one) at each possible point during
   an ov_pcm_seek.  Whenever the seek nevertheless reports success, the
   position it reports must match the audio that follows. */
static long fail_after=-1;
static size_t f_read(void *p,size_t sz,size_t nm,void *ds){
  if(fail_after==0){fail_after=-1; errno=EIO; return 0;}
  if(fail_after>0)fail_after--;
  return m_read(p,sz,nm,ds);
}
int main(void){
  buf_t b={0}; ref_t r; long k; int nbad=0; ov_callbacks cb={f_read,m_seek,NULL,m_tell};
  long pos=300000;
  encode_link(&b,111,1,44100,12.0,0.4f,-1,0);
  if(make_ref(&b,&r,1))return 2;
  for(k=0;k<200;k++){
    src_t s; OggVorbis_File vf; int rc;
    memset(&s,0,sizeof s); s.b=&b;
    if(ov_open_callbacks(&s,&vf,NULL,0,cb))return 2;
    fail_after=k;
    rc=ov_pcm_seek(&vf,pos);
    if(fail_after!=-1){ fail_after=-1; ov_clear(&vf); break; } /* past the last read of the seek */
    if(rc==0){
      char w[80]; sprintf(w,"read #%ld of the seek failed, seek returned 0, tell=%ld",k,(long)ov_pcm_tell(&vf));
      if(check_from(&vf,&r,30000,w))nbad++;
    }
    ov_clear(&vf);
  }
  printf("%d fault points give a successful seek with the wrong audio\n",nbad);
  return nbad!=0;
}
