/* C03 / defect of the UNCHANGED tree: ov_bitrate() on a link of zero PCM
 * length divides by a zero ov_time_total() and converts the resulting
 * inf/NaN to long (undefined behaviour; LONG_MIN on x86-64), which is
 * neither a bitrate nor a documented OV_* code.
 *
 * Exits 1 when that happens, 0 otherwise.
 */
#include <stdio.h>
#include <stdlib.h>
#include <string.h>
#include <math.h>
#include <errno.h>
#include <unistd.h>

#include <vorbis/codec.h>
#include <vorbis/vorbisenc.h>
#include <vorbis/vorbisfile.h>

/* ---------------------------------------------------------------- */
/* growing byte buffer                                               */

typedef struct {
  unsigned char *data;
  long           fill;
  long           storage;
} membuf;

static void mb_append(membuf *m, const void *p, long n){
  if(m->fill + n > m->storage){
    m->storage = (m->fill + n) * 2 + 4096;
    m->data = realloc(m->data, m->storage);
    if(!m->data){ fprintf(stderr, "out of memory\n"); exit(2); }
  }
  memcpy(m->data + m->fill, p, n);
  m->fill += n;
}

static void mb_page(membuf *m, ogg_page *og){
  mb_append(m, og->header, og->header_len);
  mb_append(m, og->body, og->body_len);
}

/* ---------------------------------------------------------------- */
/* encode `seconds` of a two-tone signal as one logical stream        */

static void encode_link(membuf *out, int serial, int channels, long rate,
                        float quality, double seconds){
  ogg_stream_state os;
  ogg_page         og;
  ogg_packet       op;
  vorbis_info      vi;
  vorbis_comment   vc;
  vorbis_dsp_state vd;
  vorbis_block     vb;
  long total = (long)(seconds * rate), done = 0;
  int eos = 0;

  vorbis_info_init(&vi);
  if(vorbis_encode_init_vbr(&vi, channels, rate, quality)){
    fprintf(stderr, "encoder setup failed\n");
    exit(2);
  }
  vorbis_comment_init(&vc);
  vorbis_comment_add_tag(&vc, "TITLE", "C03 demo");
  vorbis_analysis_init(&vd, &vi);
  vorbis_block_init(&vd, &vb);
  ogg_stream_init(&os, serial);

  {
    ogg_packet h0, h1, h2;
    vorbis_analysis_headerout(&vd, &vc, &h0, &h1, &h2);
    ogg_stream_packetin(&os, &h0);
    ogg_stream_packetin(&os, &h1);
    ogg_stream_packetin(&os, &h2);
    while(ogg_stream_flush(&os, &og)) mb_page(out, &og);
  }

  while(!eos){
    long n = total - done, i;
    int c;
    if(n > 1024) n = 1024;
    if(n > 0){
      float **buf = vorbis_analysis_buffer(&vd, n);
      for(i = 0; i < n; i++){
        double t = (double)(done + i) / rate;
        float s = (float)(0.4 * sin(2 * M_PI * 440. * t) +
                          0.2 * sin(2 * M_PI * 1337. * t));
        for(c = 0; c < channels; c++) buf[c][i] = (c & 1) ? -s : s;
      }
      done += n;
    }
    vorbis_analysis_wrote(&vd, n > 0 ? n : 0);

    while(vorbis_analysis_blockout(&vd, &vb) == 1){
      vorbis_analysis(&vb, NULL);
      vorbis_bitrate_addblock(&vb);
      while(vorbis_bitrate_flushpacket(&vd, &op)){
        ogg_stream_packetin(&os, &op);
        while(!eos){
          if(!ogg_stream_pageout(&os, &og)) break;
          mb_page(out, &og);
          if(ogg_page_eos(&og)) eos = 1;
        }
      }
    }
  }

  ogg_stream_clear(&os);
  vorbis_block_clear(&vb);
  vorbis_dsp_clear(&vd);
  vorbis_comment_clear(&vc);
  vorbis_info_clear(&vi);
}

/* ---------------------------------------------------------------- */
/* seekable in-memory data source                                    */

typedef struct {
  const unsigned char *data;
  long size;
  long pos;
  int  closed;
} memsrc;

static size_t src_read(void *ptr, size_t size, size_t nmemb, void *ds){
  memsrc *s = ds;
  long want = (long)(size * nmemb), left = s->size - s->pos;
  if(want > left) want = left;
  if(want > 0){
    memcpy(ptr, s->data + s->pos, want);
    s->pos += want;
  }
  return want > 0 ? (size_t)want : 0;
}

static int src_seek(void *ds, ogg_int64_t off, int whence){
  memsrc *s = ds;
  ogg_int64_t base = 0;
  if(whence == SEEK_CUR) base = s->pos;
  else if(whence == SEEK_END) base = s->size;
  else if(whence != SEEK_SET) return -1;
  if(base + off < 0 || base + off > s->size) return -1;
  s->pos = (long)(base + off);
  return 0;
}

static long src_tell(void *ds){ return ((memsrc *)ds)->pos; }
static int  src_close(void *ds){ ((memsrc *)ds)->closed++; return 0; }

static const ov_callbacks mem_callbacks = { src_read, src_seek, src_close, src_tell };


int main(void){
  membuf file = {0, 0, 0};
  OggVorbis_File vf;
  memsrc src;
  int r, bad = 0, i;
  long b[2];

  /* zero seconds of audio: three header packets and an empty tail */
  encode_link(&file, 0x77, 2, 44100, 0.3f, 0.0);
  memset(&src, 0, sizeof(src));
  src.data = file.data;
  src.size = file.fill;
  r = ov_open_callbacks(&src, &vf, NULL, 0, mem_callbacks);
  printf("open = %d\n", r);
  if(r) return 2;
  printf("pcm_total=%ld time_total=%f\n",
         (long)ov_pcm_total(&vf, -1), ov_time_total(&vf, -1));
  b[0] = ov_bitrate(&vf, 0);
  b[1] = ov_bitrate(&vf, -1);
  for(i = 0; i < 2; i++){
    printf("ov_bitrate(vf,%d) = %ld\n", i ? -1 : 0, b[i]);
    if(b[i] < 0 && b[i] != OV_EINVAL && b[i] != OV_FALSE) bad = 1;
  }
  ov_clear(&vf);
  free(file.data);
  return bad;
}
