#include <stdio.h>
#include <stdlib.h>
#include <string.h>
#include <math.h>
#include <errno.h>
#include <vorbis/codec.h>
#include <vorbis/vorbisenc.h>
#include <vorbis/vorbisfile.h>

typedef struct { unsigned char *d; size_t n, cap; } buf_t;
static void buf_add(buf_t *b,const void *p,size_t n){
  if(b->n+n>b->cap){ b->cap=(b->n+n)*2+4096; b->d=realloc(b->d,b->cap); }
  memcpy(b->d+b->n,p,n); b->n+=n;
}
static unsigned lcg=12345;
static float frand(void){ lcg=lcg*1103515245u+12345u; return ((lcg>>8)&0xffff)/32768.f-1.f; }

/* encode `samples` samples of test signal as one logical stream appended to b */
static void encode_link(buf_t *b,int ch,long rate,long samples,int serial,float q){
  vorbis_info vi; vorbis_comment vc; vorbis_dsp_state vd; vorbis_block vb;
  ogg_stream_state os; ogg_page og; ogg_packet op;
  long done=0; int eos=0;
  vorbis_info_init(&vi);
  if(vorbis_encode_init_vbr(&vi,ch,rate,q)){fprintf(stderr,"enc init failed\n");exit(2);}
  vorbis_comment_init(&vc);
  vorbis_analysis_init(&vd,&vi); vorbis_block_init(&vd,&vb);
  ogg_stream_init(&os,serial);
  { ogg_packet h,hc,hb;
    vorbis_analysis_headerout(&vd,&vc,&h,&hc,&hb);
    ogg_stream_packetin(&os,&h);ogg_stream_packetin(&os,&hc);ogg_stream_packetin(&os,&hb);
    while(ogg_stream_flush(&os,&og)){buf_add(b,og.header,og.header_len);buf_add(b,og.body,og.body_len);} }
  while(!eos){
    long n=samples-done; int i,c;
    if(n>1024)n=1024;
    if(n==0) vorbis_analysis_wrote(&vd,0);
    else{
      float **buf=vorbis_analysis_buffer(&vd,n);
      for(i=0;i<n;i++){
        long t=done+i;
        for(c=0;c<ch;c++){
          float v=0.3f*sinf(t*(0.02f+0.013f*c)+serial)+0.1f*sinf(t*0.31f*(c+1));
          if((t%5000)<40)v+=0.6f*frand();   /* transients: force short blocks */
          v+=0.02f*frand();
          buf[c][i]=v;
        }
      }
      vorbis_analysis_wrote(&vd,n); done+=n;
    }
    while(vorbis_analysis_blockout(&vd,&vb)==1){
      vorbis_analysis(&vb,NULL); vorbis_bitrate_addblock(&vb);
      while(vorbis_bitrate_flushpacket(&vd,&op)){
        ogg_stream_packetin(&os,&op);
        while(!eos){
          if(!ogg_stream_pageout(&os,&og))break;
          buf_add(b,og.header,og.header_len);buf_add(b,og.body,og.body_len);
          if(ogg_page_eos(&og))eos=1;
        }
      }
    }
  }
  ogg_stream_clear(&os);vorbis_block_clear(&vb);vorbis_dsp_clear(&vd);
  vorbis_comment_clear(&vc);vorbis_info_clear(&vi);
}

/* memory data source with fault injection */
typedef struct { buf_t *b; size_t pos; int fail_seek; int fail_read; long nseek,nread; } src_t;
static size_t m_read(void *p,size_t sz,size_t nm,void *ds){
  src_t *s=ds; size_t n=sz*nm;
  s->nread++;
  if(s->fail_read){ errno=EIO; return 0; }
  if(n>s->b->n-s->pos)n=s->b->n-s->pos;
  memcpy(p,s->b->d+s->pos,n); s->pos+=n; errno=0; return n;
}
static int m_seek(void *ds,ogg_int64_t off,int wh){
  src_t *s=ds; ogg_int64_t np;
  s->nseek++;
  if(s->fail_seek)return -1;
  if(wh==SEEK_SET)np=off; else if(wh==SEEK_CUR)np=(ogg_int64_t)s->pos+off; else np=(ogg_int64_t)s->b->n+off;
  if(np<0||np>(ogg_int64_t)s->b->n)return -1;
  s->pos=np; return 0;
}
static long m_tell(void *ds){ return ((src_t*)ds)->pos; }
static ov_callbacks cbs={m_read,m_seek,NULL,m_tell};

static int open_mem(OggVorbis_File *vf,src_t *s,buf_t *b){
  memset(s,0,sizeof(*s)); s->b=b;
  return ov_open_callbacks(s,vf,NULL,0,cbs);
}
/* read exactly n samples (or fewer at EOF) into out[ch][n]; returns count */
static long read_n(OggVorbis_File *vf,float **out,int maxch,long n,int *chs){
  long got=0;
  while(got<n){
    float **pcm; int sec; long r=ov_read_float(vf,&pcm,(int)(n-got),&sec);
    int c,nch;
    if(r==OV_HOLE)continue;
    if(r<=0)break;
    nch=ov_info(vf,sec)->channels; if(chs)*chs=nch;
    for(c=0;c<nch&&c<maxch;c++)memcpy(out[c]+got,pcm[c],sizeof(float)*r);
    got+=r;
  }
  return got;
}
/* rising half of the vorbis window for block size B: B/2 entries */
static double vwin(int B,int i){ double x=sin((i+0.5)/B*M_PI); return sin(0.5*M_PI*x*x); }
/* multiplex a dummy second logical stream into a vorbis stream, page by page */
static void mux_foreign(buf_t *out,const buf_t *in,int fserial,int every,int eos_last){
  ogg_sync_state oy; ogg_stream_state fs; ogg_page og,fp; ogg_packet op;
  unsigned char payload[200]; long cnt=0,npages=0; int i;
  char *p;
  ogg_sync_init(&oy); ogg_stream_init(&fs,fserial);
  p=ogg_sync_buffer(&oy,in->n); memcpy(p,in->d,in->n); ogg_sync_wrote(&oy,in->n);
  while(ogg_sync_pageout(&oy,&og)==1){
    int last=ogg_page_eos(&og);
    if(last && !eos_last){
      /* close the foreign stream before the last vorbis page */
      memset(&op,0,sizeof(op)); for(i=0;i<200;i++)payload[i]=(unsigned char)(i+cnt);
      op.packet=payload;op.bytes=200;op.e_o_s=1;op.granulepos=cnt*10;op.packetno=cnt;cnt++;
      ogg_stream_packetin(&fs,&op);
      while(ogg_stream_flush(&fs,&fp)){buf_add(out,fp.header,fp.header_len);buf_add(out,fp.body,fp.body_len);}
    }
    buf_add(out,og.header,og.header_len);buf_add(out,og.body,og.body_len);
    npages++;
    if(last){
      if(eos_last){
        memset(&op,0,sizeof(op)); for(i=0;i<200;i++)payload[i]=(unsigned char)(i+cnt);
        op.packet=payload;op.bytes=200;op.e_o_s=1;op.granulepos=cnt*10;op.packetno=cnt;cnt++;
        ogg_stream_packetin(&fs,&op);
        while(ogg_stream_flush(&fs,&fp)){buf_add(out,fp.header,fp.header_len);buf_add(out,fp.body,fp.body_len);}
      }
      break;
    }
    if(npages==1 || (npages>2 && (npages%every)==0)){
      memset(&op,0,sizeof(op)); for(i=0;i<200;i++)payload[i]=(unsigned char)(i+cnt);
      if(npages==1){memcpy(payload,"\x01" "foreign",8);op.b_o_s=1;}
      op.packet=payload;op.bytes=200;op.granulepos=cnt*10;op.packetno=cnt;cnt++;
      ogg_stream_packetin(&fs,&op);
      while(ogg_stream_flush(&fs,&fp)){buf_add(out,fp.header,fp.header_len);buf_add(out,fp.body,fp.body_len);}
    }
  }
  ogg_stream_clear(&fs); ogg_sync_clear(&oy);
}
/* UNCHANGED tree: in a multiplexed file (a second, non-Vorbis logical stream
   next to the Vorbis one) ov_raw_seek_lap() to a raw position in front of the
   foreign stream's first page reports OV_EOF although the plain ov_raw_seek()
   succeeds and the whole stream follows the target. */
#define N 1024
static float *mk(int n){return calloc(n,sizeof(float));}
int main(void){
  buf_t v={0},b={0}; OggVorbis_File P,T; src_t sp,st; int rp,rl; long follow;
  float *p[2]={mk(N),mk(N)};
  encode_link(&v,2,44100,100000,1001,0.4f);
  mux_foreign(&b,&v,7777,3,0);
  if(open_mem(&P,&sp,&b)||open_mem(&T,&st,&b)){fprintf(stderr,"open failed\n");return 2;}
  if(ov_pcm_seek(&P,40000)||ov_pcm_seek(&T,40000))return 2;
  rp=ov_raw_seek(&P,0); rl=ov_raw_seek_lap(&T,0);
  follow=read_n(&P,p,2,N,0);
  printf("ov_raw_seek(0)=%d (tell %ld, %ld samples read after it)   ov_raw_seek_lap(0)=%d\n",
         rp,(long)ov_pcm_tell(&P)-follow,follow,rl);
  if(rp==0 && rl==OV_EOF && follow>0){printf("lapped seek reports end-of-file although audio follows the target\n");return 1;}
  return rp==rl?0:1;
}
