#include <stdio.h>
#include <stdlib.h>
#include <string.h>
#include <math.h>
#include <errno.h>
#include <vorbis/codec.h>
#include <vorbis/vorbisenc.h>
#include <vorbis/vorbisfile.h>

typedef struct { unsigned char *d; size_t n, cap; } buf_t;
static void buf_add(buf_t *b,const void *p,size_t n){
  if(b->n+n>b->cap){ b->cap=(b->n+n)*2+4096; b->d=realloc(b->d,b->cap); }
  memcpy(b->d+b->n,p,n); b->n+=n;
}
static unsigned lcg=12345;
static float frand(void){ lcg=lcg*1103515245u+12345u; return ((lcg>>8)&0xffff)/32768.f-1.f; }

/* encode `samples` samples of test signal as one logical stream appended to b */
static void encode_link(buf_t *b,int ch,long rate,long samples,int serial,float q){
  vorbis_info vi; vorbis_comment vc; vorbis_dsp_state vd; vorbis_block vb;
  ogg_stream_state os; ogg_page og; ogg_packet op;
  long done=0; int eos=0;
  vorbis_info_init(&vi);
  if(vorbis_encode_init_vbr(&vi,ch,rate,q)){fprintf(stderr,"enc init failed\n");exit(2);}
  vorbis_comment_init(&vc);
  vorbis_analysis_init(&vd,&vi); vorbis_block_init(&vd,&vb);
  ogg_stream_init(&os,serial);
  { ogg_packet h,hc,hb;
    vorbis_analysis_headerout(&vd,&vc,&h,&hc,&hb);
    ogg_stream_packetin(&os,&h);ogg_stream_packetin(&os,&hc);ogg_stream_packetin(&os,&hb);
    while(ogg_stream_flush(&os,&og)){buf_add(b,og.header,og.header_len);buf_add(b,og.body,og.body_len);} }
  while(!eos){
    long n=samples-done; int i,c;
    if(n>1024)n=1024;
    if(n==0) vorbis_analysis_wrote(&vd,0);
    else{
      float **buf=vorbis_analysis_buffer(&vd,n);
      for(i=0;i<n;i++){
        long t=done+i;
        for(c=0;c<ch;c++){
          float v=0.3f*sinf(t*(0.02f+0.013f*c)+serial)+0.1f*sinf(t*0.31f*(c+1));
          if((t%5000)<40)v+=0.6f*frand();   /* transients: force short blocks */
          v+=0.02f*frand();
          buf[c][i]=v;
        }
      }
      vorbis_analysis_wrote(&vd,n); done+=n;
    }
    while(vorbis_analysis_blockout(&vd,&vb)==1){
      vorbis_analysis(&vb,NULL); vorbis_bitrate_addblock(&vb);
      while(vorbis_bitrate_flushpacket(&vd,&op)){
        ogg_stream_packetin(&os,&op);
        while(!eos){
          if(!ogg_stream_pageout(&os,&og))break;
          buf_add(b,og.header,og.header_len);buf_add(b,og.body,og.body_len);
          if(ogg_page_eos(&og))eos=1;
        }
      }
    }
  }
  ogg_stream_clear(&os);vorbis_block_clear(&vb);vorbis_dsp_clear(&vd);
  vorbis_comment_clear(&vc);vorbis_info_clear(&vi);
}

/* memory data source with fault injection */
typedef struct { buf_t *b; size_t pos; int fail_seek; int fail_read; long nseek,nread; } src_t;
static size_t m_read(void *p,size_t sz,size_t nm,void *ds){
  src_t *s=ds; size_t n=sz*nm;
  s->nread++;
  if(s->fail_read){ errno=EIO; return 0; }
  if(n>s->b->n-s->pos)n=s->b->n-s->pos;
  memcpy(p,s->b->d+s->pos,n); s->pos+=n; errno=0; return n;
}
static int m_seek(void *ds,ogg_int64_t off,int wh){
  src_t *s=ds; ogg_int64_t np;
  s->nseek++;
  if(s->fail_seek)return -1;
  if(wh==SEEK_SET)np=off; else if(wh==SEEK_CUR)np=(ogg_int64_t)s->pos+off; else np=(ogg_int64_t)s->b->n+off;
  if(np<0||np>(ogg_int64_t)s->b->n)return -1;
  s->pos=np; return 0;
}
static long m_tell(void *ds){ return ((src_t*)ds)->pos; }
static ov_callbacks cbs={m_read,m_seek,NULL,m_tell};

static int open_mem(OggVorbis_File *vf,src_t *s,buf_t *b){
  memset(s,0,sizeof(*s)); s->b=b;
  return ov_open_callbacks(s,vf,NULL,0,cbs);
}
/* read exactly n samples (or fewer at EOF) into out[ch][n]; returns count */
static long read_n(OggVorbis_File *vf,float **out,int maxch,long n,int *chs){
  long got=0;
  while(got<n){
    float **pcm; int sec; long r=ov_read_float(vf,&pcm,(int)(n-got),&sec);
    int c,nch;
    if(r==OV_HOLE)continue;
    if(r<=0)break;
    nch=ov_info(vf,sec)->channels; if(chs)*chs=nch;
    for(c=0;c<nch&&c<maxch;c++)memcpy(out[c]+got,pcm[c],sizeof(float)*r);
    got+=r;
  }
  return got;
}
/* rising half of the vorbis window for block size B: B/2 entries */
static double vwin(int B,int i){ double x=sin((i+0.5)/B*M_PI); return sin(0.5*M_PI*x*x); }
/* UNCHANGED tree: ov_pcm_seek_lap (and ov_time_seek_lap, which goes through it)
   do not deliver the cross-fade inside the lap region when fewer than half a
   short block of decoded samples is pending after the sample-exact seek. */
#define N 2048
static float *mk(int n){return calloc(n,sizeof(float));}
int main(void){
  buf_t b={0}; int k,c,i;
  OggVorbis_File P,L,O,G; src_t sp,sl,so,sg;
  float *p[2]={mk(N),mk(N)},*l[2]={mk(N),mk(N)},*o[2]={mk(N),mk(N)},*g[2]={mk(N),mk(N)};
  int bs0,n0,cases=0,mism=0,mism_short=0,mism_full=0,pagemism=0,outside=0;
  encode_link(&b,2,44100,150000,1001,0.4f);
  if(open_mem(&P,&sp,&b)||open_mem(&L,&sl,&b)||open_mem(&O,&so,&b)||open_mem(&G,&sg,&b))return 2;
  bs0=vorbis_info_blocksize(ov_info(&P,-1),0); n0=bs0/2;
  for(k=0;k<300;k++){
    ogg_int64_t oldpos=(k*7919)%140000, tgt=(k*104729+k)%149000;
    int avail; double worst=0,worstpage=0;
    /* sample-exact variant */
    if(ov_pcm_seek(&L,oldpos)||ov_pcm_seek(&O,oldpos))return 2;
    if(ov_pcm_seek(&P,tgt)||ov_pcm_seek_lap(&L,tgt))return 2;
    avail=vorbis_synthesis_pcmout(&P.vd,NULL);   /* decoded samples pending after the plain seek */
    if(read_n(&P,p,2,N,0)<n0*2||read_n(&L,l,2,N,0)<n0*2||read_n(&O,o,2,n0,0)!=n0)continue;
    /* page variant from the same old position, as a control */
    if(ov_pcm_seek(&G,oldpos)||ov_pcm_seek_page(&P,tgt)||ov_pcm_seek_page_lap(&G,tgt))return 2;
    cases++;
    for(c=0;c<2;c++){
      for(i=n0;i<2*n0;i++)if(memcmp(&p[c][i],&l[c][i],sizeof(float)))outside++;
      for(i=0;i<n0;i++){
        double w=vwin(bs0,i),wd=w*w,d=fabs(p[c][i]*wd+o[c][i]*(1.-wd)-l[c][i]);
        if(d>worst)worst=d;
      }
    }
    read_n(&P,p,2,n0,0);read_n(&G,g,2,n0,0);
    for(c=0;c<2;c++)for(i=0;i<n0;i++){
      double w=vwin(bs0,i),wd=w*w,d=fabs(p[c][i]*wd+o[c][i]*(1.-wd)-g[c][i]);
      if(d>worstpage)worstpage=d;
    }
    if(worstpage>1e-4)pagemism++;
    if(worst>1e-4){
      mism++; if(avail<n0)mism_short++; else mism_full++;
      if(mism<=8)printf("old %6ld -> target %6ld: %3d of %d samples pending after the seek, deviation from the cross-fade %.4f\n",
                        (long)oldpos,(long)tgt,avail,n0,worst);
    }
  }
  printf("%d seeks: ov_pcm_seek_lap off the cross-fade in %d (pending<%d: %d, pending>=%d: %d); "
         "ov_pcm_seek_page_lap off in %d; samples differing after the region: %d\n",
         cases,mism,n0,mism_short,n0,mism_full,pagemism,outside);
  return mism?1:0;
}
