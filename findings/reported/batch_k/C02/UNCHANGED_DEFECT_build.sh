#!/bin/bash
# usage: bash build.sh <build-dir> <source-dir>   -> ./UNCHANGED_DEFECT_repro
set -e
S="$2"
CC="${CC:-cc}"
LIBSRC="mdct smallft block envelope window lsp lpc analysis synthesis psy info
        floor1 floor0 res0 mapping0 registry codebook sharedbook lookup bitrate"
SRCS=""
for f in $LIBSRC; do SRCS="$SRCS $S/lib/$f.c"; done
$CC -g -O1 -fsanitize=shift-exponent -fno-sanitize-recover=all \
    -I"$S/include" -I"$S/lib" UNCHANGED_DEFECT_repro.c $SRCS -logg -lm -lpthread -o UNCHANGED_DEFECT_repro
