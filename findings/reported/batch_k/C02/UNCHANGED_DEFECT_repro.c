/* Unchanged tree: floor 0 with 31 or 32 amplitude bits.
   floor0_inverse1 computes  long maxval=(1<<info->ampbits)-1  in int
   arithmetic; ampbits is a 6 bit field and oggpack_read delivers up to
   32 bits, so 31 and 32 reach the shift.  Build with build.sh (UBSan). */

#include <stdio.h>
#include <stdlib.h>
#include <string.h>
#include <ogg/ogg.h>
#include <vorbis/codec.h>

static void wstr(oggpack_buffer *o,const char *s){
  while(*s)oggpack_write(o,(unsigned char)*s++,8);
}

static void mkpacket(ogg_packet *op,oggpack_buffer *o,int bos,long no){
  long n=oggpack_bytes(o);
  memset(op,0,sizeof(*op));
  op->packet=malloc(n?n:1);
  memcpy(op->packet,oggpack_get_buffer(o),n);
  op->bytes=n;
  op->b_o_s=bos;
  op->packetno=no;
  op->granulepos=(no<3?0:-1);
  oggpack_writeclear(o);
}

static void id_header(ogg_packet *op){
  oggpack_buffer o;
  oggpack_writeinit(&o);
  oggpack_write(&o,1,8); wstr(&o,"vorbis");
  oggpack_write(&o,0,32);      /* version */
  oggpack_write(&o,1,8);       /* channels */
  oggpack_write(&o,44100,32);  /* rate */
  oggpack_write(&o,0,32);
  oggpack_write(&o,0,32);
  oggpack_write(&o,0,32);
  oggpack_write(&o,6,4);       /* short block 64 */
  oggpack_write(&o,6,4);       /* long block 64 */
  oggpack_write(&o,1,1);
  mkpacket(op,&o,1,0);
}

static void comment_header(ogg_packet *op){
  oggpack_buffer o;
  oggpack_writeinit(&o);
  oggpack_write(&o,3,8); wstr(&o,"vorbis");
  oggpack_write(&o,0,32);      /* vendor length */
  oggpack_write(&o,0,32);      /* comments */
  oggpack_write(&o,1,1);
  mkpacket(op,&o,0,1);
}


static void setup_header(ogg_packet *op,int ampbits){
  oggpack_buffer o;
  oggpack_writeinit(&o);
  oggpack_write(&o,5,8); wstr(&o,"vorbis");

  /* one codebook: dim 1, two entries of length 1, value mapping 1 */
  oggpack_write(&o,0,8);
  oggpack_write(&o,0x564342,24);
  oggpack_write(&o,1,16);
  oggpack_write(&o,2,24);
  oggpack_write(&o,0,1);       /* not ordered */
  oggpack_write(&o,0,1);       /* not sparse */
  oggpack_write(&o,0,5);
  oggpack_write(&o,0,5);
  oggpack_write(&o,1,4);       /* maptype 1 */
  oggpack_write(&o,0,32);      /* q_min */
  oggpack_write(&o,0,32);      /* q_delta */
  oggpack_write(&o,0,4);       /* q_quant-1 */
  oggpack_write(&o,0,1);       /* q_sequencep */
  oggpack_write(&o,0,1);       /* two quant values of one bit */
  oggpack_write(&o,1,1);

  /* time placeholder */
  oggpack_write(&o,0,6);
  oggpack_write(&o,0,16);

  /* one floor, type 0 */
  oggpack_write(&o,0,6);
  oggpack_write(&o,0,16);
  oggpack_write(&o,2,8);       /* order */
  oggpack_write(&o,44100,16);  /* rate */
  oggpack_write(&o,16,16);     /* bark map size */
  oggpack_write(&o,ampbits,6); /* amplitude bits */
  oggpack_write(&o,100,8);     /* amplitude offset */
  oggpack_write(&o,0,4);       /* one book */
  oggpack_write(&o,0,8);

  /* one residue, type 1, empty range */
  oggpack_write(&o,0,6);
  oggpack_write(&o,1,16);
  oggpack_write(&o,0,24);
  oggpack_write(&o,0,24);
  oggpack_write(&o,0,24);
  oggpack_write(&o,0,6);
  oggpack_write(&o,0,8);
  oggpack_write(&o,0,3);
  oggpack_write(&o,0,1);

  /* one mapping */
  oggpack_write(&o,0,6);
  oggpack_write(&o,0,16);
  oggpack_write(&o,0,1);
  oggpack_write(&o,0,1);
  oggpack_write(&o,0,2);
  oggpack_write(&o,0,8);
  oggpack_write(&o,0,8);
  oggpack_write(&o,0,8);

  /* one mode */
  oggpack_write(&o,0,6);
  oggpack_write(&o,0,1);
  oggpack_write(&o,0,16);
  oggpack_write(&o,0,16);
  oggpack_write(&o,0,8);

  oggpack_write(&o,1,1);
  mkpacket(op,&o,0,2);
}

static void audio_packet(ogg_packet *op,int ampbits,long no){
  oggpack_buffer o;
  oggpack_writeinit(&o);
  oggpack_write(&o,0,1);        /* audio */
  oggpack_write(&o,1,ampbits);  /* amplitude 1 */
  oggpack_write(&o,0,1);        /* book number, ilog(1) bits */
  oggpack_write(&o,0,1);        /* two scalar codewords */
  oggpack_write(&o,1,1);
  mkpacket(op,&o,0,no);
}

static int run(int ampbits){
  vorbis_info vi;
  vorbis_comment vc;
  vorbis_dsp_state vd;
  vorbis_block vb;
  ogg_packet h[3],a;
  int i,ret;

  vorbis_info_init(&vi);
  vorbis_comment_init(&vc);
  id_header(&h[0]);
  comment_header(&h[1]);
  setup_header(&h[2],ampbits);
  for(i=0;i<3;i++){
    ret=vorbis_synthesis_headerin(&vi,&vc,&h[i]);
    if(ret){
      fprintf(stderr,"header %d refused: %d\n",i,ret);
      return 2;
    }
  }
  if(vorbis_synthesis_init(&vd,&vi)){
    fprintf(stderr,"synthesis_init refused\n");
    return 2;
  }
  vorbis_block_init(&vd,&vb);

  for(i=0;i<3;i++){
    float **pcm;
    int n;
    audio_packet(&a,ampbits,3+i);
    ret=vorbis_synthesis(&vb,&a);
    if(ret){
      fprintf(stderr,"audio packet refused: %d\n",ret);
      return 2;
    }
    ret=vorbis_synthesis_blockin(&vd,&vb);
    if(ret){
      fprintf(stderr,"blockin refused: %d\n",ret);
      return 2;
    }
    while((n=vorbis_synthesis_pcmout(&vd,&pcm))>0){
      vorbis_synthesis_read(&vd,n);
    }
    free(a.packet);
  }

  vorbis_block_clear(&vb);
  vorbis_dsp_clear(&vd);
  vorbis_comment_clear(&vc);
  vorbis_info_clear(&vi);
  for(i=0;i<3;i++)free(h[i].packet);
  return 0;
}

int main(void){
  int ret;
  if((ret=run(8)))return ret;
  if((ret=run(30)))return ret;
  if((ret=run(31)))return ret;
  if((ret=run(32)))return ret;
  puts("ok");
  return 0;
}
