/* Reproducer for an UNCHANGED-tree deviation from C05: a bitrate bound that
   does not fit the signed 32-bit header field is accepted by the encoder
   set-up, kept in the encoder's vorbis_info, and comes back from the
   decoder as a different (negative) number.
   cc -I<wt>/include unchanged_defect_repro.c <b>/lib/libvorbisenc.a <b>/lib/libvorbis.a -logg -lm
   exits 1 when the mismatch is present. */
#include <stdio.h>
#include <vorbis/codec.h>
#include <vorbis/vorbisenc.h>

int main(void){
  vorbis_info vi,dvi; vorbis_comment vc,dvc; vorbis_dsp_state vd;
  ogg_packet h[3]; int i,ret;

  vorbis_info_init(&vi);
  /* hard maximum of 3 Gbit/s: silly, but nothing refuses it */
  ret=vorbis_encode_init(&vi,2,44100,3000000000L,128000,-1);
  if(ret){ printf("set-up refused the value (%d): no defect\n",ret); return 0; }
  vorbis_comment_init(&vc);
  vorbis_analysis_init(&vd,&vi);
  vorbis_analysis_headerout(&vd,&vc,&h[0],&h[1],&h[2]);

  vorbis_info_init(&dvi); vorbis_comment_init(&dvc);
  for(i=0;i<3;i++)
    if((ret=vorbis_synthesis_headerin(&dvi,&dvc,&h[i]))){
      printf("header %d rejected (%d)\n",i,ret); return 2;
    }
  printf("encoder bitrate_upper=%ld  decoded bitrate_upper=%ld\n",
         vi.bitrate_upper,dvi.bitrate_upper);
  return vi.bitrate_upper!=dvi.bitrate_upper;
}
