#include <stdio.h>
#include <string.h>
#include <math.h>
#include <vorbis/codec.h>
#include <vorbis/vorbisenc.h>
int main(void){
  vorbis_info vi; vorbis_dsp_state vd; vorbis_block vb; ogg_packet op;
  struct ovectl_ratemanage2_arg a; int i,rc; long bytes=0,n=0;
  vorbis_info_init(&vi);
  vorbis_encode_setup_managed(&vi,2,44100,-1,128000,-1);
  vorbis_encode_ctl(&vi,OV_ECTL_RATEMANAGE2_GET,&a);
  a.bitrate_limit_reservoir_bias=NAN;
  rc=vorbis_encode_ctl(&vi,OV_ECTL_RATEMANAGE2_SET,&a);
  printf("RATEMANAGE2_SET with NaN bias -> %d\n",rc);
  vorbis_encode_setup_init(&vi);
  vorbis_analysis_init(&vd,&vi); vorbis_block_init(&vd,&vb);
  for(i=0;i<20;i++){
    float **b=vorbis_analysis_buffer(&vd,1024); int j;
    for(j=0;j<1024;j++)b[0][j]=b[1][j]=sinf((i*1024+j)*.05f)*.5f;
    vorbis_analysis_wrote(&vd,1024);
    while(vorbis_analysis_blockout(&vd,&vb)==1){
      vorbis_analysis(&vb,NULL); vorbis_bitrate_addblock(&vb);
      while(vorbis_bitrate_flushpacket(&vd,&op)){bytes+=op.bytes;n++;}
    }
  }
  printf("%ld packets, %ld bytes\n",n,bytes);
  vorbis_block_clear(&vb); vorbis_dsp_clear(&vd); vorbis_info_clear(&vi);
  return 0;
}
