/* Reproducer for UNCHANGED_DEFECT.md (property C01), unmodified library.
 *
 * A residue configuration in which no classification has any pass book
 * (every cascade bitmap is 0) is legal.  The specification's residue packet
 * decode (section 8.6.2, steps 3-12) still reads one classification codeword
 * per group of partitions in pass 0.  libvorbis derives the number of passes
 * from the cascade bitmaps, finds 0, and reads nothing at all.  When another
 * submap's residue follows in the same packet, libvorbis therefore starts
 * decoding it at the wrong bit.
 *
 * Stream: 2 channels, 2 submaps.  Submap 0 (channel 0) uses residue 0, which
 * has 2 classifications and no books; submap 1 (channel 1) uses residue 1,
 * an ordinary type 1 residue.  Channel 0's spectrum is all zero by
 * construction; channel 1 carries the signal.
 *
 * The reference below is the same straight-from-the-specification decoder as
 * in out/A/demo.c and out/B/demo.c.
 *
 * exit 0: decoder output conforms; exit 1: it does not.
 *
 * Control: with the argument --omit-classwords the packets are written
 * without channel 0's classification codewords (which is NOT what the
 * specification prescribes); libvorbis then reproduces the reference exactly,
 * which pins the divergence on those codewords.
 */
#include <stdio.h>
#include <stdlib.h>
#include <string.h>
#include <math.h>
#include <ogg/ogg.h>
#include <vorbis/codec.h>

#ifndef M_PI
#define M_PI 3.14159265358979323846
#endif

#define CH      2
#define BS0     64
#define BS1     256
#define PART    16          /* residue partition size */
#define NPKT    14

/* ------------------------------------------------------------------ */
/* bit-level helpers                                                    */

static void huff(oggpack_buffer *o,unsigned code,int len){
  /* Vorbis codewords are read one bit at a time, most significant first */
  int i;
  for(i=len-1;i>=0;i--)oggpack_write(o,(code>>i)&1,1);
}

/* Vorbis float32: 21 bit mantissa, 10 bit exponent biased by 788, sign */
static unsigned long f32pack(double v){
  unsigned long sign=0;
  long mant,e;
  if(v<0){sign=0x80000000UL;v=-v;}
  if(v==0)return (788UL<<21);
  e=(long)floor(log2(v));
  mant=(long)floor(ldexp(v,(int)(20-e))+.5);
  return sign|((unsigned long)(e-20+788)<<21)|(unsigned long)mant;
}
static double f32unpack(unsigned long x){
  double m=(double)(x&0x1fffff);
  int e=(int)((x&0x7fe00000UL)>>21);
  if(x&0x80000000UL)m=-m;
  return ldexp(m,e-788);
}

/* codebook, unordered, not sparse, all lengths given */
static void put_book(oggpack_buffer *o,int dim,long entries,const int *len,
                     int maptype,unsigned long qmin,unsigned long qdelta,
                     int qbits,int seqp,const long *mult,long nmult){
  long i;
  oggpack_write(o,0x564342,24);
  oggpack_write(o,dim,16);
  oggpack_write(o,entries,24);
  oggpack_write(o,0,1);             /* not ordered */
  oggpack_write(o,0,1);             /* not sparse */
  for(i=0;i<entries;i++)oggpack_write(o,len[i]-1,5);
  oggpack_write(o,maptype,4);
  if(maptype){
    oggpack_write(o,qmin,32);
    oggpack_write(o,qdelta,32);
    oggpack_write(o,qbits-1,4);
    oggpack_write(o,seqp,1);
    for(i=0;i<nmult;i++)oggpack_write(o,mult[i],qbits);
  }
}

/* ------------------------------------------------------------------ */
/* the stream's configuration                                           */
/*
 * books: 0  class book      dim 2, 4 entries of length 2, no values
 *        1  residue VQ book dim 2, 16 entries of length 4, lattice of
 *           4 values {-1,0,1,2}
 * floor 0 : type 1, no partitions (two posts, x=0 and x=128), multiplier 1
 * residue 0: type 1, begin 0, end 128, partition size 16, 2 classifications,
 *            neither has any book (cascade 0, 0)
 * residue 1: type 1, begin 0, end 128, partition size 16, 2 classifications
 *            (class 0: nothing coded; class 1: book 1 in pass 0)
 * mapping 0: 2 submaps, channel 0 -> submap 0, channel 1 -> submap 1, no
 *            coupling; submap s uses floor 0 / residue s
 * modes    : 0 short (64), 1 long (256), both on mapping 0
 */
static unsigned long RQMIN,RQDELTA;

static void make_headers(unsigned char **h,long *hl){
  oggpack_buffer o;
  int i;

  /* identification */
  oggpack_writeinit(&o);
  oggpack_write(&o,1,8);
  for(i=0;i<6;i++)oggpack_write(&o,"vorbis"[i],8);
  oggpack_write(&o,0,32);
  oggpack_write(&o,CH,8);
  oggpack_write(&o,44100,32);
  oggpack_write(&o,0,32);oggpack_write(&o,0,32);oggpack_write(&o,0,32);
  oggpack_write(&o,6,4);            /* 64  */
  oggpack_write(&o,8,4);            /* 256 */
  oggpack_write(&o,1,1);
  hl[0]=oggpack_bytes(&o);h[0]=malloc(hl[0]);
  memcpy(h[0],oggpack_get_buffer(&o),hl[0]);
  oggpack_writeclear(&o);

  /* comment */
  oggpack_writeinit(&o);
  oggpack_write(&o,3,8);
  for(i=0;i<6;i++)oggpack_write(&o,"vorbis"[i],8);
  oggpack_write(&o,0,32);
  oggpack_write(&o,0,32);
  oggpack_write(&o,1,1);
  hl[1]=oggpack_bytes(&o);h[1]=malloc(hl[1]);
  memcpy(h[1],oggpack_get_buffer(&o),hl[1]);
  oggpack_writeclear(&o);

  /* setup */
  oggpack_writeinit(&o);
  oggpack_write(&o,5,8);
  for(i=0;i<6;i++)oggpack_write(&o,"vorbis"[i],8);

  oggpack_write(&o,2-1,8);          /* two codebooks */
  {
    int len[4]={2,2,2,2};
    put_book(&o,2,4,len,0,0,0,0,0,NULL,0);
  }
  {
    int len[16];
    long mult[4]={0,1,2,3};
    for(i=0;i<16;i++)len[i]=4;
    RQMIN=f32pack(-1.);RQDELTA=f32pack(1.);
    put_book(&o,2,16,len,1,RQMIN,RQDELTA,2,0,mult,4);
  }

  oggpack_write(&o,0,6);            /* one time-domain placeholder */
  oggpack_write(&o,0,16);

  oggpack_write(&o,0,6);            /* one floor */
  oggpack_write(&o,1,16);           /* type 1 */
  oggpack_write(&o,0,5);            /* no partitions */
  oggpack_write(&o,1-1,2);          /* multiplier 1 */
  oggpack_write(&o,7,4);            /* rangebits: posts at 0 and 128 */

  oggpack_write(&o,2-1,6);          /* two residues */
  oggpack_write(&o,1,16);           /* type 1 */
  oggpack_write(&o,0,24);           /* begin */
  oggpack_write(&o,128,24);         /* end */
  oggpack_write(&o,PART-1,24);      /* partition size */
  oggpack_write(&o,2-1,6);          /* classifications */
  oggpack_write(&o,0,8);            /* class book */
  oggpack_write(&o,0,3);oggpack_write(&o,0,1);   /* class 0 cascade 0 */
  oggpack_write(&o,0,3);oggpack_write(&o,0,1);   /* class 1 cascade 0 */
  oggpack_write(&o,1,16);           /* type 1 */
  oggpack_write(&o,0,24);           /* begin */
  oggpack_write(&o,128,24);         /* end */
  oggpack_write(&o,PART-1,24);      /* partition size */
  oggpack_write(&o,2-1,6);          /* classifications */
  oggpack_write(&o,0,8);            /* class book */
  oggpack_write(&o,0,3);oggpack_write(&o,0,1);   /* class 0 cascade 0 */
  oggpack_write(&o,1,3);oggpack_write(&o,0,1);   /* class 1 cascade 1 */
  oggpack_write(&o,1,8);            /* class 1, pass 0: book 1 */

  oggpack_write(&o,0,6);            /* one mapping */
  oggpack_write(&o,0,16);           /* type 0 */
  oggpack_write(&o,1,1);            /* submaps flag */
  oggpack_write(&o,2-1,4);          /* 2 submaps */
  oggpack_write(&o,0,1);            /* no coupling */
  oggpack_write(&o,0,2);            /* reserved */
  oggpack_write(&o,0,4);            /* channel 0 -> submap 0 */
  oggpack_write(&o,1,4);            /* channel 1 -> submap 1 */
  for(i=0;i<2;i++){
    oggpack_write(&o,0,8);          /* time placeholder */
    oggpack_write(&o,0,8);          /* floor 0 */
    oggpack_write(&o,i,8);          /* residue i */
  }

  oggpack_write(&o,2-1,6);          /* two modes */
  oggpack_write(&o,0,1);oggpack_write(&o,0,16);oggpack_write(&o,0,16);
  oggpack_write(&o,0,8);
  oggpack_write(&o,1,1);oggpack_write(&o,0,16);oggpack_write(&o,0,16);
  oggpack_write(&o,0,8);
  oggpack_write(&o,1,1);            /* framing */
  hl[2]=oggpack_bytes(&o);h[2]=malloc(hl[2]);
  memcpy(h[2],oggpack_get_buffer(&o),hl[2]);
  oggpack_writeclear(&o);
}

/* ------------------------------------------------------------------ */
/* packet plan                                                           */

typedef struct{
  int W;                 /* 0 short, 1 long */
  int used[CH];          /* floor 'nonzero' flag per channel */
  int y[CH][2];          /* the two floor posts, 0..255 */
  int cls[CH][8];        /* residue classification per partition */
  int ent[CH][8][PART/2];/* residue book entries */
} pkt;

static pkt plan[NPKT];

/* control experiment: leave channel 0's classification codewords out of the
   packets, i.e. write the packets the way libvorbis (not the specification)
   reads them */
static int omit_classwords=0;

static unsigned long rng=12345;
static unsigned rnd(void){rng=rng*1103515245UL+12345UL;return (rng>>16)&0x7fff;}

static void make_plan(void){
  /* block sizes: every kind of transition occurs */
  static const int Wseq[NPKT]={0,0,1,1,0,1,0,0,1,1,1,0,1,1};
  int p,c,i,j;
  for(p=0;p<NPKT;p++){
    plan[p].W=Wseq[p];
    for(c=0;c<CH;c++){
      plan[p].used[c]=1;
      plan[p].y[c][0]=200+rnd()%56;
      plan[p].y[c][1]=200+rnd()%56;
      for(i=0;i<8;i++){
        plan[p].cls[c][i]=(rnd()%4)!=0;
        for(j=0;j<PART/2;j++)plan[p].ent[c][i][j]=rnd()%16;
      }
    }
  }
}

static long make_packet(int p,unsigned char *out){
  oggpack_buffer o;
  const pkt *k=plan+p;
  int n2=(k->W?BS1:BS0)/2;
  int parts=n2/PART;
  int c,i,j,g;
  long bytes;

  oggpack_writeinit(&o);
  oggpack_write(&o,0,1);                /* audio packet */
  oggpack_write(&o,k->W,1);             /* mode number, ilog(2-1)=1 bit */
  if(k->W){
    oggpack_write(&o,p>0?plan[p-1].W:0,1);        /* previous window flag */
    oggpack_write(&o,p+1<NPKT?plan[p+1].W:0,1);   /* next window flag */
  }
  /* floors, channel order */
  for(c=0;c<CH;c++){
    oggpack_write(&o,k->used[c],1);
    if(k->used[c]){
      oggpack_write(&o,k->y[c][0],8);   /* ilog(256-1) bits */
      oggpack_write(&o,k->y[c][1],8);
    }
  }
  /* residues, submap order; submap s holds channel s alone.  A channel
     whose floor is unused (and that is not coupled) is 'do not decode':
     nothing at all is coded for it */
  for(c=0;c<CH;c++){
    if(!k->used[c])continue;
    for(g=0;g<parts;g+=2){
      /* one class codeword for two partitions, first partition in the
         more significant digit */
      if(c==1 || !omit_classwords)
        huff(&o,k->cls[c][g]*2+k->cls[c][g+1],2);
      for(i=g;i<g+2;i++)
        if(c==1 && k->cls[c][i])  /* residue 0 has no books for any class */
          for(j=0;j<PART/2;j++)huff(&o,k->ent[c][i][j],4);
    }
  }
  bytes=oggpack_bytes(&o);
  memcpy(out,oggpack_get_buffer(&o),bytes);
  oggpack_writeclear(&o);
  return bytes;
}

/* ------------------------------------------------------------------ */
/* reference decode, straight from the specification                     */

/* floor1_inverse_dB_table is a 256 step geometric progression from
   1.0649863e-07 to 1.0 */
static double inverse_dB(int i){
  return exp(log(1.0649863e-07)*(255-i)/255.);
}

/* spec 7.2.4 render_line, applied to a flat value vector */
static void ref_render_line(int x0,int y0,int x1,int y1,int *v,int n){
  int dy=y1-y0,adx=x1-x0,ady=abs(dy),base=dy/adx,x=x0,y=y0,err=0;
  int sy=dy<0?base-1:base+1;
  ady-=abs(base)*adx;
  if(x<n)v[x]=y;
  for(x=x0+1;x<x1;x++){
    err+=ady;
    if(err>=adx){err-=adx;y+=sy;}else y+=base;
    if(x<n)v[x]=y;
  }
}

static double vwin(double x){ /* x in (0,1): rising slope */
  double s=sin(x*M_PI/2.);
  return sin(M_PI/2.*s*s);
}

static double *ref[CH];
static long reflen;

static void reference(void){
  long center=0,pos;
  int p,c,i,j,t;
  long total=0;
  for(p=0;p<NPKT;p++)total+=BS1;
  for(c=0;c<CH;c++)ref[c]=calloc(total+BS1,sizeof(double));

  {
    double dmin=f32unpack(RQMIN),ddelta=f32unpack(RQDELTA);
    long first_center=-1;
    for(p=0;p<NPKT;p++){
      const pkt *k=plan+p;
      int n=k->W?BS1:BS0,n2=n/2;
      int lw=(k->W && p>0 && plan[p-1].W)?BS1:BS0;
      int rw=(k->W && p+1<NPKT && plan[p+1].W)?BS1:BS0;
      int ls,le,rs,re;
      double win[BS1];
      if(!k->W){lw=rw=BS0;}
      /* for a long block next to a short one the slope is short-sized */
      if(k->W && !(p>0 && plan[p-1].W))lw=BS0;
      if(k->W && !(p+1<NPKT && plan[p+1].W))rw=BS0;
      ls=n/4-lw/4;le=n/4+lw/4;rs=n*3/4-rw/4;re=n*3/4+rw/4;
      for(i=0;i<n;i++){
        if(i<ls)win[i]=0;
        else if(i<le)win[i]=vwin((i-ls+.5)/(lw/2));
        else if(i<rs)win[i]=1;
        else if(i<re)win[i]=vwin(1.-(i-rs+.5)/(rw/2));
        else win[i]=0;
      }

      if(p==0)center=BS1; /* anywhere far enough from 0 */
      else center+=(plan[p-1].W?BS1:BS0)/4+n/4;
      if(p==0)first_center=center;
      pos=center-n2;

      for(c=0;c<CH;c++){
        double X[BS1/2];
        int fl[BS1/2];
        if(!k->used[c])continue;       /* whole block is zero */
        /* residue type 1: vectors laid end to end in each partition */
        for(i=0;i<n2;i++)X[i]=0;
        for(i=0;i<n2/PART;i++)
          if(c==1 && k->cls[c][i])
            for(j=0;j<PART/2;j++){
              int e=k->ent[c][i][j];
              X[i*PART+2*j  ]+=(e%4)*ddelta+dmin;
              X[i*PART+2*j+1]+=((e/4)%4)*ddelta+dmin;
            }
        /* floor 1, two posts, multiplier 1 */
        ref_render_line(0,k->y[c][0],128,k->y[c][1],fl,n2);
        for(i=0;i<n2;i++)X[i]*=inverse_dB(fl[i]);
        /* inverse MDCT, window, overlap-add */
        for(t=0;t<n;t++){
          double acc=0;
          for(i=0;i<n2;i++)
            acc+=X[i]*cos(M_PI/n2*(t+.5+n2/2.)*(i+.5));
          ref[c][pos+t]+=acc*win[t];
        }
      }
    }
    reflen=center-first_center;
    for(c=0;c<CH;c++)
      memmove(ref[c],ref[c]+first_center,reflen*sizeof(double));
  }
}

/* ------------------------------------------------------------------ */

int main(int argc,char **argv){
  unsigned char *h[3];long hl[3];
  unsigned char buf[4096];
  vorbis_info vi;vorbis_comment vc;vorbis_dsp_state vd;vorbis_block vb;
  ogg_packet op;
  float *got[CH];
  long gotlen=0,cap;
  int i,c,p,ret,bad=0;
  double peak=0,worst=0;

  if(argc>1 && !strcmp(argv[1],"--omit-classwords"))omit_classwords=1;
  make_plan();
  make_headers(h,hl);
  reference();
  cap=reflen+4*BS1;
  for(c=0;c<CH;c++)got[c]=calloc(cap,sizeof(float));

  vorbis_info_init(&vi);
  vorbis_comment_init(&vc);
  for(i=0;i<3;i++){
    memset(&op,0,sizeof(op));
    op.packet=h[i];op.bytes=hl[i];op.b_o_s=(i==0);op.packetno=i;
    ret=vorbis_synthesis_headerin(&vi,&vc,&op);
    if(ret){
      printf("FAIL: valid header %d rejected (%d)\n",i,ret);
      return 1;
    }
  }
  if(vorbis_synthesis_init(&vd,&vi)){printf("FAIL: synthesis_init\n");return 1;}
  vorbis_block_init(&vd,&vb);

  for(p=0;p<NPKT;p++){
    float **pcm;
    int n;
    memset(&op,0,sizeof(op));
    op.packet=buf;op.bytes=make_packet(p,buf);
    op.packetno=3+p;op.granulepos=-1;
    ret=vorbis_synthesis(&vb,&op);
    if(ret){printf("FAIL: vorbis_synthesis packet %d -> %d\n",p,ret);return 1;}
    ret=vorbis_synthesis_blockin(&vd,&vb);
    if(ret){printf("FAIL: vorbis_synthesis_blockin packet %d -> %d\n",p,ret);return 1;}
    while((n=vorbis_synthesis_pcmout(&vd,&pcm))>0){
      if(gotlen+n>cap){printf("FAIL: far too many samples\n");return 1;}
      for(c=0;c<CH;c++)memcpy(got[c]+gotlen,pcm[c],n*sizeof(float));
      gotlen+=n;
      vorbis_synthesis_read(&vd,n);
    }
  }

  if(gotlen!=reflen){
    printf("FAIL: decoder returned %ld samples per channel, the "
           "specification defines %ld\n",gotlen,reflen);
    return 1;
  }
  for(c=0;c<CH;c++)
    for(i=0;i<reflen;i++)if(fabs(ref[c][i])>peak)peak=fabs(ref[c][i]);
  for(c=0;c<CH;c++){
    long firstbad=-1,nbad=0;
    for(i=0;i<reflen;i++){
      double d=fabs(got[c][i]-ref[c][i]);
      if(d>worst)worst=d;
      if(!(d<=2e-5*peak)){
        if(firstbad<0)firstbad=i;
        nbad++;
      }
    }
    if(nbad){
      printf("FAIL: channel %d: %ld of %ld samples differ from the "
             "specification's result; first at %ld: got %g want %g\n",
             c,nbad,reflen,firstbad,got[c][firstbad],ref[c][firstbad]);
      bad=1;
    }
  }
  printf("%ld samples/channel, peak %g, worst abs deviation %g\n",
         reflen,peak,worst);
  if(bad)return 1;
  printf("OK: decoder output matches the specification\n");

  vorbis_block_clear(&vb);
  vorbis_dsp_clear(&vd);
  vorbis_comment_clear(&vc);
  vorbis_info_clear(&vi);
  return 0;
}
