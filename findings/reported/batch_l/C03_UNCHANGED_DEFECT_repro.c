/* UNCHANGED_DEFECT_repro.c -- C03 violated by the UNCHANGED library:
 * opening a seekable chained stream with many links recurses once per link
 * (_bisect_forward_serialno) and exhausts the stack.
 *
 *   cc -g -I<wt>/include UNCHANGED_DEFECT_repro.c <b>/lib/libvorbisfile.a \
 *      <b>/lib/libvorbisenc.a <b>/lib/libvorbis.a -logg -lm -lpthread -o repro
 *   ./repro            (40000 links, ~97 MB held in memory, 8 MiB stack)
 *   ./repro 2000       (opens fine)
 * exit 0 = open returned (0 or an error code); exit 1 = the open crashed. */
#include <signal.h>
#include <unistd.h>
#include <sys/wait.h>
#include <stdio.h>
#include <stdlib.h>
#include <string.h>
#include <math.h>
#include <errno.h>
#include <time.h>
#include <vorbis/codec.h>
#include <vorbis/vorbisenc.h>
#include <vorbis/vorbisfile.h>

typedef struct { unsigned char *d; size_t len, cap; } buf_t;
static void buf_add(buf_t *b, const void *p, size_t n){
  if(b->len+n>b->cap){ b->cap=(b->len+n)*2+4096; b->d=realloc(b->d,b->cap); if(!b->d){perror("realloc");exit(99);} }
  memcpy(b->d+b->len,p,n); b->len+=n;
}
static void add_page(buf_t *b, ogg_page *og){
  buf_add(b,og->header,og->header_len); buf_add(b,og->body,og->body_len);
}
/* one short link: headers + `secs` of audio */
static void encode_link(buf_t *out,long rate,double secs,int serial){
  vorbis_info vi; vorbis_comment vc; vorbis_dsp_state vd; vorbis_block vb;
  ogg_stream_state os; ogg_page og; ogg_packet op,h1,h2,h3;
  long total=(long)(secs*rate),done=0; int eos=0;
  vorbis_info_init(&vi);
  if(vorbis_encode_init_vbr(&vi,1,rate,-0.1f)){fprintf(stderr,"encoder init failed\n");exit(99);}
  vorbis_comment_init(&vc);
  vorbis_analysis_init(&vd,&vi); vorbis_block_init(&vd,&vb);
  ogg_stream_init(&os,serial);
  vorbis_analysis_headerout(&vd,&vc,&h1,&h2,&h3);
  ogg_stream_packetin(&os,&h1); ogg_stream_packetin(&os,&h2); ogg_stream_packetin(&os,&h3);
  while(ogg_stream_flush(&os,&og)) add_page(out,&og);
  while(!eos){
    long n=total-done; if(n>1024)n=1024;
    if(n<=0) vorbis_analysis_wrote(&vd,0);
    else{
      float **b=vorbis_analysis_buffer(&vd,n); long i;
      for(i=0;i<n;i++) b[0][i]=0.3f*(float)sin(2.*M_PI*300.*(done+i)/rate);
      vorbis_analysis_wrote(&vd,n); done+=n;
    }
    while(vorbis_analysis_blockout(&vd,&vb)==1){
      vorbis_analysis(&vb,NULL); vorbis_bitrate_addblock(&vb);
      while(vorbis_bitrate_flushpacket(&vd,&op)){
        ogg_stream_packetin(&os,&op);
        while(!eos){
          if(!ogg_stream_pageout(&os,&og))break;
          add_page(out,&og);
          if(ogg_page_eos(&og))eos=1;
        }
      }
    }
  }
  ogg_stream_clear(&os); vorbis_block_clear(&vb); vorbis_dsp_clear(&vd);
  vorbis_comment_clear(&vc); vorbis_info_clear(&vi);
}
typedef struct { unsigned char *d; ogg_int64_t len,pos; int closes; } src_t;
static size_t rd(void *ptr,size_t sz,size_t nm,void *ds){
  src_t *s=ds; ogg_int64_t want=sz*nm, left=s->len-s->pos;
  if(want>left)want=left;
  memcpy(ptr,s->d+s->pos,want); s->pos+=want; errno=0; return want;
}
static int sk(void *ds,ogg_int64_t off,int wh){
  src_t *s=ds; ogg_int64_t p= wh==SEEK_SET?off: wh==SEEK_CUR?s->pos+off: s->len+off;
  if(p<0||p>s->len)return -1; s->pos=p; return 0;
}
static long tl(void *ds){ return (long)((src_t*)ds)->pos; }
static int cl(void *ds){ ((src_t*)ds)->closes++; return 0; }

int main(int argc,char **argv){
  int N=argc>1?atoi(argv[1]):40000, i; buf_t one={0},file={0};
  src_t src; OggVorbis_File vf; ov_callbacks cb={rd,sk,cl,tl}; int ret; clock_t t0;
  encode_link(&one,8000,0.05,0);
  fprintf(stderr,"one link = %zu bytes\n",one.len);
  /* replicate with distinct serial numbers */
  for(i=0;i<N;i++){
    size_t p=0, start=file.len;
    buf_add(&file,one.d,one.len);
    while(p<one.len){
      unsigned char *h=file.d+start+p; int nseg=h[26],k; size_t bl=0; ogg_page og;
      for(k=0;k<nseg;k++)bl+=h[27+k];
      h[14]=(i+1)&0xff; h[15]=((i+1)>>8)&0xff; h[16]=((i+1)>>16)&0xff; h[17]=0x10;
      og.header=h; og.header_len=27+nseg; og.body=h+27+nseg; og.body_len=bl;
      ogg_page_checksum_set(&og);
      p+=27+nseg+bl;
    }
  }
  fprintf(stderr,"file = %zu bytes, %d links\n",file.len,N);
  memset(&src,0,sizeof src); src.d=file.d; src.len=file.len;
  fflush(NULL);
  {
    pid_t pid=fork(); int st=0;
    if(pid==0){
      t0=clock();
      ret=ov_open_callbacks(&src,&vf,NULL,0,cb);
      fprintf(stderr,"open=%d in %.2fs\n",ret,(double)(clock()-t0)/CLOCKS_PER_SEC);
      if(ret==0){ fprintf(stderr,"links=%ld total=%lld\n",ov_streams(&vf),(long long)ov_pcm_total(&vf,-1)); ov_clear(&vf);}
      _exit(0);
    }
    waitpid(pid,&st,0);
    if(WIFSIGNALED(st)){
      printf("VIOLATION: ov_open_callbacks on a %d-link chained stream died with signal %d (%s)\n",
             N,WTERMSIG(st),strsignal(WTERMSIG(st)));
      return 1;
    }
    printf("open returned normally\n");
  }
  return 0;
}
