/* Reproducer for a defect of the UNCHANGED library against property C20
   ("positions are still expressed in full-rate samples and advance by two
   per sample returned ... the audio after any seek is bit-identical to the
   half-rate linear decode at that position").

   A chained file whose first link has an ODD length N0 is played linearly
   at half rate.  Link 0 delivers ceil(N0/2) samples, the position runs
   0,2,...,N0-1 and is then N0+1 when the first sample of link 1 is handed
   out, although that sample is link 1's sample 0, i.e. position N0.
   ov_pcm_tell stays one too high for every sample of link 1's first page;
   when the first packet carrying a granule position has been decoded the
   position is corrected, so between two consecutive samples ov_pcm_tell
   advances by ONE.  A seek to any of these positions reports the truthful
   (odd) position for the very same audio, so the linear decode and the
   seeks disagree about where a sample is.  Consequence for toggling: after
   link 0 has been played to its end ov_pcm_tell says N0+1, ov_halfrate(0)
   re-seeks to N0+1 and link 1's first full-rate sample is skipped.

   exit 0 if none of this is observed, 1 if it is. */

#include <stdio.h>
#include <stdlib.h>
#include <string.h>
#include <math.h>
#include <unistd.h>
#include <vorbis/codec.h>
#include <vorbis/vorbisenc.h>
#include <vorbis/vorbisfile.h>

typedef struct { unsigned char *d; long n, cap; } buf_t;
static void buf_add(buf_t *b,const void *p,long n){
  if(b->n+n>b->cap){ b->cap=(b->n+n)*2+4096; b->d=realloc(b->d,b->cap); }
  memcpy(b->d+b->n,p,n); b->n+=n;
}
static void put_page(buf_t *b,ogg_page *og){
  buf_add(b,og->header,og->header_len); buf_add(b,og->body,og->body_len);
}

static unsigned lcg_s=12345;
static float lcg(void){ lcg_s=lcg_s*1103515245u+12345u; return ((lcg_s>>16)&0x7fff)/16384.f-1.f; }

/* encode one link of nsamp samples with libvorbisenc and append it to out */
static void encode_link(buf_t *out,long nsamp,int ch,long rate,float q,int serial){
  vorbis_info vi; vorbis_comment vc; vorbis_dsp_state vd; vorbis_block vb;
  ogg_stream_state os; ogg_page og; ogg_packet op;
  long done=0; int eos=0;
  vorbis_info_init(&vi);
  if(vorbis_encode_init_vbr(&vi,ch,rate,q)){printf("encoder init failed\n");exit(99);}
  vorbis_comment_init(&vc);
  vorbis_analysis_init(&vd,&vi);
  vorbis_block_init(&vd,&vb);
  ogg_stream_init(&os,serial);
  {
    ogg_packet h,hc,hb;
    vorbis_analysis_headerout(&vd,&vc,&h,&hc,&hb);
    ogg_stream_packetin(&os,&h);
    ogg_stream_packetin(&os,&hc);
    ogg_stream_packetin(&os,&hb);
    while(ogg_stream_flush(&os,&og))put_page(out,&og);
  }
  while(!eos){
    long n=nsamp-done; int i,c;
    if(n>1024)n=1024;
    if(n==0) vorbis_analysis_wrote(&vd,0);
    else{
      float **b=vorbis_analysis_buffer(&vd,n);
      for(i=0;i<n;i++){
        long t=done+i;
        for(c=0;c<ch;c++)
          b[c][i]=0.4f*sinf(t*0.031f*(c+1)+serial)+0.2f*sinf(t*0.0007f*t/1000.f)+0.05f*lcg();
      }
      vorbis_analysis_wrote(&vd,n); done+=n;
    }
    while(vorbis_analysis_blockout(&vd,&vb)==1){
      vorbis_analysis(&vb,NULL);
      vorbis_bitrate_addblock(&vb);
      while(vorbis_bitrate_flushpacket(&vd,&op)){
        ogg_stream_packetin(&os,&op);
        while(!eos){
          if(!ogg_stream_pageout(&os,&og))break;
          put_page(out,&og);
          if(ogg_page_eos(&og))eos=1;
        }
      }
    }
  }
  ogg_stream_clear(&os); vorbis_block_clear(&vb); vorbis_dsp_clear(&vd);
  vorbis_comment_clear(&vc); vorbis_info_clear(&vi);
}

typedef struct { buf_t *b; long pos; } src_t;
static size_t m_read(void *p,size_t s,size_t n,void *ds){
  src_t *m=ds; long want=s*n; if(want>m->b->n-m->pos)want=m->b->n-m->pos;
  memcpy(p,m->b->d+m->pos,want); m->pos+=want; return want/s;
}
static int m_seek(void *ds,ogg_int64_t off,int wh){
  src_t *m=ds; long np=(wh==SEEK_SET?off:wh==SEEK_CUR?m->pos+off:m->b->n+off);
  if(np<0||np>m->b->n)return -1; m->pos=np; return 0;
}
static long m_tell(void *ds){ src_t *m=ds; return m->pos; }
static ov_callbacks cbs={m_read,m_seek,NULL,m_tell};

static int fails=0;
#define FAIL(...) do{ printf("FAIL: " __VA_ARGS__); printf("\n"); fails++; }while(0)

typedef struct { float *s; ogg_int64_t *pos; int *link; long n, cap; } dec_t;
static void dec_push(dec_t *d,float v,ogg_int64_t pos,int link){
  if(d->n==d->cap){ d->cap=d->cap*2+65536; d->s=realloc(d->s,d->cap*sizeof(float));
    d->pos=realloc(d->pos,d->cap*sizeof(ogg_int64_t)); d->link=realloc(d->link,d->cap*sizeof(int)); }
  d->s[d->n]=v; d->pos[d->n]=pos; d->link[d->n]=link; d->n++;
}


int main(void){
  static const long N[2]={30001,25000};
  buf_t file={0}; src_t s1,s2; OggVorbis_File vf; int r,bad=0; long i,k=0;
  ogg_int64_t prev=-1; int prevlink=0;
  float first_of_link1=0; ogg_int64_t told=0;
  alarm(55);
  encode_link(&file,N[0],1,44100,0.3f,3001);
  encode_link(&file,N[1],1,44100,0.3f,3002);
  s1.b=&file; s1.pos=0;
  if((r=ov_open_callbacks(&s1,&vf,NULL,0,cbs))){printf("open failed %d\n",r);return 2;}
  if((r=ov_halfrate(&vf,1))){printf("ov_halfrate refused %d\n",r);return 2;}
  for(i=0;;i++){
    float **pcm; int link; ogg_int64_t p=ov_pcm_tell(&vf),want;
    long n=ov_read_float(&vf,&pcm,1,&link);
    if(n<=0)break;
    if(link!=prevlink){k=0;prevlink=link;}
    want=(link?N[0]:0)+2*k;
    if(link==1&&k==0){ first_of_link1=pcm[0][0]; told=p; }
    if(p!=want && bad<3){
      printf("sample %ld of link %d: ov_pcm_tell said %ld, it is position %ld\n",k,link,(long)p,(long)want); bad++; }
    if(prev>=0 && p-prev!=2){
      printf("between sample %ld and %ld of link %d ov_pcm_tell advanced by %ld (%ld -> %ld)\n",k-1,k,link,(long)(p-prev),(long)prev,(long)p); bad++; }
    prev=p; k++;
  }
  /* what a seek says about the same sample */
  if((r=ov_pcm_seek(&vf,told))){printf("seek failed %d\n",r);return 2;}
  {
    float **pcm; ogg_int64_t p=ov_pcm_tell(&vf);
    if(ov_read_float(&vf,&pcm,1,NULL)==1 && pcm[0][0]==first_of_link1 && p!=told){
      printf("ov_pcm_seek(%ld) lands on %ld and returns the very sample the linear decode reported at %ld\n",
             (long)told,(long)p,(long)told); bad++; }
  }
  ov_clear(&vf);

  /* the consequence for switching half rate off at the link boundary */
  s2.b=&file; s2.pos=0;
  if((r=ov_open_callbacks(&s2,&vf,NULL,0,cbs))){printf("open failed %d\n",r);return 2;}
  ov_halfrate(&vf,1);
  for(i=0;i<(N[0]+1)/2;i++){ float **pcm; if(ov_read_float(&vf,&pcm,1,NULL)!=1)return 2; }
  r=ov_halfrate(&vf,0);
  if(r||ov_pcm_tell(&vf)!=N[0]){
    printf("link 0 played to its end at half rate, then ov_halfrate(0) -> %d: position %ld, but the next sample due is %ld (start of link 1)\n",
           r,(long)ov_pcm_tell(&vf),N[0]); bad++; }
  ov_clear(&vf);
  if(bad){printf("UNCHANGED library violates C20 (%d observations)\n",bad);return 1;}
  printf("ok\n");
  return 0;
}
