/* C19, UNCHANGED library: a lapped seek reports OV_EOF at a link end in the
   middle of a chained stream although audio follows / the plain seek works.
   See UNCHANGED_DEFECT.md.  Exits 1 when the behaviour is present, 0 when not.

   cc -g -I<wt>/include UNCHANGED_DEFECT_repro.c <b>/lib/libvorbisfile.a \
      <b>/lib/libvorbisenc.a <b>/lib/libvorbis.a -logg -lm -lpthread -o repro */
#include <stdio.h>
#include <stdlib.h>
#include <string.h>
#include <math.h>
#include <vorbis/codec.h>
#include <vorbis/vorbisenc.h>
#include <vorbis/vorbisfile.h>

typedef struct { unsigned char *d; long n, cap; } buf_t;
static void buf_add(buf_t *b,const void *p,long n){
  if(b->n+n>b->cap){ b->cap=(b->n+n)*2+4096; b->d=realloc(b->d,b->cap); }
  memcpy(b->d+b->n,p,n); b->n+=n;
}

/* deterministic noise */
static unsigned int rng_state=12345;
static float frand(void){ rng_state=rng_state*1664525u+1013904223u; return ((rng_state>>8)&0xffff)/32768.f-1.f; }

/* encode one link: ch channels, rate, quality, nsamp samples; signal has tones
   and clicks so that both block sizes appear */
static void encode_link(buf_t *out,int ch,long rate,float q,long nsamp,int serial){
  vorbis_info vi; vorbis_comment vc; vorbis_dsp_state vd; vorbis_block vb;
  ogg_stream_state os; ogg_page og; ogg_packet op,h1,h2,h3;
  long pos=0; int eos=0;
  vorbis_info_init(&vi);
  if(vorbis_encode_init_vbr(&vi,ch,rate,q)){ fprintf(stderr,"encode init failed\n"); exit(99); }
  vorbis_comment_init(&vc);
  vorbis_analysis_init(&vd,&vi);
  vorbis_block_init(&vd,&vb);
  ogg_stream_init(&os,serial);
  vorbis_analysis_headerout(&vd,&vc,&h1,&h2,&h3);
  ogg_stream_packetin(&os,&h1); ogg_stream_packetin(&os,&h2); ogg_stream_packetin(&os,&h3);
  while(ogg_stream_flush(&os,&og)){ buf_add(out,og.header,og.header_len); buf_add(out,og.body,og.body_len); }
  while(!eos){
    long n=nsamp-pos; int i,c;
    if(n>1024)n=1024;
    if(n<=0){ vorbis_analysis_wrote(&vd,0); }
    else{
      float **b=vorbis_analysis_buffer(&vd,n);
      for(i=0;i<n;i++){
        long t=pos+i;
        for(c=0;c<ch;c++){
          float v=0.3f*sinf(2.f*3.14159265f*(220.f+110.f*c+serial)*t/rate)
                 +0.02f*frand();
          if((t%(rate/5))<40) v+=0.6f*frand(); /* clicks: short blocks */
          b[c][i]=v;
        }
      }
      vorbis_analysis_wrote(&vd,n); pos+=n;
    }
    while(vorbis_analysis_blockout(&vd,&vb)==1){
      vorbis_analysis(&vb,NULL); vorbis_bitrate_addblock(&vb);
      while(vorbis_bitrate_flushpacket(&vd,&op)){
        ogg_stream_packetin(&os,&op);
        while(!eos){
          if(!ogg_stream_pageout(&os,&og))break;
          buf_add(out,og.header,og.header_len); buf_add(out,og.body,og.body_len);
          if(ogg_page_eos(&og))eos=1;
        }
      }
    }
  }
  ogg_stream_clear(&os); vorbis_block_clear(&vb); vorbis_dsp_clear(&vd);
  vorbis_comment_clear(&vc); vorbis_info_clear(&vi);
}

/* memory data source */
typedef struct { const unsigned char *d; long n,pos; } src_t;
static size_t m_read(void *p,size_t s,size_t n,void *ds){
  src_t *m=ds; long want=(long)(s*n);
  if(want>m->n-m->pos)want=m->n-m->pos;
  if(want<0)want=0;
  memcpy(p,m->d+m->pos,want); m->pos+=want; return want/s;
}
static int m_seek(void *ds,ogg_int64_t off,int wh){
  src_t *m=ds; long np;
  if(wh==SEEK_SET)np=off; else if(wh==SEEK_CUR)np=m->pos+off; else np=m->n+off;
  if(np<0||np>m->n)return -1;
  m->pos=np; return 0;
}
static long m_tell(void *ds){ return ((src_t*)ds)->pos; }
static ov_callbacks mcb={m_read,m_seek,NULL,m_tell};

typedef struct { OggVorbis_File vf; src_t s; } H;
static H *hopen(buf_t *b,int hs){
  H *h=calloc(1,sizeof(*h)); int r;
  h->s.d=b->d; h->s.n=b->n; h->s.pos=0;
  r=ov_open_callbacks(&h->s,&h->vf,NULL,0,mcb);
  if(r){ fprintf(stderr,"open failed %d\n",r); exit(98); }
  if(hs){ r=ov_halfrate(&h->vf,1); if(r){ fprintf(stderr,"halfrate failed %d\n",r); exit(97);} }
  return h;
}
static void hclose(H *h){ ov_clear(&h->vf); free(h); }

#define MAXCH 2
typedef struct { float s[MAXCH][8192]; int ch[8192]; int link[8192]; long n; long first; int err; } rd_t;
/* read up to want output samples; records the size of the first chunk */
static void readn(H *h,rd_t *r,long want){
  r->n=0; r->first=-1; r->err=0;
  while(r->n<want){
    float **pcm; int link; long i; int c;
    long got=ov_read_float(&h->vf,&pcm,(int)(want-r->n),&link);
    if(got==OV_HOLE)continue;
    if(got<0){ r->err=(int)got; break; }
    if(got==0)break;
    if(r->first<0)r->first=got;
    {
      int ch=ov_info(&h->vf,link)->channels;
      for(i=0;i<got;i++){
        for(c=0;c<MAXCH;c++) r->s[c][r->n+i]=(c<ch?pcm[c][i]:0.f);
        r->ch[r->n+i]=ch; r->link[r->n+i]=link;
      }
    }
    r->n+=got;
  }
}
static double vwin(int n,int i){ /* left half window for block size 2n */
  double x=sin((i+0.5)/(2.0*n)*M_PI);
  return sin(0.5*M_PI*x*x);
}

static rd_t P,L;
int main(void){
  buf_t b={0};
  long p=0,prev=-1,target=-1; int bad=0;
  H *hp,*hl; int rp,rl; ogg_int64_t tp,tl;
  /* three links; the middle one is the interesting one */
  encode_link(&b,2,44100,0.4f,44100*2,1001);
  encode_link(&b,1,8000,0.3f,8000*2,1002);
  encode_link(&b,2,16000,0.5f,16000*2,1003);
  /* byte offset inside the page that precedes the last (EOS) page of link 1 */
  while(p<b.n){ unsigned char *d=b.d+p; int nseg=d[26],j,ser; long len=27+nseg; for(j=0;j<nseg;j++)len+=d[27+j];
    memcpy(&ser,d+14,4);
    if(ser==1002 && (d[5]&4)){ target=prev+1; printf("link 1: last page at byte %ld, the page before it at %ld; raw target %ld\n",p,prev,target); }
    prev=p; p+=len; }

  /* case 1: the NEW position is a link end */
  hp=hopen(&b,0); hl=hopen(&b,0);
  rp=ov_raw_seek(&hp->vf,target); rl=ov_raw_seek_lap(&hl->vf,target);
  tp=ov_pcm_tell(&hp->vf); tl=ov_pcm_tell(&hl->vf);
  readn(hp,&P,3000); readn(hl,&L,3000);
  printf("case 1: ov_raw_seek(%ld) = %d, tell %ld, then reads %ld samples (first from link %d)\n",target,rp,(long)tp,P.n,P.n?P.link[0]:-1);
  printf("        ov_raw_seek_lap(%ld) = %d, tell %ld, then reads %ld samples (first from link %d)\n",target,rl,(long)tl,L.n,L.n?L.link[0]:-1);
  if(rp==0 && rl==OV_EOF && P.n>0){ printf("        -> lapped seek reports OV_EOF although %ld+ samples follow the target\n",P.n); bad=1; }

  /* case 2: the OLD position is that link end (handles are there now; fresh twins) */
  hclose(hp); hclose(hl);
  hp=hopen(&b,0); hl=hopen(&b,0);
  ov_raw_seek(&hp->vf,target); ov_raw_seek(&hl->vf,target);
  rp=ov_pcm_seek(&hp->vf,4410); rl=ov_pcm_seek_lap(&hl->vf,4410);
  tp=ov_pcm_tell(&hp->vf); tl=ov_pcm_tell(&hl->vf);
  readn(hp,&P,3000); readn(hl,&L,3000);
  printf("case 2: from that position ov_pcm_seek(4410) = %d, tell %ld, first audio from link %d\n",rp,(long)tp,P.n?P.link[0]:-1);
  printf("        from that position ov_pcm_seek_lap(4410) = %d, tell %ld, first audio from link %d\n",rl,(long)tl,L.n?L.link[0]:-1);
  if(rp==0 && rl==OV_EOF && P.n>0){ printf("        -> lapped seek reports OV_EOF and does not move; the old position is a link end inside the stream, not the end of the stream\n"); bad=1; }
  hclose(hp); hclose(hl);
  return bad;
}
