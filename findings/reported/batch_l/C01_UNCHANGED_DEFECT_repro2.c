/* Second reproducer for UNCHANGED_DEFECT.md (property C01), unmodified
 * library: floor 0 whose order is larger than the dimension of its LSP
 * codebook.
 *
 * Specification 6.2.2, packet decode: step 11 says "if (length of vector
 * [coefficients] is less than [floor0_order], continue at step 6", and step 6
 * is "[last] = zero".  Read literally, every LSP codebook vector starts again
 * from last = 0.  libvorbis (floor0_inverse1) initialises last once and
 * carries the last value of each vector into the next one.
 *
 * The stream has one channel, floor 0 of order 6 with a 2-dimensional LSP
 * book (three vectors per frame) and a type 1 residue.  The reference is
 * computed twice: with [last] reset for every vector (the specification as
 * written) and with [last] carried (libvorbis).
 *
 * exit 0: output equals the specification as written
 * exit 1: output differs from it (a line says whether it equals the
 *         carried-[last] reading instead)
 */
#include <stdio.h>
#include <stdlib.h>
#include <string.h>
#include <math.h>
#include <ogg/ogg.h>
#include <vorbis/codec.h>

#ifndef M_PI
#define M_PI 3.14159265358979323846
#endif

#define CH      1
#define BS0     64
#define BS1     256
#define PART    16          /* residue partition size */
#define NPKT    14
#define BIG     65536   /* entries in the residue value book */

/* ------------------------------------------------------------------ */
/* bit-level helpers                                                    */

static void huff(oggpack_buffer *o,unsigned code,int len){
  /* Vorbis codewords are read one bit at a time, most significant first */
  int i;
  for(i=len-1;i>=0;i--)oggpack_write(o,(code>>i)&1,1);
}

/* Vorbis float32: 21 bit mantissa, 10 bit exponent biased by 788, sign */
static unsigned long f32pack(double v){
  unsigned long sign=0;
  long mant,e;
  if(v<0){sign=0x80000000UL;v=-v;}
  if(v==0)return (788UL<<21);
  e=(long)floor(log2(v));
  mant=(long)floor(ldexp(v,(int)(20-e))+.5);
  return sign|((unsigned long)(e-20+788)<<21)|(unsigned long)mant;
}
static double f32unpack(unsigned long x){
  double m=(double)(x&0x1fffff);
  int e=(int)((x&0x7fe00000UL)>>21);
  if(x&0x80000000UL)m=-m;
  return ldexp(m,e-788);
}

/* codebook, unordered, not sparse, all lengths given */
static void put_book(oggpack_buffer *o,int dim,long entries,const int *len,
                     int maptype,unsigned long qmin,unsigned long qdelta,
                     int qbits,int seqp,const long *mult,long nmult){
  long i;
  oggpack_write(o,0x564342,24);
  oggpack_write(o,dim,16);
  oggpack_write(o,entries,24);
  oggpack_write(o,0,1);             /* not ordered */
  oggpack_write(o,0,1);             /* not sparse */
  for(i=0;i<entries;i++)oggpack_write(o,len[i]-1,5);
  oggpack_write(o,maptype,4);
  if(maptype){
    oggpack_write(o,qmin,32);
    oggpack_write(o,qdelta,32);
    oggpack_write(o,qbits-1,4);
    oggpack_write(o,seqp,1);
    for(i=0;i<nmult;i++)oggpack_write(o,mult[i],qbits);
  }
}

/* ------------------------------------------------------------------ */
/* the stream's configuration                                           */
/*
 * books: 0  class book      dim 2, 4 entries of length 2, no values
 *        1  residue VQ book dim 2, 65536 entries of length 16, lattice of
 *           256 values -1, -1+1/128, ... 1-1/128
 * floor 0 : type 1, no partitions (two posts, x=0 and x=128), multiplier 1
 * residue 0: type 1, begin 0, end 128, partition size 16, 2 classifications
 *            (class 0: nothing coded; class 1: book 1 in pass 0)
 * mapping 0: one submap, no coupling, floor 0 / residue 0
 * modes    : 0 short (64), 1 long (256), both on mapping 0
 */
static unsigned long RQMIN,RQDELTA,LQMIN,LQDELTA;
#define ORDER 6
#define BARKMAP 64
#define AMPBITS 6
#define AMPOFF 1
#define F0RATE 44100

static void make_headers(unsigned char **h,long *hl){
  oggpack_buffer o;
  int i;

  /* identification */
  oggpack_writeinit(&o);
  oggpack_write(&o,1,8);
  for(i=0;i<6;i++)oggpack_write(&o,"vorbis"[i],8);
  oggpack_write(&o,0,32);
  oggpack_write(&o,CH,8);
  oggpack_write(&o,44100,32);
  oggpack_write(&o,0,32);oggpack_write(&o,0,32);oggpack_write(&o,0,32);
  oggpack_write(&o,6,4);            /* 64  */
  oggpack_write(&o,8,4);            /* 256 */
  oggpack_write(&o,1,1);
  hl[0]=oggpack_bytes(&o);h[0]=malloc(hl[0]);
  memcpy(h[0],oggpack_get_buffer(&o),hl[0]);
  oggpack_writeclear(&o);

  /* comment */
  oggpack_writeinit(&o);
  oggpack_write(&o,3,8);
  for(i=0;i<6;i++)oggpack_write(&o,"vorbis"[i],8);
  oggpack_write(&o,0,32);
  oggpack_write(&o,0,32);
  oggpack_write(&o,1,1);
  hl[1]=oggpack_bytes(&o);h[1]=malloc(hl[1]);
  memcpy(h[1],oggpack_get_buffer(&o),hl[1]);
  oggpack_writeclear(&o);

  /* setup */
  oggpack_writeinit(&o);
  oggpack_write(&o,5,8);
  for(i=0;i<6;i++)oggpack_write(&o,"vorbis"[i],8);

  oggpack_write(&o,3-1,8);          /* three codebooks */
  {
    int len[4]={2,2,2,2};
    put_book(&o,2,4,len,0,0,0,0,0,NULL,0);
  }
  {
    int len[16];
    long mult[4]={0,1,2,3};
    for(i=0;i<16;i++)len[i]=4;
    RQMIN=f32pack(-1.);RQDELTA=f32pack(1.);
    put_book(&o,2,16,len,1,RQMIN,RQDELTA,2,0,mult,4);
    /* LSP book: sequence_p set, values 1/16 + 3k/8 */
    LQMIN=f32pack(1./16);LQDELTA=f32pack(3./8);
    put_book(&o,2,16,len,1,LQMIN,LQDELTA,2,1,mult,4);
  }

  oggpack_write(&o,0,6);            /* one time-domain placeholder */
  oggpack_write(&o,0,16);

  oggpack_write(&o,0,6);            /* one floor */
  oggpack_write(&o,0,16);           /* type 0 */
  oggpack_write(&o,ORDER,8);
  oggpack_write(&o,F0RATE,16);
  oggpack_write(&o,BARKMAP,16);
  oggpack_write(&o,AMPBITS,6);
  oggpack_write(&o,AMPOFF,8);
  oggpack_write(&o,1-1,4);          /* one book */
  oggpack_write(&o,2,8);            /* book 2 */

  oggpack_write(&o,0,6);            /* one residue */
  oggpack_write(&o,1,16);           /* type 1 */
  oggpack_write(&o,0,24);           /* begin */
  oggpack_write(&o,128,24);         /* end */
  oggpack_write(&o,PART-1,24);      /* partition size */
  oggpack_write(&o,2-1,6);          /* classifications */
  oggpack_write(&o,0,8);            /* class book */
  oggpack_write(&o,0,3);oggpack_write(&o,0,1);   /* class 0 cascade 0 */
  oggpack_write(&o,1,3);oggpack_write(&o,0,1);   /* class 1 cascade 1 */
  oggpack_write(&o,1,8);            /* class 1, pass 0: book 1 */

  oggpack_write(&o,0,6);            /* one mapping */
  oggpack_write(&o,0,16);           /* type 0 */
  oggpack_write(&o,0,1);            /* one submap */
  oggpack_write(&o,0,1);            /* no coupling */
  oggpack_write(&o,0,2);            /* reserved */
  oggpack_write(&o,0,8);            /* time placeholder */
  oggpack_write(&o,0,8);            /* floor 0 */
  oggpack_write(&o,0,8);            /* residue 0 */

  oggpack_write(&o,2-1,6);          /* two modes */
  oggpack_write(&o,0,1);oggpack_write(&o,0,16);oggpack_write(&o,0,16);
  oggpack_write(&o,0,8);
  oggpack_write(&o,1,1);oggpack_write(&o,0,16);oggpack_write(&o,0,16);
  oggpack_write(&o,0,8);
  oggpack_write(&o,1,1);            /* framing */
  hl[2]=oggpack_bytes(&o);h[2]=malloc(hl[2]);
  memcpy(h[2],oggpack_get_buffer(&o),hl[2]);
  oggpack_writeclear(&o);
}

/* ------------------------------------------------------------------ */
/* packet plan                                                           */

typedef struct{
  int W;                 /* 0 short, 1 long */
  int used[CH];          /* floor 'nonzero' flag per channel */
  int amp[CH];           /* floor 0 amplitude, 1..8 of 63 */
  int lsp[CH][ORDER/2];  /* LSP book entries */
  int cls[CH][8];        /* residue classification per partition */
  int ent[CH][8][PART/2];/* residue book entries */
} pkt;

static pkt plan[NPKT];

static unsigned long rng=12345;
static unsigned rnd(void){rng=rng*1103515245UL+12345UL;return (rng>>16)&0x7fff;}

/* LSP sets are picked so that the floor curve is well conditioned (no
   near-coincident roots, no huge peaks) under BOTH readings of the
   specification; otherwise the comparison would drown in dynamic range */
#define NGOOD 8
static int good[NGOOD][ORDER/2];
static double pq_min(const int *e,int carry){
  double co[ORDER],last=0,worst=1e30;
  int i,m;
  for(i=0;i<ORDER/2;i++){
    double v0=(e[i]%4)*.375+.0625,v1=(e[i]/4)*.375+.0625+v0;
    if(!carry)last=0;
    co[2*i]=v0+last;co[2*i+1]=v1+last;last=co[2*i+1];
  }
  if(last>=3.0)return 0;
  for(m=0;m<BARKMAP;m++){
    double cw=cos(M_PI*m/BARKMAP),pp=(1.-cw)/2.,qq=(1.+cw)/2.;
    for(i=0;i<ORDER/2;i++){
      double a=cos(co[2*i+1])-cw,b=cos(co[2*i])-cw;
      pp*=4.*a*a;qq*=4.*b*b;
    }
    if(pp+qq<worst)worst=pp+qq;
  }
  return worst;
}
static void find_good(void){
  double best[NGOOD];
  int e[3],i,j;
  for(i=0;i<NGOOD;i++)best[i]=-1;
  for(e[0]=0;e[0]<16;e[0]++)for(e[1]=0;e[1]<16;e[1]++)for(e[2]=0;e[2]<16;e[2]++){
    double a=pq_min(e,0),b=pq_min(e,1),sc=a<b?a:b;
    for(i=0;i<NGOOD;i++)if(sc>best[i]){
      for(j=NGOOD-1;j>i;j--){best[j]=best[j-1];memcpy(good[j],good[j-1],sizeof(good[j]));}
      best[i]=sc;memcpy(good[i],e,sizeof(good[i]));
      break;
    }
  }
}

static void make_plan(void){
  /* block sizes: every kind of transition occurs */
  static const int Wseq[NPKT]={0,0,1,1,0,1,0,0,1,1,1,0,1,1};
  int p,c,i,j;
  for(p=0;p<NPKT;p++){
    plan[p].W=Wseq[p];
    for(c=0;c<CH;c++){
      plan[p].used[c]=(p!=6);
      plan[p].amp[c]=1+rnd()%8;
      for(i=0;i<ORDER/2;i++)plan[p].lsp[c][i]=good[rnd()%NGOOD][i];
      for(i=0;i<8;i++){
        plan[p].cls[c][i]=(rnd()%4)!=0;
        for(j=0;j<PART/2;j++)plan[p].ent[c][i][j]=rnd()%16;
      }
    }
  }
}

static long make_packet(int p,unsigned char *out){
  oggpack_buffer o;
  const pkt *k=plan+p;
  int n2=(k->W?BS1:BS0)/2;
  int parts=n2/PART;
  int c,i,j,g;
  long bytes;

  oggpack_writeinit(&o);
  oggpack_write(&o,0,1);                /* audio packet */
  oggpack_write(&o,k->W,1);             /* mode number, ilog(2-1)=1 bit */
  if(k->W){
    oggpack_write(&o,p>0?plan[p-1].W:0,1);        /* previous window flag */
    oggpack_write(&o,p+1<NPKT?plan[p+1].W:0,1);   /* next window flag */
  }
  /* floors, channel order */
  for(c=0;c<CH;c++){
    if(!k->used[c]){
      oggpack_write(&o,0,AMPBITS);      /* amplitude 0: unused */
    }else{
      oggpack_write(&o,k->amp[c],AMPBITS);
      oggpack_write(&o,0,1);            /* book number, ilog(1) = 1 bit */
      for(i=0;i<ORDER/2;i++)huff(&o,k->lsp[c][i],4);
    }
  }
  /* residue; a channel whose floor is unused (and that is not coupled)
     is 'do not decode': nothing at all is coded for it */
  for(c=0;c<CH;c++){
    if(!k->used[c])continue;
    for(g=0;g<parts;g+=2){
      /* one class codeword for two partitions, first partition in the
         more significant digit */
      huff(&o,k->cls[c][g]*2+k->cls[c][g+1],2);
      for(i=g;i<g+2;i++)
        if(k->cls[c][i])
          for(j=0;j<PART/2;j++)huff(&o,k->ent[c][i][j],4);
    }
  }
  bytes=oggpack_bytes(&o);
  memcpy(out,oggpack_get_buffer(&o),bytes);
  oggpack_writeclear(&o);
  return bytes;
}

/* ------------------------------------------------------------------ */
/* reference decode, straight from the specification                     */

static double bark(double x){
  return 13.1*atan(.00074*x)+2.24*atan(.0000000185*x*x)+.0001*x;
}
static int carry_last=0;

static double vwin(double x){ /* x in (0,1): rising slope */
  double s=sin(x*M_PI/2.);
  return sin(M_PI/2.*s*s);
}

static double *ref[CH],*refcarry[CH];
static long reflen;

static void reference(void){
  long center=0,pos;
  int p,c,i,j,t;
  long total=0;
  for(p=0;p<NPKT;p++)total+=BS1;
  for(c=0;c<CH;c++)ref[c]=calloc(total+BS1,sizeof(double));

  {
    double dmin=f32unpack(RQMIN),ddelta=f32unpack(RQDELTA);
    long first_center=-1;
    for(p=0;p<NPKT;p++){
      const pkt *k=plan+p;
      int n=k->W?BS1:BS0,n2=n/2;
      int lw=(k->W && p>0 && plan[p-1].W)?BS1:BS0;
      int rw=(k->W && p+1<NPKT && plan[p+1].W)?BS1:BS0;
      int ls,le,rs,re;
      double win[BS1];
      if(!k->W){lw=rw=BS0;}
      /* for a long block next to a short one the slope is short-sized */
      if(k->W && !(p>0 && plan[p-1].W))lw=BS0;
      if(k->W && !(p+1<NPKT && plan[p+1].W))rw=BS0;
      ls=n/4-lw/4;le=n/4+lw/4;rs=n*3/4-rw/4;re=n*3/4+rw/4;
      for(i=0;i<n;i++){
        if(i<ls)win[i]=0;
        else if(i<le)win[i]=vwin((i-ls+.5)/(lw/2));
        else if(i<rs)win[i]=1;
        else if(i<re)win[i]=vwin(1.-(i-rs+.5)/(rw/2));
        else win[i]=0;
      }

      if(p==0)center=BS1; /* anywhere far enough from 0 */
      else center+=(plan[p-1].W?BS1:BS0)/4+n/4;
      if(p==0)first_center=center;
      pos=center-n2;

      for(c=0;c<CH;c++){
        double X[BS1/2];
        if(!k->used[c])continue;       /* whole block is zero */
        /* residue type 1: vectors laid end to end in each partition */
        for(i=0;i<n2;i++)X[i]=0;
        for(i=0;i<n2/PART;i++)
          if(k->cls[c][i])
            for(j=0;j<PART/2;j++){
              int e=k->ent[c][i][j];
              X[i*PART+2*j  ]+=(e%4)*ddelta+dmin;
              X[i*PART+2*j+1]+=((e/4)%4)*ddelta+dmin;
            }
        /* floor 0 */
        {
          double co[ORDER],last=0;
          double lmin=f32unpack(LQMIN),ldelta=f32unpack(LQDELTA);
          for(i=0;i<ORDER/2;i++){
            int e=k->lsp[c][i];
            double v0,v1;
            if(!carry_last)last=0;      /* "continue at step 6" */
            /* lookup type 1 with sequence_p, then + [last] */
            v0=(e%4)*ldelta+lmin;
            v1=((e/4)%4)*ldelta+lmin+v0;
            co[2*i]=v0+last;co[2*i+1]=v1+last;
            last=co[2*i+1];
          }
          for(i=0;i<n2;i++){
            double bk=bark(F0RATE*(double)i/(2.*n2))*BARKMAP/bark(.5*F0RATE);
            int m=(int)floor(bk);
            double w,cw,pp,qq;
            if(m>BARKMAP-1)m=BARKMAP-1;
            w=M_PI*m/BARKMAP;cw=cos(w);
            pp=(1.-cw)/2.;qq=(1.+cw)/2.;
            for(j=0;j<ORDER/2;j++){
              double a=cos(co[2*j+1])-cw,b=cos(co[2*j])-cw;
              pp*=4.*a*a;qq*=4.*b*b;
            }
            X[i]*=exp(.11512925*(k->amp[c]*(double)AMPOFF/
                                 (((1<<AMPBITS)-1)*sqrt(pp+qq))-AMPOFF));
          }
        }
        /* inverse MDCT, window, overlap-add */
        for(t=0;t<n;t++){
          double acc=0;
          for(i=0;i<n2;i++)
            acc+=X[i]*cos(M_PI/n2*(t+.5+n2/2.)*(i+.5));
          ref[c][pos+t]+=acc*win[t];
        }
      }
    }
    reflen=center-first_center;
    for(c=0;c<CH;c++)
      memmove(ref[c],ref[c]+first_center,reflen*sizeof(double));
  }
}

/* ------------------------------------------------------------------ */

int main(void){
  unsigned char *h[3];long hl[3];
  unsigned char buf[4096];
  vorbis_info vi;vorbis_comment vc;vorbis_dsp_state vd;vorbis_block vb;
  ogg_packet op;
  float *got[CH];
  long gotlen=0,cap;
  int i,c,p,ret,bad=0;
  double peak=0,worst=0;

  find_good();
  make_plan();
  make_headers(h,hl);
  carry_last=1;reference();
  for(c=0;c<CH;c++)refcarry[c]=ref[c];
  carry_last=0;reference();
  cap=reflen+4*BS1;
  for(c=0;c<CH;c++)got[c]=calloc(cap,sizeof(float));

  vorbis_info_init(&vi);
  vorbis_comment_init(&vc);
  for(i=0;i<3;i++){
    memset(&op,0,sizeof(op));
    op.packet=h[i];op.bytes=hl[i];op.b_o_s=(i==0);op.packetno=i;
    ret=vorbis_synthesis_headerin(&vi,&vc,&op);
    if(ret){
      printf("FAIL: valid header %d rejected (%d)\n",i,ret);
      return 1;
    }
  }
  if(vorbis_synthesis_init(&vd,&vi)){printf("FAIL: synthesis_init\n");return 1;}
  vorbis_block_init(&vd,&vb);

  for(p=0;p<NPKT;p++){
    float **pcm;
    int n;
    memset(&op,0,sizeof(op));
    op.packet=buf;op.bytes=make_packet(p,buf);
    op.packetno=3+p;op.granulepos=-1;
    ret=vorbis_synthesis(&vb,&op);
    if(ret){printf("FAIL: vorbis_synthesis packet %d -> %d\n",p,ret);return 1;}
    ret=vorbis_synthesis_blockin(&vd,&vb);
    if(ret){printf("FAIL: vorbis_synthesis_blockin packet %d -> %d\n",p,ret);return 1;}
    while((n=vorbis_synthesis_pcmout(&vd,&pcm))>0){
      if(gotlen+n>cap){printf("FAIL: far too many samples\n");return 1;}
      for(c=0;c<CH;c++)memcpy(got[c]+gotlen,pcm[c],n*sizeof(float));
      gotlen+=n;
      vorbis_synthesis_read(&vd,n);
    }
  }

  if(gotlen!=reflen){
    printf("FAIL: decoder returned %ld samples per channel, the "
           "specification defines %ld\n",gotlen,reflen);
    return 1;
  }
  /* a sample counts as different when it is off by more than 1e-3 of
     max(|expected|,1): far beyond single precision rounding */
  {
    double **r[2];
    const char *name[2]={"specification as written ([last] reset per vector)",
                         "[last] carried across vectors (libvorbis)"};
    int w;
    r[0]=ref;r[1]=refcarry;
    for(w=0;w<2;w++){
      long firstbad=-1,nbad=0;
      peak=0;worst=0;
      for(i=0;i<reflen;i++){
        double want=r[w][0][i],d=fabs(got[0][i]-want);
        if(fabs(want)>peak)peak=fabs(want);
        if(d>worst)worst=d;
        if(!(d<=1e-3*(fabs(want)>1?fabs(want):1))){
          if(firstbad<0)firstbad=i;
          nbad++;
        }
      }
      printf("%s:\n  %ld samples, expected peak %g, worst abs deviation %g, "
             "%ld samples differ",name[w],reflen,peak,worst,nbad);
      if(nbad)printf(" (first at %ld: got %g want %g)",firstbad,
                     got[0][firstbad],r[w][0][firstbad]);
      printf("\n");
      if(w==0 && nbad)bad=1;
    }
  }
  if(bad)printf("FAIL: decoder output differs from the specification as "
                "written\n");
  if(bad)return 1;
  printf("OK: decoder output matches the specification as written\n");

  vorbis_block_clear(&vb);
  vorbis_dsp_clear(&vd);
  vorbis_comment_clear(&vc);
  vorbis_info_clear(&vi);
  return 0;
}
