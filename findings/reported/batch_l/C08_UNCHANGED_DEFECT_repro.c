/* Reproducer for UNCHANGED_DEFECT.md (property C08, unchanged library).

   A single-link Ogg Vorbis stream is built in memory whose packets are paged
   with one lacing value per page, so that every packet of 255 bytes or more
   is split over two or more pages (legal Ogg; other muxers than libogg's
   ogg_stream_pageout do this routinely).  The first audio packet is larger
   than 254 bytes, hence the first audio page carries granule position -1 and
   the packet is completed on the second audio page.

   ov_pcm_seek(0) / ov_time_seek(0.0) report success and ov_pcm_tell()==0,
   but the audio returned next is the audio of sample 128: the first audio
   packet was lost.  exit 1 = defect present, 0 = not present. */
#include <stdio.h>
#include <stdlib.h>
#include <string.h>
#include <math.h>
#include <errno.h>
#include <vorbis/codec.h>
#include <vorbis/vorbisenc.h>
#include <vorbis/vorbisfile.h>

typedef struct { unsigned char *d; long n, cap, pos; } mem_t;
static void mput(mem_t *m, const void *p, long n){
  if(m->n+n>m->cap){ m->cap=(m->n+n)*2+4096; m->d=realloc(m->d,m->cap);}
  memcpy(m->d+m->n,p,n); m->n+=n;
}
static void putpage(mem_t *m, ogg_page *og){ mput(m,og->header,og->header_len); mput(m,og->body,og->body_len); }

static unsigned rnd_state=12345;
static float rnd(void){ rnd_state=rnd_state*1103515245u+12345u; return ((rnd_state>>8)&0xffff)/32768.f-1.f; }

/* append one link. goff is added to every granulepos; perpage = packets per page (0: libogg default) */
static void gen_link(mem_t *m,long rate,int ch,long nsamp,int serial,ogg_int64_t goff,int perpage,float q){
  vorbis_info vi; vorbis_comment vc; vorbis_dsp_state vd; vorbis_block vb;
  ogg_stream_state os; ogg_page og; ogg_packet op, h[3];
  long done=0; int eos=0, inpage=0;
  vorbis_info_init(&vi);
  if(vorbis_encode_init_vbr(&vi,ch,rate,q)){fprintf(stderr,"enc init fail\n");exit(99);}
  vorbis_comment_init(&vc);
  vorbis_analysis_init(&vd,&vi); vorbis_block_init(&vd,&vb);
  ogg_stream_init(&os,serial);
  vorbis_analysis_headerout(&vd,&vc,&h[0],&h[1],&h[2]);
  ogg_stream_packetin(&os,&h[0]); ogg_stream_packetin(&os,&h[1]); ogg_stream_packetin(&os,&h[2]);
  while(ogg_stream_flush(&os,&og)) putpage(m,&og);
  while(!eos){
    long n=nsamp-done; if(n>1024)n=1024;
    if(n>0){
      float **b=vorbis_analysis_buffer(&vd,n); int c; long i;
      for(i=0;i<n;i++){ double t=(double)(done+i)/rate;
        for(c=0;c<ch;c++) b[c][i]=0.9*rnd(); }
      vorbis_analysis_wrote(&vd,n); done+=n;
    }else vorbis_analysis_wrote(&vd,0);
    while(vorbis_analysis_blockout(&vd,&vb)==1){
      vorbis_analysis(&vb,NULL); vorbis_bitrate_addblock(&vb);
      while(vorbis_bitrate_flushpacket(&vd,&op)){
        op.granulepos+=goff;
        ogg_stream_packetin(&os,&op); inpage++;
        if(perpage>0){
          if(inpage>=perpage || op.e_o_s){ while(ogg_stream_flush(&os,&og)){putpage(m,&og); if(ogg_page_eos(&og))eos=1;} inpage=0; }
        }else{
          while(ogg_stream_pageout(&os,&og)){putpage(m,&og); if(ogg_page_eos(&og))eos=1;}
        }
      }
    }
  }
  while(ogg_stream_flush(&os,&og)) putpage(m,&og);
  ogg_stream_clear(&os); vorbis_block_clear(&vb); vorbis_dsp_clear(&vd); vorbis_comment_clear(&vc); vorbis_info_clear(&vi);
}


/* pager that splits packets across pages: at most segs lacing values per page */
static void gen_link_split(mem_t *m,long rate,int ch,long nsamp,int serial,ogg_int64_t goff,int segs,float q){
  vorbis_info vi; vorbis_comment vc; vorbis_dsp_state vd; vorbis_block vb;
  ogg_stream_state os; ogg_page og; ogg_packet op, h[3];
  long done=0; int eos=0; long pageno;
  unsigned char *lv=NULL; char *fin=NULL; ogg_int64_t *gp=NULL; long nl=0,capl=0;
  unsigned char *body=NULL; long nb=0,capb=0;
  vorbis_info_init(&vi);
  if(vorbis_encode_init_vbr(&vi,ch,rate,q)){fprintf(stderr,"enc init fail\n");exit(99);}
  vorbis_comment_init(&vc);
  vorbis_analysis_init(&vd,&vi); vorbis_block_init(&vd,&vb);
  ogg_stream_init(&os,serial);
  vorbis_analysis_headerout(&vd,&vc,&h[0],&h[1],&h[2]);
  ogg_stream_packetin(&os,&h[0]); ogg_stream_packetin(&os,&h[1]); ogg_stream_packetin(&os,&h[2]);
  while(ogg_stream_flush(&os,&og)) putpage(m,&og);
  pageno=ogg_page_pageno(&og)+1;
  while(!eos){
    long n=nsamp-done; if(n>1024)n=1024;
    if(n>0){
      float **b=vorbis_analysis_buffer(&vd,n); int c; long i;
      for(i=0;i<n;i++){ double t=(double)(done+i)/rate;
        for(c=0;c<ch;c++) b[c][i]=0.9*rnd(); }
      vorbis_analysis_wrote(&vd,n); done+=n;
    }else vorbis_analysis_wrote(&vd,0);
    while(vorbis_analysis_blockout(&vd,&vb)==1){
      vorbis_analysis(&vb,NULL); vorbis_bitrate_addblock(&vb);
      while(vorbis_bitrate_flushpacket(&vd,&op)){
        long left=op.bytes;
        if(nb+op.bytes>capb){capb=(nb+op.bytes)*2+1024; body=realloc(body,capb);}
        memcpy(body+nb,op.packet,op.bytes); nb+=op.bytes;
        for(;;){ int v=left>=255?255:left;
          if(nl>=capl){capl=capl*2+1024; lv=realloc(lv,capl); fin=realloc(fin,capl); gp=realloc(gp,capl*sizeof*gp);}
          lv[nl]=v; fin[nl]=(v<255); gp[nl]=op.granulepos+goff; nl++; left-=v; if(v<255)break; }
        if(op.e_o_s)eos=1;
      }
    }
  }
  { long i=0,bo=0;
    while(i<nl){ unsigned char hdr[27+255]; long k,n=nl-i<segs?nl-i:segs,bl=0; ogg_int64_t g=-1; int flags=0; ogg_page pg;
      if(i>0 && !fin[i-1])flags|=1;
      if(i+n>=nl)flags|=4;
      for(k=0;k<n;k++){ hdr[27+k]=lv[i+k]; bl+=lv[i+k]; if(fin[i+k])g=gp[i+k]; }
      memcpy(hdr,"OggS",4); hdr[4]=0; hdr[5]=flags;
      { ogg_int64_t gg=g; for(k=0;k<8;k++){hdr[6+k]=(unsigned char)(gg&0xff); gg>>=8;} }
      for(k=0;k<4;k++)hdr[14+k]=(serial>>(8*k))&0xff;
      for(k=0;k<4;k++)hdr[18+k]=(pageno>>(8*k))&0xff;
      hdr[22]=hdr[23]=hdr[24]=hdr[25]=0; hdr[26]=n;
      pg.header=hdr; pg.header_len=27+n; pg.body=body+bo; pg.body_len=bl;
      ogg_page_checksum_set(&pg); putpage(m,&pg);
      pageno++; i+=n; bo+=bl; }
  }
  free(lv);free(fin);free(gp);free(body);
  ogg_stream_clear(&os); vorbis_block_clear(&vb); vorbis_dsp_clear(&vd); vorbis_comment_clear(&vc); vorbis_info_clear(&vi);
}

static size_t m_read(void *p,size_t s,size_t n,void *ds){ mem_t *m=ds; long want=s*n; if(want>m->n-m->pos)want=m->n-m->pos; if(want<0)want=0; memcpy(p,m->d+m->pos,want); m->pos+=want; errno=0; return want/s; }
static int m_seek(void *ds,ogg_int64_t off,int wh){ mem_t *m=ds; ogg_int64_t np= wh==SEEK_SET?off: wh==SEEK_CUR?m->pos+off: m->n+off; if(np<0||np>m->n)return -1; m->pos=np; return 0; }
static long m_tell(void *ds){ return ((mem_t*)ds)->pos; }
static ov_callbacks CB={m_read,m_seek,NULL,m_tell};

static int fails=0;
#define FAIL(...) do{ if(fails<25){printf("FAIL: " __VA_ARGS__); printf("\n");} fails++; }while(0)

static short *ref; static ogg_int64_t reflen; static int CH;

static void build_ref(mem_t *m){
  OggVorbis_File vf; int sec; long r; char buf[4096]; ogg_int64_t n=0;
  m->pos=0;
  if(ov_open_callbacks(m,&vf,NULL,0,CB)){printf("open fail\n");exit(98);}
  reflen=ov_pcm_total(&vf,-1); CH=ov_info(&vf,0)->channels;
  ref=malloc((reflen+16)*CH*2);
  while((r=ov_read(&vf,buf,sizeof buf,0,2,1,&sec))>0){ if(n+r/(2*CH)>reflen){printf("ref overrun\n");exit(97);} memcpy(ref+n*CH,buf,r); n+=r/(2*CH); }
  if(n!=reflen){printf("linear decode %ld != total %ld\n",(long)n,(long)reflen);exit(96);}
  ov_clear(&vf);
}

/* after seek: tell==p and content matches */
static void check_content(OggVorbis_File *vf,ogg_int64_t p,const char *what){
  char buf[512]; int sec; long r; ogg_int64_t q=p; int loops=0;
  while(q<p+64 && q<reflen && loops++<8){
    r=ov_read(vf,buf,sizeof buf,0,2,1,&sec);
    if(r<=0){FAIL("%s to %ld: read returned %ld at %ld (L=%ld)",what,(long)p,r,(long)q,(long)reflen);return;}
    if(memcmp(buf,ref+q*CH,r)){FAIL("%s to %ld: decoded data differs from linear decode at %ld",what,(long)p,(long)q);return;}
    q+=r/(2*CH);
  }
  if(p==reflen){ r=ov_read(vf,buf,sizeof buf,0,2,1,&sec); if(r!=0)FAIL("%s to L: next read gives %ld not EOF",what,r); }
}

int main(void){
  mem_t m={0}; OggVorbis_File vf; int r; long first_audio_gran=0; int found=0;
  const int ch=4;
  /* one link, 4 channels, loud noise, quality 1.0, ONE lacing value per page:
     every packet of 255 bytes or more is split over two or more pages */
  gen_link_split(&m,48000,ch,40000,1002,0,1,1.0f);
  /* precondition: the first audio page (4th page: id header, then the
     comment+setup headers are on pages 1..) carries no granule position */
  { long o=0; while(o+27<=m.n){ unsigned char *h=m.d+o; int n=h[26],k; long bl=0; long long g=0;
      for(k=0;k<n;k++)bl+=h[27+k]; for(k=7;k>=0;k--)g=(g<<8)|h[6+k];
      if(!(h[5]&2) && !found && g!=0){ /* header pages have granule position 0 */ first_audio_gran=g; found=1; }
      o+=27+n+bl; } }
  printf("granule position of the first audio page: %ld\n",first_audio_gran);
  if(first_audio_gran!=-1){printf("set-up problem: the first audio packet was not split\n");return 2;}
  build_ref(&m);
  m.pos=0; if(ov_open_callbacks(&m,&vf,NULL,0,CB)){printf("open fail\n");return 98;}
  printf("links %ld, total %ld samples, %d channels\n",ov_streams(&vf),(long)ov_pcm_total(&vf,-1),ov_info(&vf,0)->channels);
  /* freshly opened: reading from the start is fine (this is what build_ref did) */
  r=ov_pcm_seek(&vf,1000); printf("ov_pcm_seek(1000) -> %d, tell %ld\n",r,(long)ov_pcm_tell(&vf)); check_content(&vf,1000,"pcm_seek");
  r=ov_pcm_seek(&vf,1);    printf("ov_pcm_seek(1)    -> %d, tell %ld\n",r,(long)ov_pcm_tell(&vf)); check_content(&vf,1,"pcm_seek");
  r=ov_pcm_seek(&vf,0);    printf("ov_pcm_seek(0)    -> %d, tell %ld\n",r,(long)ov_pcm_tell(&vf)); check_content(&vf,0,"pcm_seek");
  /* where does the audio that is returned after the seek to 0 really come from? */
  { char buf[256]; int sec; long got; int d,best=-1; ov_pcm_seek(&vf,0); got=ov_read(&vf,buf,sizeof buf,0,2,1,&sec);
    for(d=0;d<4096 && best<0;d++) if(got>0 && !memcmp(buf,ref+(long)d*CH,got))best=d;
    printf("after ov_pcm_seek(0) the first %ld bytes read are the audio of sample %d\n",got,best);
    while(ov_pcm_tell(&vf)<3000 && (got=ov_read(&vf,buf,sizeof buf,0,2,1,&sec))>0);
  }
  r=ov_time_seek(&vf,0.0); printf("ov_time_seek(0.0) -> %d, tell %ld\n",r,(long)ov_pcm_tell(&vf)); check_content(&vf,0,"time_seek");
  ov_clear(&vf);
  printf(fails?"DEFECT PRESENT: %d checks failed\n":"no defect seen\n",fails);
  return fails?1:0;
}
