/* Reproducer for a defect of the UNCHANGED library against property C09
   (see UNCHANGED_DEFECT.md).

   A link is laid out so that its first audio page carries only the first 255
   bytes of the first audio packet (so no packet ends on that page and its
   granule position is -1) and its second audio page carries everything else
   and is the last page of the link (EOS).  This is a legal packet-to-page
   arrangement: Ogg allows a page to end after any 255-byte segment.

   When that link is link 0 of a seekable file (or the only link), reading
   from the start delivers none of its audio, while ov_pcm_total reports all
   of it; when the very same link is link 1 of a chain, every sample is
   delivered.

   exit 0: property holds; exit 1: violated. */
#include <stdio.h>
#include <stdlib.h>
#include <string.h>
#include <math.h>
#include <ogg/ogg.h>
#include <vorbis/codec.h>
#include <vorbis/vorbisenc.h>
#include <vorbis/vorbisfile.h>

#ifndef M_PI
#define M_PI 3.14159265358979323846
#endif

typedef struct { unsigned char *d; size_t n, cap; } buf;
static void bput(buf *b,const void *p,size_t n){
  if(b->n+n>b->cap){ b->cap=(b->n+n)*2+4096; b->d=realloc(b->d,b->cap); }
  memcpy(b->d+b->n,p,n); b->n+=n;
}
static void bpage(buf *b,ogg_page *og){
  bput(b,og->header,og->header_len); bput(b,og->body,og->body_len);
}

/* in-memory data source */
typedef struct { buf *b; size_t pos; } mem;
static size_t m_read(void *p,size_t sz,size_t nm,void *ds){
  mem *m=ds; size_t want=sz*nm, left=m->b->n-m->pos;
  if(want>left)want=left;
  memcpy(p,m->b->d+m->pos,want); m->pos+=want; return want;
}
static int m_seek(void *ds,ogg_int64_t off,int wh){
  mem *m=ds; ogg_int64_t np;
  if(wh==SEEK_SET)np=off; else if(wh==SEEK_CUR)np=(ogg_int64_t)m->pos+off; else np=(ogg_int64_t)m->b->n+off;
  if(np<0||np>(ogg_int64_t)m->b->n)return -1;
  m->pos=(size_t)np; return 0;
}
static long m_tell(void *ds){ return (long)((mem*)ds)->pos; }
static ov_callbacks CB={m_read,m_seek,NULL,m_tell};

typedef struct { int ch; long rate; long n; float q; int serial; const char *tag; int split; } linkspec;

static unsigned lcg=1;
static double noise(void){ lcg=lcg*1103515245u+12345u; return ((lcg>>8)&0xffff)/65535.0-0.5; }

/* re-lay the audio packets of a link: the first audio page gets 'firstsegs'
   lacing values, every later page up to 255 (packets may span pages).  The
   header pages are kept as they are. */
static void repaginate(buf *b,int firstsegs){
  ogg_sync_state oy; ogg_stream_state os; ogg_page og; ogg_packet op; buf o={0};
  vorbis_info vi; vorbis_comment vc; int npk=0,serial=0,i; long pageno=0;
  unsigned char *lace=NULL; ogg_int64_t *lgran=NULL; int nl=0; buf body={0};
  long lastbs=-1; ogg_int64_t gp=0,eosgran=-1;
  vorbis_info_init(&vi); vorbis_comment_init(&vc);
  ogg_sync_init(&oy);
  memcpy(ogg_sync_buffer(&oy,(long)b->n),b->d,b->n); ogg_sync_wrote(&oy,(long)b->n);
  while(ogg_sync_pageout(&oy,&og)==1){
    if(ogg_page_bos(&og)){ serial=ogg_page_serialno(&og); ogg_stream_init(&os,serial); }
    ogg_stream_pagein(&os,&og);
    if(npk<3){ bpage(&o,&og); pageno=ogg_page_pageno(&og)+1; }
    if(ogg_page_eos(&og))eosgran=ogg_page_granulepos(&og);
    while(ogg_stream_packetout(&os,&op)==1){
      long bs,n;
      if(npk<3){ vorbis_synthesis_headerin(&vi,&vc,&op); npk++; continue; }
      if(npk==3)printf("  (first audio packet is %ld bytes long)\n",op.bytes);
      if(npk==3 && op.bytes<255*firstsegs){ fprintf(stderr,"first audio packet too short for this layout\n"); exit(2); }
      npk++;
      bs=vorbis_packet_blocksize(&vi,&op); n=op.bytes;
      if(lastbs!=-1)gp+=(lastbs+bs)/4;
      lastbs=bs;
      lace=realloc(lace,nl+n/255+2); lgran=realloc(lgran,sizeof(*lgran)*(nl+n/255+2));
      while(n>=255){ lace[nl]=255; lgran[nl]=-1; nl++; n-=255; }
      lace[nl]=(unsigned char)n; lgran[nl]=gp; nl++;
      bput(&body,op.packet,op.bytes);
    }
  }
  if(nl)lgran[nl-1]=eosgran; /* the last packet carries the true end */
  { int p=0,first=1; size_t bo=0;
    while(p<nl){
      int take=first?firstsegs:255; unsigned char h[27+255]; ogg_int64_t g=-1; size_t bl=0; ogg_page pg;
      if(take>nl-p)take=nl-p;
      for(i=0;i<take;i++){ bl+=lace[p+i]; if(lace[p+i]<255)g=lgran[p+i]; }
      memset(h,0,sizeof h); memcpy(h,"OggS",4);
      h[5]=(unsigned char)(((p>0&&lace[p-1]==255)?1:0)|((p+take==nl)?4:0));
      for(i=0;i<8;i++)h[6+i]=(unsigned char)(((unsigned long long)g>>(8*i))&0xff);
      for(i=0;i<4;i++)h[14+i]=(unsigned char)(((unsigned)serial>>(8*i))&0xff);
      for(i=0;i<4;i++)h[18+i]=(unsigned char)((pageno>>(8*i))&0xff);
      h[26]=(unsigned char)take; memcpy(h+27,lace+p,take);
      pg.header=h; pg.header_len=27+take; pg.body=body.d+bo; pg.body_len=(long)bl;
      ogg_page_checksum_set(&pg); bpage(&o,&pg);
      printf("  (audio page %ld: %d segments, granulepos %lld%s%s)\n",pageno,take,(long long)g,(h[5]&1)?", continued packet":"",(h[5]&4)?", EOS":"");
      p+=take; bo+=bl; pageno++; first=0;
    }
  }
  ogg_sync_clear(&oy); ogg_stream_clear(&os); vorbis_info_clear(&vi); vorbis_comment_clear(&vc);
  free(lace); free(lgran); free(body.d); free(b->d); *b=o;
}

static void encode_link0(buf *out,const linkspec *s);
static void encode_link(buf *out,const linkspec *s){
  buf t={0};
  encode_link0(&t,s);
  if(s->split)repaginate(&t,s->split);
  bput(out,t.d,t.n); free(t.d);
}

static void encode_link0(buf *out,const linkspec *s){
  vorbis_info vi; vorbis_comment vc; vorbis_dsp_state vd; vorbis_block vb;
  ogg_stream_state os; ogg_page og; ogg_packet op,h0,h1,h2;
  long done=0; int eos=0;
  lcg=(unsigned)s->n*7u+(unsigned)s->ch;
  vorbis_info_init(&vi);
  if(vorbis_encode_init_vbr(&vi,s->ch,s->rate,s->q)){ fprintf(stderr,"encoder setup failed\n"); exit(2); }
  vorbis_comment_init(&vc);
  vorbis_comment_add_tag(&vc,"TITLE",s->tag);
  vorbis_analysis_init(&vd,&vi); vorbis_block_init(&vd,&vb);
  ogg_stream_init(&os,s->serial);
  vorbis_analysis_headerout(&vd,&vc,&h0,&h1,&h2);
  ogg_stream_packetin(&os,&h0); ogg_stream_packetin(&os,&h1); ogg_stream_packetin(&os,&h2);
  while(ogg_stream_flush(&os,&og))bpage(out,&og);
  while(!eos){
    long chunk=s->n-done,i; int c;
    if(chunk>1024)chunk=1024;
    if(chunk==0)vorbis_analysis_wrote(&vd,0);
    else{
      float **b=vorbis_analysis_buffer(&vd,chunk);
      for(c=0;c<s->ch;c++)for(i=0;i<chunk;i++){
        double t=(double)(done+i)/s->rate;
        b[c][i]=(float)(0.4*sin(2*M_PI*(220.0+110.0*c)*t)+(s->q>=0.95f?1.2:0.2)*noise());
      }
      vorbis_analysis_wrote(&vd,chunk); done+=chunk;
    }
    while(vorbis_analysis_blockout(&vd,&vb)==1){
      vorbis_analysis(&vb,NULL); vorbis_bitrate_addblock(&vb);
      while(vorbis_bitrate_flushpacket(&vd,&op)){
        ogg_stream_packetin(&os,&op);
        while(!eos && ogg_stream_pageout(&os,&og)){
          bpage(out,&og);
          if(ogg_page_eos(&og))eos=1;
        }
      }
    }
  }
  ogg_stream_clear(&os); vorbis_block_clear(&vb); vorbis_dsp_clear(&vd);
  vorbis_comment_clear(&vc); vorbis_info_clear(&vi);
}

/* read a whole physical stream through vorbisfile; samples per link, interleaved */
typedef struct { float *pcm; long n; int ch; } dec;
static int decode_all(buf *b,dec *out,int maxlinks){
  OggVorbis_File vf; mem m; int r,cur=-1; long i; int c;
  m.b=b; m.pos=0;
  if((r=ov_open_callbacks(&m,&vf,NULL,0,CB))){ printf("    open failed: %d\n",r); return r; }
  for(;;){
    float **pcm; int bs=-1; long got=ov_read_float(&vf,&pcm,1000,&bs);
    if(got==0)break;
    if(got<0){ printf("    ov_read_float returned %ld\n",got); ov_clear(&vf); return (int)got; }
    if(bs!=cur){
      if(bs<cur||bs>=maxlinks){ printf("    bitstream index went from %d to %d\n",cur,bs); ov_clear(&vf); return -1000; }
      cur=bs; out[cur].ch=ov_info(&vf,-1)->channels;
    }
    out[cur].pcm=realloc(out[cur].pcm,sizeof(float)*(out[cur].n+got)*out[cur].ch);
    for(i=0;i<got;i++)for(c=0;c<out[cur].ch;c++)
      out[cur].pcm[(out[cur].n+i)*out[cur].ch+c]=pcm[c][i];
    out[cur].n+=got;
  }
  ov_clear(&vf);
  return 0;
}

#define FAIL(...) do{ printf("  VIOLATION: " __VA_ARGS__); printf("\n"); bad++; }while(0)

static int run(const char *name,linkspec *ls,int k){
  buf chain={0},*lb=calloc(k,sizeof(buf));
  dec *ref=calloc(k,sizeof(dec)),*got=calloc(k,sizeof(dec));
  int i,bad=0; OggVorbis_File vf; mem m; ogg_int64_t sum=0;
  printf("%s\n",name);
  for(i=0;i<k;i++){
    encode_link(&lb[i],&ls[i]);
    bput(&chain,lb[i].d,lb[i].n);
    if(decode_all(&lb[i],&ref[i],1))FAIL("link %d could not be decoded on its own",i);
    if(ref[i].n!=ls[i].n)FAIL("link %d on its own decodes to %ld samples, %ld were encoded",i,ref[i].n,ls[i].n);
  }
  m.b=&chain; m.pos=0;
  i=ov_open_callbacks(&m,&vf,NULL,0,CB);
  if(i){ FAIL("ov_open_callbacks on the chain returned %d",i); goto out; }
  if(ov_streams(&vf)!=k)FAIL("ov_streams=%ld, %d links were written",ov_streams(&vf),k);
  for(i=0;i<k && i<ov_streams(&vf);i++){
    vorbis_info *vi=ov_info(&vf,i);
    char *t=vorbis_comment_query(ov_comment(&vf,i),"TITLE",0);
    printf("  link %d: serial 0x%08lx  %d ch  %ld Hz  title '%s'  ov_pcm_total=%ld  (encoded %ld)\n",
           i,(unsigned long)ov_serialnumber(&vf,i)&0xffffffffUL,vi->channels,vi->rate,t?t:"(none)",
           (long)ov_pcm_total(&vf,i),ls[i].n);
    if(vi->channels!=ls[i].ch||vi->rate!=ls[i].rate)FAIL("link %d: wrong channels/rate",i);
    if(!t||strcmp(t,ls[i].tag))FAIL("link %d: wrong comment",i);
    if((int)ov_serialnumber(&vf,i)!=ls[i].serial)FAIL("link %d: wrong serial number",i);
    if(ov_pcm_total(&vf,i)!=ls[i].n)
      FAIL("link %d: ov_pcm_total reports %ld samples, the link holds %ld",i,(long)ov_pcm_total(&vf,i),ls[i].n);
    if(fabs(ov_time_total(&vf,i)-(double)ls[i].n/ls[i].rate)>1e-9)
      FAIL("link %d: ov_time_total reports %.6f s, the link lasts %.6f s",i,ov_time_total(&vf,i),(double)ls[i].n/ls[i].rate);
    sum+=ls[i].n;
  }
  if(ov_pcm_total(&vf,-1)!=sum)
    FAIL("ov_pcm_total(-1)=%ld is not the sum of the links (%ld)",(long)ov_pcm_total(&vf,-1),(long)sum);
  ov_clear(&vf);

  if(decode_all(&chain,got,k)){ FAIL("reading the chain from the start failed"); goto out; }
  for(i=0;i<k;i++){
    if(got[i].n!=ls[i].n)FAIL("link %d: reading the chain from the start delivered %ld samples of it, %ld were encoded",i,got[i].n,ls[i].n);
    if(got[i].n!=ref[i].n){ FAIL("link %d: %ld samples delivered from the chain, %ld when decoded alone",i,got[i].n,ref[i].n); continue; }
    if(ref[i].n && (got[i].ch!=ref[i].ch ||
       memcmp(got[i].pcm,ref[i].pcm,sizeof(float)*ref[i].n*ref[i].ch)))
      FAIL("link %d: audio from the chain differs from the link decoded alone",i);
  }
out:
  printf("  => %s\n",bad?"property violated":"ok");
  return bad;
}

int main(void){
  int bad=0;
  /* X: the first audio page ends no packet, the second is the last page.
     Y: an ordinary short link. */
  linkspec X={4,48000,600,1.0f,1002,"X",1}, Y={2,44100,600,0.4f,1001,"Y",0};
  {
    linkspec l[1]; l[0]=X;
    bad+=run("X alone (k=1)",l,1);
  }
  {
    linkspec l[2]; l[0]=X; l[1]=Y;
    bad+=run("chain X,Y: X is link 0",l,2);
  }
  {
    linkspec l[2]; l[0]=Y; l[1]=X;
    bad+=run("chain Y,X: X is link 1",l,2);
  }
  if(bad){ printf("FAILED: %d violation(s)\n",bad); return 1; }
  printf("all checks passed\n");
  return 0;
}
