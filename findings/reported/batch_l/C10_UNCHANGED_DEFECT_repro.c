/* Reproducer for UNCHANGED_DEFECT.md (property C10, unchanged library).

   A legal two-link chained Ogg Vorbis stream whose second link carries a
   comment field containing 7-bit text that happens to be shaped like a
   complete, checksum-valid Ogg page with the serial number of the FIRST
   link.  Streaming-mode vorbisfile and the packet-level API decode the
   stream completely; seekable-mode vorbisfile refuses to open it
   (OV_EREAD), for every read-size schedule.

   cc -g -I<wt>/include UNCHANGED_DEFECT_repro.c <b>/lib/libvorbisfile.a \
      <b>/lib/libvorbisenc.a <b>/lib/libvorbis.a -logg -lm -lpthread -o repro
   exit 0: property holds; exit 1: violated (this is what the unchanged
   library gives); exit 2: the construction failed. */
#include <stdio.h>
#include <stdlib.h>
#include <string.h>
#include <math.h>
#include <errno.h>
#include <ogg/ogg.h>
#include <vorbis/codec.h>
#include <vorbis/vorbisenc.h>
#include <vorbis/vorbisfile.h>

/* ---------- growable byte / float buffers ---------- */
typedef struct { unsigned char *d; long n, cap; } bytes_t;
static void bytes_add(bytes_t *b,const void *p,long n){
  if(b->n+n>b->cap){ b->cap=(b->n+n)*2+4096; b->d=realloc(b->d,b->cap); }
  memcpy(b->d+b->n,p,n); b->n+=n;
}
typedef struct { float *d; long n, cap; } pcm_t;
static void pcm_add(pcm_t *b,float v){
  if(b->n+1>b->cap){ b->cap=b->cap*2+65536; b->d=realloc(b->d,b->cap*sizeof(float)); }
  b->d[b->n++]=v;
}

static unsigned lcg(unsigned *s){ *s=*s*1664525u+1013904223u; return *s>>8; }

/* ---------- an in-memory data source with a read-size schedule ---------- */
typedef struct {
  const unsigned char *d; long n, pos;
  int sched;        /* 0: give all that is asked; 1: one byte at a time;
                       2: pseudo-random 1..asked; 3: cycle 1,2,3,5,8,13,...,1597 */
  unsigned rng; long calls;
} src_t;

static size_t src_read(void *ptr,size_t sz,size_t nm,void *ds){
  src_t *s=ds; long want=(long)(sz*nm), left=s->n-s->pos, give=want;
  static const int fib[]={1,2,3,5,8,13,21,34,55,89,144,233,377,610,987,1597};
  if(s->sched==1)give=1;
  else if(s->sched==2)give=1+lcg(&s->rng)%want;
  else if(s->sched==3)give=fib[s->calls%16];
  s->calls++;
  if(give>want)give=want;
  if(give>left)give=left;
  if(give<=0)return 0;
  memcpy(ptr,s->d+s->pos,give); s->pos+=give;
  return give;
}
static int src_seek(void *ds,ogg_int64_t off,int whence){
  src_t *s=ds; ogg_int64_t p;
  if(whence==SEEK_SET)p=off; else if(whence==SEEK_CUR)p=s->pos+off; else p=s->n+off;
  if(p<0||p>s->n)return -1;
  s->pos=(long)p; return 0;
}
static long src_tell(void *ds){ return ((src_t*)ds)->pos; }

/* ---------- decode through vorbisfile ---------- */
/* lensched: 0 -> always 4096 samples; 1 -> 1 sample at a time; 2 -> pseudo-random 1..700 */
static int decode_vf(const bytes_t *in,int seekable,int sched,int lensched,
                     pcm_t *out,long *perlink,int maxlinks,const char *what){
  OggVorbis_File vf; src_t s; ov_callbacks cb; int r; unsigned lr=12345;
  memset(&s,0,sizeof s); s.d=in->d; s.n=in->n; s.sched=sched; s.rng=777;
  cb.read_func=src_read; cb.close_func=NULL;
  cb.seek_func=seekable?src_seek:NULL; cb.tell_func=seekable?src_tell:NULL;
  r=ov_open_callbacks(&s,&vf,NULL,0,cb);
  if(r){ printf("%s: ov_open_callbacks failed: %d\n",what,r); return 1; }
  if(!!ov_seekable(&vf)!=!!seekable){ printf("%s: seekable flag wrong\n",what); ov_clear(&vf); return 1; }
  for(;;){
    float **pcm; int bs=-1; long i; int c,ch;
    int len=lensched==0?4096:lensched==1?1:1+(int)(lcg(&lr)%700);
    long n=ov_read_float(&vf,&pcm,len,&bs);
    if(n==0)break;
    if(n<0){ printf("%s: ov_read_float returned %ld (hole/error on an intact stream)\n",what,n); ov_clear(&vf); return 1; }
    if(n>len){ printf("%s: ov_read_float returned %ld > requested %d\n",what,n,len); ov_clear(&vf); return 1; }
    ch=ov_info(&vf,-1)->channels;
    for(i=0;i<n;i++)for(c=0;c<ch;c++)pcm_add(out,pcm[c][i]);
    if(perlink && bs>=0 && bs<maxlinks)perlink[bs]+=n;
  }
  ov_clear(&vf);
  return 0;
}

/* ---------- decode through the packet-level API ---------- */
static int decode_raw(const bytes_t *in,int sched,int lensched,pcm_t *out,
                      long *perlink,int maxlinks,const char *what){
  ogg_sync_state oy; ogg_stream_state os; ogg_page og; ogg_packet op;
  vorbis_info vi; vorbis_comment vc; vorbis_dsp_state vd; vorbis_block vb;
  src_t s; int have_os=0, hdrs=0, dsp=0, link=-1, rc=0; unsigned lr=999;
  memset(&s,0,sizeof s); s.d=in->d; s.n=in->n; s.sched=sched; s.rng=4242;
  ogg_sync_init(&oy);
  for(;;){
    int pr=ogg_sync_pageout(&oy,&og);
    if(pr<0){ printf("%s: sync lost\n",what); rc=1; break; }
    if(pr==0){
      char *b=ogg_sync_buffer(&oy,4096);
      long n=(long)src_read(b,1,4096,&s);
      if(n<=0)break;
      ogg_sync_wrote(&oy,n);
      continue;
    }
    if(ogg_page_bos(&og)){
      if(dsp){ vorbis_block_clear(&vb); vorbis_dsp_clear(&vd); dsp=0; }
      if(hdrs||have_os){ if(link>=0){ vorbis_comment_clear(&vc); vorbis_info_clear(&vi);} }
      if(have_os)ogg_stream_clear(&os);
      ogg_stream_init(&os,ogg_page_serialno(&og)); have_os=1;
      vorbis_info_init(&vi); vorbis_comment_init(&vc); hdrs=0; link++;
    }
    if(!have_os || ogg_page_serialno(&og)!=os.serialno)continue;
    if(ogg_stream_pagein(&os,&og)<0){ printf("%s: pagein failed\n",what); rc=1; break; }
    for(;;){
      int r=ogg_stream_packetout(&os,&op);
      if(r==0)break;
      if(r<0){ printf("%s: hole in packet-level decode\n",what); rc=1; break; }
      if(hdrs<3){
        if(vorbis_synthesis_headerin(&vi,&vc,&op)<0){ printf("%s: bad header\n",what); rc=1; break; }
        if(++hdrs==3){
          if(vorbis_synthesis_init(&vd,&vi)){ printf("%s: synthesis_init failed\n",what); rc=1; break; }
          vorbis_block_init(&vd,&vb); dsp=1;
        }
        continue;
      }
      if(vorbis_synthesis(&vb,&op)==0)vorbis_synthesis_blockin(&vd,&vb);
      for(;;){
        float **pcm; long i; int c;
        int len=lensched==0?4096:lensched==1?1:1+(int)(lcg(&lr)%700);
        int n=vorbis_synthesis_pcmout(&vd,&pcm);
        if(n<=0)break;
        if(n>len)n=len;
        for(i=0;i<n;i++)for(c=0;c<vi.channels;c++)pcm_add(out,pcm[c][i]);
        if(perlink && link<maxlinks)perlink[link]+=n;
        vorbis_synthesis_read(&vd,n);
      }
    }
    if(rc)break;
  }
  if(dsp){ vorbis_block_clear(&vb); vorbis_dsp_clear(&vd); }
  if(link>=0){ vorbis_comment_clear(&vc); vorbis_info_clear(&vi); }
  if(have_os)ogg_stream_clear(&os);
  ogg_sync_clear(&oy);
  return rc;
}

static int pcm_same(const pcm_t *a,const pcm_t *b,const char *na,const char *nb){
  long i;
  if(a->n!=b->n){ printf("MISMATCH: %s gives %ld values, %s gives %ld values\n",na,a->n,nb,b->n); return 1; }
  for(i=0;i<a->n;i++)if(memcmp(a->d+i,b->d+i,sizeof(float))){
    printf("MISMATCH: %s and %s differ at value %ld (%g vs %g)\n",na,nb,i,a->d[i],b->d[i]); return 1; }
  return 0;
}

/* ================= the demonstration proper ================= */

/* ---------- encode once, paginate many times ---------- */
typedef struct { unsigned char *d; long bytes; ogg_int64_t gp; int eos; } pkt_t;
typedef struct { pkt_t id, setup; pkt_t *a; int na; } link_t;

static pkt_t pkt_copy(const ogg_packet *op){
  pkt_t p; p.d=malloc(op->bytes?op->bytes:1); memcpy(p.d,op->packet,op->bytes);
  p.bytes=op->bytes; p.gp=op->granulepos; p.eos=op->e_o_s; return p;
}

static int encode_packets(link_t *L,int ch,long rate,float q,long nsamples,unsigned seed){
  vorbis_info vi; vorbis_comment vc; vorbis_dsp_state vd; vorbis_block vb; ogg_packet op;
  long done=0; int eos=0, cap=0;
  memset(L,0,sizeof *L);
  vorbis_info_init(&vi);
  if(vorbis_encode_init_vbr(&vi,ch,rate,q)){ fprintf(stderr,"encode init failed\n"); return -1; }
  vorbis_comment_init(&vc);
  vorbis_analysis_init(&vd,&vi);
  vorbis_block_init(&vd,&vb);
  { ogg_packet h,hc,hb; vorbis_analysis_headerout(&vd,&vc,&h,&hc,&hb); L->id=pkt_copy(&h); L->setup=pkt_copy(&hb); }
  while(!eos){
    long n=nsamples-done; int i,c;
    if(n>1024)n=1024;
    if(n<=0)vorbis_analysis_wrote(&vd,0);
    else{
      float **buf=vorbis_analysis_buffer(&vd,n);
      for(i=0;i<n;i++){
        double t=(double)(done+i)/rate;
        for(c=0;c<ch;c++){
          double v=0.35*sin(2*M_PI*(220.0+110.0*c)*t)+0.2*sin(2*M_PI*(1370.0+seed%97)*t*(1.0+0.1*c));
          v+=((int)(lcg(&seed)%2001)-1000)/1000.0*0.05;
          buf[c][i]=(float)v;
        }
      }
      vorbis_analysis_wrote(&vd,n); done+=n;
    }
    while(vorbis_analysis_blockout(&vd,&vb)==1){
      vorbis_analysis(&vb,NULL);
      vorbis_bitrate_addblock(&vb);
      while(vorbis_bitrate_flushpacket(&vd,&op)){
        if(L->na==cap){ cap=cap*2+64; L->a=realloc(L->a,cap*sizeof *L->a); }
        L->a[L->na++]=pkt_copy(&op);
        if(op.e_o_s)eos=1;
      }
    }
  }
  vorbis_block_clear(&vb); vorbis_dsp_clear(&vd); vorbis_comment_clear(&vc); vorbis_info_clear(&vi);
  return 0;
}

static void page_add(bytes_t *out,ogg_page *og){
  bytes_add(out,og->header,og->header_len); bytes_add(out,og->body,og->body_len);
}

/* write one link: a PAD comment of `pad` bytes; the first `tiny` audio
   packets get a page each (a page may legally be flushed after any
   packet).  *p1 receives the offset just past the first audio page. */
static void paginate(bytes_t *out,const link_t *L,int serial,const unsigned char *cm,long cmlen,long *cmoff){
  long pad=0; int tiny=0; long *dataoff=NULL,*p1=NULL;
  ogg_stream_state os; ogg_page og; ogg_packet op; vorbis_comment vc; int i,apg=0; long pno=0;
  ogg_stream_init(&os,serial);
  memset(&op,0,sizeof op);
  op.packet=L->id.d; op.bytes=L->id.bytes; op.b_o_s=1; op.packetno=pno++; ogg_stream_packetin(&os,&op);
  vorbis_comment_init(&vc);
  (void)pad;
  { /* one comment, "PAD=" followed by the given bytes (vorbis_comment_add wants a C string, so fill the entry by hand) */
    vc.user_comments=malloc(2*sizeof(char*)); vc.comment_lengths=malloc(2*sizeof(int));
    vc.user_comments[0]=malloc(cmlen+5); memcpy(vc.user_comments[0],"PAD=",4); memcpy(vc.user_comments[0]+4,cm,cmlen); vc.user_comments[0][cmlen+4]=0;
    vc.comment_lengths[0]=cmlen+4; vc.user_comments[1]=NULL; vc.comments=1; }
  { ogg_packet hc; vorbis_commentheader_out(&vc,&hc); hc.packetno=pno++; ogg_stream_packetin(&os,&hc); ogg_packet_clear(&hc); }
  vorbis_comment_clear(&vc);
  memset(&op,0,sizeof op);
  op.packet=L->setup.d; op.bytes=L->setup.bytes; op.packetno=pno++; ogg_stream_packetin(&os,&op);
  { long at=out->n; while(ogg_stream_flush(&os,&og))page_add(out,&og);
    if(cmoff){ long i; *cmoff=-1; for(i=at;i+4<=out->n;i++)if(!memcmp(out->d+i,"PAD=",4)){ *cmoff=i+4; break; } } }
  if(dataoff)*dataoff=out->n;
  for(i=0;i<L->na;i++){
    memset(&op,0,sizeof op);
    op.packet=L->a[i].d; op.bytes=L->a[i].bytes; op.granulepos=L->a[i].gp; op.e_o_s=L->a[i].eos; op.packetno=pno++;
    ogg_stream_packetin(&os,&op);
    while((i<tiny||i==L->na-1)?ogg_stream_flush(&os,&og):ogg_stream_pageout(&os,&og)){
      page_add(out,&og);
      if(++apg==1 && p1)*p1=out->n;
    }
  }
  ogg_stream_clear(&os);
}


#define CHUNKSIZE 65536

static int run(int control){
  link_t L1,L2; bytes_t f={0}, cm={0}, fake={0};
  const int S1=0x11111111, S2=0x22222222;
  long padA=40000, padB=300, cmoff=-1, link2at, fakeat, i;

  encode_packets(&L1,2,44100,0.4f,140000,1);
  encode_packets(&L2,2,32000,0.3f,60000,2);

  /* a small, complete, CRC-valid Ogg page that claims link 1's serial
     number; every byte of it is 7-bit, so it is acceptable content for a
     (UTF-8) comment field.  Vary the body until the checksum bytes are
     7-bit as well. */
  {
    unsigned n;
    for(n=0;;n++){
      ogg_stream_state os; ogg_page og; ogg_packet op; char body[64]; int ok=1,k;
      snprintf(body,sizeof body,"this text only looks like a page %08u",n);
      ogg_stream_init(&os,S1);
      memset(&op,0,sizeof op); op.packet=(unsigned char*)body; op.bytes=strlen(body); op.granulepos=0x0101;
      ogg_stream_packetin(&os,&op);
      ogg_stream_flush(&os,&og);
      og.header[5]=0;            /* not a BOS page */
      ogg_page_checksum_set(&og);
      for(k=0;k<og.header_len;k++)if(og.header[k]&0x80)ok=0;
      if(ok){ fake.n=0; bytes_add(&fake,og.header,og.header_len); bytes_add(&fake,og.body,og.body_len); }
      ogg_stream_clear(&os);
      if(ok)break;
    }
  }
  if(control)fake.d[0]='o'; /* control experiment: same bytes, but no capture pattern */
  for(i=0;i<padA;i++)bytes_add(&cm,"x",1);
  bytes_add(&cm,fake.d,fake.n);
  for(i=0;i<padB;i++)bytes_add(&cm,"x",1);

  paginate(&f,&L1,S1,(const unsigned char*)"none",4,NULL);
  link2at=f.n;
  paginate(&f,&L2,S2,cm.d,cm.n,&cmoff);
  fakeat=cmoff+padA;
  printf("file %ld bytes; link 2 starts at %ld; its comment text starts at %ld; the page-shaped text sits at %ld..%ld\n",
         f.n,link2at,cmoff,fakeat,fakeat+fake.n);
  if(memcmp(f.d+fakeat+1,"ggS",3)){ printf("construction error\n"); return 2; }

  {
    int fail=0; int nl=2;
    static const char *schedn[]={"full reads","1-byte reads","random reads","fibonacci reads"};
    static const char *lenn[]={"len 4096","len 1","random len"};
    pcm_t ref={0}; long refl[8]={0}; int sc,ls,mode,i;
    if(decode_raw(&f,0,0,&ref,refl,8,"reference packet-level")){ printf("reference decode failed\n"); return 2; }
    printf("reference: %ld values; per link %ld %ld\n",ref.n,refl[0],refl[1]);
    for(mode=0;mode<3;mode++)for(sc=0;sc<4;sc++)for(ls=0;ls<3;ls+=2){
      pcm_t p={0}; long pl[8]={0}; char what[128]; int r;
      snprintf(what,sizeof what,"%s, %s, %s",mode==0?"vorbisfile seekable":mode==1?"vorbisfile streaming":"packet-level",schedn[sc],lenn[ls]);
      r=mode==2?decode_raw(&f,sc,ls,&p,pl,8,what):decode_vf(&f,mode==0,sc,ls,&p,pl,8,what);
      if(r){ fail=1; }
      else if(pcm_same(&ref,&p,"reference",what))fail=1;
      else for(i=0;i<nl;i++)if(pl[i]!=refl[i]){ printf("%s: link %d has %ld samples, expected %ld\n",what,i,pl[i],refl[i]); fail=1; }
      free(p.d);
    }
    printf(fail?"FAIL: property C10 violated\n":"OK: all access paths agree\n");
    return fail;
  }
}

int main(void){
  int c,r;
  printf("--- control: the comment holds the same text with the first letter in lower case\n");
  c=run(1);
  printf("--- experiment: the comment holds text that is shaped like an Ogg page of link 1\n");
  r=run(0);
  if(c){ printf("control failed: the construction itself is at fault\n"); return 2; }
  return r;
}
