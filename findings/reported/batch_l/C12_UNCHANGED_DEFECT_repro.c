/* Reproducer: on the UNCHANGED library a read callback that fails (returns
 * 0 with errno set) while ov_raw_seek() is scanning for the first page is
 * swallowed: the seek returns 0 (success) and parks ov_pcm_tell() at
 * ov_pcm_total(), although the data source is not at its end.  Because
 * ov_open_callbacks() finishes with such a raw seek, the same failure in one
 * of the last reads of an open yields a "successfully" opened handle that
 * claims to stand at the end of the stream and then plays from the start,
 * counting its position on past the total.
 *
 * exit 0: the failure surfaced as an error code (defect absent)
 * exit 1: the failure was swallowed (defect present)
 */
#include <stdio.h>
#include <stdlib.h>
#include <string.h>
#include <errno.h>
#include <math.h>
#include <signal.h>
#include <unistd.h>
#include <vorbis/codec.h>
#include <vorbis/vorbisenc.h>
#define OV_EXCLUDE_STATIC_CALLBACKS
#include <vorbis/vorbisfile.h>

/* ------------------------------------------------------------------ */
/* growing byte buffer                                                 */
typedef struct { unsigned char *d; long n, cap; } buf_t;
static void buf_add(buf_t *b, const void *p, long n){
  if(b->n+n>b->cap){
    b->cap=(b->n+n)*2+4096;
    b->d=realloc(b->d,b->cap);
    if(!b->d){ printf("out of memory\n"); exit(99); }
  }
  memcpy(b->d+b->n,p,n);
  b->n+=n;
}
static void buf_page(buf_t *b, ogg_page *og){
  buf_add(b,og->header,og->header_len);
  buf_add(b,og->body,og->body_len);
}

/* encode one logical stream (link) and append it to out */
static void encode_link(buf_t *out,int ch,long rate,float q,int serial,
                        double secs,int padlen,unsigned seed){
  vorbis_info vi; vorbis_comment vc; vorbis_dsp_state vd; vorbis_block vb;
  ogg_stream_state os; ogg_page og; ogg_packet op;
  long total=(long)(secs*rate),done=0;
  int eos=0,i,c;
  unsigned lcg=seed;

  vorbis_info_init(&vi);
  if(vorbis_encode_init_vbr(&vi,ch,rate,q)){ printf("encoder init failed\n"); exit(99); }
  vorbis_comment_init(&vc);
  vorbis_comment_add_tag(&vc,"ENCODER","c12-demo");
  if(padlen>0){
    char *pad=malloc(padlen+1);
    memset(pad,'x',padlen); pad[padlen]=0;
    vorbis_comment_add_tag(&vc,"PAD",pad);
    free(pad);
  }
  vorbis_analysis_init(&vd,&vi);
  vorbis_block_init(&vd,&vb);
  ogg_stream_init(&os,serial);
  {
    ogg_packet h,hc,hb;
    vorbis_analysis_headerout(&vd,&vc,&h,&hc,&hb);
    ogg_stream_packetin(&os,&h);
    ogg_stream_packetin(&os,&hc);
    ogg_stream_packetin(&os,&hb);
    while(ogg_stream_flush(&os,&og)) buf_page(out,&og);
  }
  while(!eos){
    long n=total-done; if(n>1024)n=1024;
    if(n<=0){
      vorbis_analysis_wrote(&vd,0);
    }else{
      float **b=vorbis_analysis_buffer(&vd,n);
      for(i=0;i<n;i++){
        double t=(double)(done+i)/rate;
        for(c=0;c<ch;c++){
          lcg=lcg*1103515245u+12345u;
          b[c][i]=(float)(0.4*sin(2*M_PI*(330.+110.*c+40.*(seed%5))*t)
                          +0.2*sin(2*M_PI*1250.*t*(1.+.1*c))
                          +0.05*(((lcg>>16)&0x7fff)/16384.-1.));
        }
      }
      vorbis_analysis_wrote(&vd,n);
      done+=n;
    }
    while(vorbis_analysis_blockout(&vd,&vb)==1){
      vorbis_analysis(&vb,NULL);
      vorbis_bitrate_addblock(&vb);
      while(vorbis_bitrate_flushpacket(&vd,&op)){
        ogg_stream_packetin(&os,&op);
        while(!eos){
          if(!ogg_stream_pageout(&os,&og))break;
          buf_page(out,&og);
          if(ogg_page_eos(&og))eos=1;
        }
      }
    }
  }
  ogg_stream_clear(&os);
  vorbis_block_clear(&vb);
  vorbis_dsp_clear(&vd);
  vorbis_comment_clear(&vc);
  vorbis_info_clear(&vi);
}

/* ------------------------------------------------------------------ */
/* fault injecting data source                                         */
enum { F_NONE=0, F_READ_ERR, F_READ_ZERO, F_READ_ONE, F_SEEK_FAIL, F_TELL_FAIL, F_KINDS };
static const char *kindname[]={"none","read error (errno=EIO)","premature zero read",
                               "one-byte read","seek returns -1","tell returns -1"};
typedef struct {
  const unsigned char *d; long n,pos;
  long calls;        /* read+seek+tell invocations so far            */
  int  closed;       /* times close_func was called                  */
  int  kind;         /* fault kind                                   */
  long at;           /* fault is due from this invocation index on   */
  int  persist;      /* keeps failing after the first time           */
  int  fired;
} src_t;

static int due(src_t *s,int is_read,int is_seek,int is_tell){
  long idx=s->calls++;
  if(s->kind==F_NONE || idx<s->at) return 0;
  if(s->fired && !s->persist) return 0;
  if((s->kind==F_READ_ERR||s->kind==F_READ_ZERO||s->kind==F_READ_ONE) && !is_read) return 0;
  if(s->kind==F_SEEK_FAIL && !is_seek) return 0;
  if(s->kind==F_TELL_FAIL && !is_tell) return 0;
  s->fired=1;
  return 1;
}
static size_t cb_read(void *ptr,size_t sz,size_t nm,void *ds){
  src_t *s=ds; long want=(long)(sz*nm),have=s->n-s->pos;
  if(due(s,1,0,0)){
    if(s->kind==F_READ_ERR){ errno=EIO; return 0; }
    if(s->kind==F_READ_ZERO){ return 0; }
    if(want>1)want=1;
  }
  if(want>have)want=have;
  if(want<0)want=0;
  memcpy(ptr,s->d+s->pos,want);
  s->pos+=want;
  return want;
}
static int cb_seek(void *ds,ogg_int64_t off,int whence){
  src_t *s=ds; ogg_int64_t np;
  if(due(s,0,1,0)) return -1;
  if(whence==SEEK_SET)np=off; else if(whence==SEEK_CUR)np=s->pos+off; else np=s->n+off;
  if(np<0||np>s->n) return -1;
  s->pos=(long)np;
  return 0;
}
static long cb_tell(void *ds){
  src_t *s=ds;
  if(due(s,0,0,1)) return -1;
  return s->pos;
}
static int cb_close(void *ds){ src_t *s=ds; s->closed++; return 0; }
static ov_callbacks CB={cb_read,cb_seek,cb_close,cb_tell};

/* ------------------------------------------------------------------ */
static char where[256]="(setup)";
static void on_crash(int sig){
  char msg[400];
  int n=snprintf(msg,sizeof msg,"VIOLATION: signal %d (%s) raised inside the library, %s\n",
                 sig,sig==SIGSEGV?"SIGSEGV":sig==SIGABRT?"SIGABRT":sig==SIGBUS?"SIGBUS":"?",where);
  if(n>0) (void)!write(1,msg,(size_t)n);
  _exit(3);
}

static buf_t st={0,0,0};

int main(void){
  OggVorbis_File vf; src_t s; long kopen,k; char pcm[4096]; int bad=0,r;
  ogg_int64_t total,tell; long n;

  setvbuf(stdout,NULL,_IONBF,0);
  signal(SIGSEGV,on_crash);
  (void)kindname;
  encode_link(&st,1,22050,.1f,0x1111,1.5,0,1);
  encode_link(&st,2,44100,.4f,0x2222,6.0,0,2);

  memset(&s,0,sizeof s); s.d=st.d; s.n=st.n;
  if(ov_open_callbacks(&s,&vf,NULL,0,CB)){ printf("clean open failed\n"); return 98; }
  kopen=s.calls; total=ov_pcm_total(&vf,-1);
  printf("stream %ld bytes, %ld samples, a clean open makes %ld callbacks; ov_pcm_tell after it: %ld\n",
         st.n,(long)total,kopen,(long)ov_pcm_tell(&vf));

  /* 1. ov_raw_seek on the open handle, its first read fails once */
  s.kind=F_READ_ERR; s.at=s.calls+1 /* #0 is the seek, #1 the first read */; s.persist=0; s.fired=0;
  r=ov_raw_seek(&vf,st.n/2);
  tell=ov_pcm_tell(&vf);
  s.kind=F_NONE;
  n=ov_read(&vf,pcm,sizeof pcm,0,2,1,NULL);
  printf("ov_raw_seek(%ld) with a failing read (fired=%d): returned %d, ov_pcm_tell=%ld (total %ld); next ov_read=%ld, ov_pcm_tell=%ld\n",
         st.n/2,s.fired,r,(long)tell,(long)total,n,(long)ov_pcm_tell(&vf));
  if(s.fired && r==0){ printf("  -> the read failure did not surface\n"); bad=1; }
  if(ov_pcm_tell(&vf)>total){ printf("  -> position beyond the end of the stream\n"); bad=1; }
  ov_clear(&vf);

  /* 2. the same inside ov_open_callbacks: the last reads of an open */
  for(k=kopen-4;k<kopen;k++){
    memset(&s,0,sizeof s); s.d=st.d; s.n=st.n; s.kind=F_READ_ERR; s.at=k;
    r=ov_open_callbacks(&s,&vf,NULL,0,CB);
    if(r==0){
      tell=ov_pcm_tell(&vf);
      s.kind=F_NONE;
      n=ov_read(&vf,pcm,sizeof pcm,0,2,1,NULL);
      printf("open with a failing read at callback #%ld (fired=%d): returned 0, ov_pcm_tell=%ld; first ov_read=%ld, ov_pcm_tell=%ld\n",
             k,s.fired,(long)tell,n,(long)ov_pcm_tell(&vf));
      if(s.fired){ printf("  -> the read failure did not surface\n"); bad=1; }
      if(tell!=0){ printf("  -> a freshly opened handle that is not at position 0\n"); bad=1; }
      ov_clear(&vf);
    }else
      printf("open with a failing read at callback #%ld: returned %d\n",k,r);
  }
  printf(bad?"DEFECT PRESENT\n":"ok\n");
  return bad;
}
