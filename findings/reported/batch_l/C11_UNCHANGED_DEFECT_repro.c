/* Reproducer: on the UNCHANGED library a packet lost on the last page (or
 * the stamped packet that closes the page before it) changes what the
 * *final* packet of the stream returns, many packets later: the
 * end-of-stream trim is lost and the padding behind the last real sample
 * is handed out as audio.
 *
 * An ordinary stereo stream of 133000 samples (not a multiple of the block
 * size, so the last block is partial) is encoded; packets are stamped with
 * a granule position only at the end of each (emulated) 8-packet page, as
 * libogg delivers them.  Each packet j of the last two pages in turn is
 * lost (or refused by vorbis_synthesis and skipped); everything returned
 * from packet j+2 on is compared with the undisturbed decode.
 *
 * exit 0: no difference; exit 1: the final packet differs.
 */
#include <stdio.h>
#include <stdlib.h>
#include <string.h>
#include <math.h>
#include <vorbis/codec.h>
#include <vorbis/vorbisenc.h>

#ifndef M_PI
#define M_PI 3.14159265358979323846
#endif

typedef struct { unsigned char *d; long n; ogg_int64_t gp,no; int eos; } pkt;
static pkt  hdr[3];
static pkt *ap;
static int  nap;
static ogg_int64_t T;  /* samples cut off the front: every stamp is lowered by T */

#define CH     2
#define RATE   44100
#define PAGE   8        /* packets per (emulated) Ogg page */
#define MAXS   4096     /* a packet never returns more than one long block */
typedef struct { int n; float s[CH][MAXS]; } outp;

static void keep(pkt *p,ogg_packet *op){
  p->d=malloc(op->bytes?op->bytes:1);
  memcpy(p->d,op->packet,op->bytes);
  p->n=op->bytes; p->gp=op->granulepos; p->no=op->packetno; p->eos=op->e_o_s;
}

static unsigned lcg=12345;
static float rnd(void){
  lcg=lcg*1103515245u+12345u;
  return ((lcg>>8)&0xffff)/32768.f-1.f;
}

static void encode(void){
  vorbis_info vi; vorbis_comment vc; vorbis_dsp_state vd; vorbis_block vb;
  ogg_packet op,h1,h2,h3;
  int total=RATE*3,pos=0;

  vorbis_info_init(&vi);
  if(vorbis_encode_init_vbr(&vi,CH,RATE,0.4f)){
    fprintf(stderr,"encoder set-up failed\n"); exit(2);
  }
  vorbis_comment_init(&vc);
  vorbis_analysis_init(&vd,&vi);
  vorbis_block_init(&vd,&vb);
  vorbis_analysis_headerout(&vd,&vc,&h1,&h2,&h3);
  keep(&hdr[0],&h1); keep(&hdr[1],&h2); keep(&hdr[2],&h3);
  ap=malloc(sizeof(*ap)*4096); nap=0;

  while(1){
    if(pos<total){
      int n=1000,i;
      float **b=vorbis_analysis_buffer(&vd,n);
      for(i=0;i<n;i++){
        int t=pos+i; double s=t/(double)RATE;
        float l=0.3*sin(2*M_PI*440*s)+0.2*sin(2*M_PI*1234.5*s)+0.05*rnd();
        float r=0.3*sin(2*M_PI*660*s)+0.1*rnd();
        /* a click on the left now and then: short blocks */
        if(t%22050>=11000 && t%22050<11020) l+=0.6f*((t&1)?1:-1);
        b[0][i]=l; b[1][i]=r;
      }
      vorbis_analysis_wrote(&vd,n); pos+=n;
    }else
      vorbis_analysis_wrote(&vd,0);
    while(vorbis_analysis_blockout(&vd,&vb)==1){
      vorbis_analysis(&vb,NULL);
      vorbis_bitrate_addblock(&vb);
      while(vorbis_bitrate_flushpacket(&vd,&op)){
        if(nap>=4096){ fprintf(stderr,"too many packets\n"); exit(2); }
        keep(&ap[nap++],&op);
      }
    }
    if(nap && ap[nap-1].eos)break;
  }
  vorbis_block_clear(&vb); vorbis_dsp_clear(&vd);
  vorbis_comment_clear(&vc); vorbis_info_clear(&vi);
}

enum { F_NONE, F_DROP, F_REJECT };
static const char *fname[]={"none","losing","a refused"};

/* decode every packet front to back with one decoder; packet 'bad' suffers
   'fault'.  o[i] receives what pcmout returned after packet i. */
static void decode(outp *o,int bad,int fault){
  vorbis_info vi; vorbis_comment vc; vorbis_dsp_state vd; vorbis_block vb;
  ogg_packet op; int i,c;

  vorbis_info_init(&vi); vorbis_comment_init(&vc);
  for(i=0;i<3;i++){
    memset(&op,0,sizeof op);
    op.packet=hdr[i].d; op.bytes=hdr[i].n; op.b_o_s=(i==0); op.packetno=i;
    if(vorbis_synthesis_headerin(&vi,&vc,&op)){ fprintf(stderr,"bad header\n"); exit(2); }
  }
  if(vorbis_synthesis_init(&vd,&vi)){ fprintf(stderr,"synthesis_init\n"); exit(2); }
  vorbis_block_init(&vd,&vb);

  for(i=0;i<nap;i++){
    unsigned char *buf; float **pcm; int n;
    o[i].n=0;
    if(i==bad && fault==F_DROP)continue;
    buf=malloc(ap[i].n+1);
    memcpy(buf,ap[i].d,ap[i].n);
    if(i==bad && fault==F_REJECT)buf[0]|=1; /* "not an audio packet" */

    memset(&op,0,sizeof op);
    op.packet=buf; op.bytes=ap[i].n;
    /* as libogg delivers them: only the last packet of a page is stamped */
    op.granulepos=(i%PAGE==PAGE-1 || ap[i].eos)?ap[i].gp-T:-1;
    op.packetno=ap[i].no; op.e_o_s=ap[i].eos;

    if(vorbis_synthesis(&vb,&op)==0)
      vorbis_synthesis_blockin(&vd,&vb);
    while((n=vorbis_synthesis_pcmout(&vd,&pcm))>0){
      if(o[i].n+n>MAXS){ fprintf(stderr,"output overflow\n"); exit(2); }
      for(c=0;c<CH;c++)memcpy(o[i].s[c]+o[i].n,pcm[c],n*sizeof(float));
      o[i].n+=n;
      vorbis_synthesis_read(&vd,n);
    }
    free(buf);
  }
  vorbis_block_clear(&vb); vorbis_dsp_clear(&vd);
  vorbis_comment_clear(&vc); vorbis_info_clear(&vi);
}

static int differs(const outp *a,const outp *b){
  int c;
  if(a->n!=b->n)return 1;
  for(c=0;c<CH;c++)
    if(memcmp(a->s[c],b->s[c],a->n*sizeof(float)))return 1;
  return 0;
}

int main(void){
  outp *ref,*got; int i,j,fault,fail=0;

  encode();
  if(nap<6*PAGE){ fprintf(stderr,"stream too short\n"); return 2; }
  T=0;                  /* stamps as the encoder made them */
  ref=calloc(nap,sizeof(*ref)); got=calloc(nap,sizeof(*got));
  if(!ref||!got){ fprintf(stderr,"out of memory\n"); return 2; }
  decode(ref,-1,F_NONE);
  printf("%d audio packets, first page stamped %ld, lowered by T=%ld; checking every single lost packet\n",
         nap,(long)ap[PAGE-1].gp,(long)T);

  /* only the last two pages */
  for(fault=F_DROP;fault<=F_REJECT;fault++)
    for(j=nap-2*PAGE;j<nap-2;j++){
      decode(got,j,fault);
      for(i=j+2;i<nap;i++)
        if(differs(&got[i],&ref[i])){
          int c,k,nd=0;
          for(c=0;c<CH;c++)
            for(k=0;k<ref[i].n && k<got[i].n;k++)
              if(memcmp(&got[i].s[c][k],&ref[i].s[c][k],sizeof(float)))nd++;
          printf("VIOLATION: %s packet %d changed what packet %d returns "
                 "(%d vs %d samples/channel, %d values differ)\n",
                 fname[fault],j,i,got[i].n,ref[i].n,nd);
          fail++;
          break;
        }
    }

  if(fail){
    printf("FAIL: %d lost packets reached beyond their neighbourhood\n",fail);
    return 1;
  }
  printf("OK: every lost packet j disturbed packet j+1 at most\n");
  return 0;
}
