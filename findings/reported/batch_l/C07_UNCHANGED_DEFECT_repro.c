/* shared harness: build chained Ogg Vorbis streams in memory, decode a
   reference, and check seeks against it */
#include <stdio.h>
#include <stdlib.h>
#include <string.h>
#include <math.h>
#include <errno.h>
#include <ogg/ogg.h>
#include <vorbis/codec.h>
#include <vorbis/vorbisenc.h>
#include <vorbis/vorbisfile.h>

typedef struct { unsigned char *d; size_t n, cap; } buf_t;
typedef struct { buf_t *b; size_t pos; long reads, seeks; } mem_t;

static void buf_add(buf_t *b, const void *p, size_t n){
  if(b->n+n>b->cap){ b->cap=(b->n+n)*2+4096; b->d=realloc(b->d,b->cap); }
  memcpy(b->d+b->n,p,n); b->n+=n;
}
static void buf_page(buf_t *b, ogg_page *og){
  buf_add(b,og->header,og->header_len); buf_add(b,og->body,og->body_len);
}

static size_t m_read(void *ptr,size_t sz,size_t nm,void *ds){
  mem_t *m=ds; size_t want=sz*nm, left=m->b->n-m->pos;
  if(want>left)want=left;
  memcpy(ptr,m->b->d+m->pos,want); m->pos+=want; m->reads++;
  return want/sz;
}
static int m_seek(void *ds,ogg_int64_t off,int wh){
  mem_t *m=ds; ogg_int64_t np;
  if(wh==SEEK_SET)np=off; else if(wh==SEEK_CUR)np=(ogg_int64_t)m->pos+off; else np=(ogg_int64_t)m->b->n+off;
  if(np<0||np>(ogg_int64_t)m->b->n)return -1;
  m->pos=np; m->seeks++; return 0;
}
static long m_tell(void *ds){ mem_t *m=ds; return (long)m->pos; }
static ov_callbacks m_cb={m_read,m_seek,NULL,m_tell};

static unsigned rs=12345;
static unsigned rnd(void){ rs=rs*1103515245u+12345u; return (rs>>8)&0xffffff; }

/* layout: 0 normal pageout, k>0 flush every k packets,
   -1 everything on a single page (flush only at the end) */
typedef struct {
  int ch; long rate; float q; long samples; int layout; ogg_int64_t granoff; int serial;
  int tone;
} linkspec;

static int gen_link_i(buf_t *out,const linkspec *ls,int phase);
/* with layout k>0 the audio pages hold k packets each, the last one included
   (the first audio page takes the remainder) */
static void gen_link(buf_t *out,const linkspec *ls){
  int phase=0;
  if(ls->layout>0){
    unsigned save=rs; buf_t scratch={0}; int n=gen_link_i(&scratch,ls,0);
    free(scratch.d); rs=save;
    phase=(ls->layout-(n%ls->layout))%ls->layout;
  }
  gen_link_i(out,ls,phase);
}
static int gen_link_i(buf_t *out,const linkspec *ls,int phase){
  vorbis_info vi; vorbis_comment vc; vorbis_dsp_state vd; vorbis_block vb;
  ogg_stream_state os; ogg_page og; ogg_packet op;
  long done=0; int eos=0, npk=0;
  vorbis_info_init(&vi);
  if(vorbis_encode_init_vbr(&vi,ls->ch,ls->rate,ls->q)){fprintf(stderr,"enc init failed\n");exit(99);}
  vorbis_comment_init(&vc);
  vorbis_analysis_init(&vd,&vi); vorbis_block_init(&vd,&vb);
  ogg_stream_init(&os,ls->serial);
  {
    ogg_packet h,hc,hb;
    vorbis_analysis_headerout(&vd,&vc,&h,&hc,&hb);
    ogg_stream_packetin(&os,&h); ogg_stream_packetin(&os,&hc); ogg_stream_packetin(&os,&hb);
    while(ogg_stream_flush(&os,&og))buf_page(out,&og);
  }
  while(!eos){
    if(done>=ls->samples){
      vorbis_analysis_wrote(&vd,0);
    }else{
      long n=1024,i; int c; float **b;
      if(n>ls->samples-done)n=ls->samples-done;
      b=vorbis_analysis_buffer(&vd,n);
      for(i=0;i<n;i++){
        long t=done+i;
        for(c=0;c<ls->ch;c++){
          float v=0.3f*sinf((float)t*(0.02f+0.013f*ls->tone+0.005f*c));
          /* bursts, to provoke short blocks */
          if(((t/3000)&3)==1 && (t%3000)<200) v+=0.5f*((float)(rnd()&0xffff)/32768.f-1.f);
          v+=0.01f*((float)(rnd()&0xffff)/32768.f-1.f);
          b[c][i]=v;
        }
      }
      vorbis_analysis_wrote(&vd,n); done+=n;
    }
    while(vorbis_analysis_blockout(&vd,&vb)==1){
      vorbis_analysis(&vb,NULL); vorbis_bitrate_addblock(&vb);
      while(vorbis_bitrate_flushpacket(&vd,&op)){
        op.granulepos+=ls->granoff;
        ogg_stream_packetin(&os,&op); npk++;
        if(op.e_o_s)eos=1;
        if(ls->layout==0){
          while(ogg_stream_pageout(&os,&og))buf_page(out,&og);
        }else if(ls->layout>0 && ((npk+phase)%ls->layout)==0){
          while(ogg_stream_flush(&os,&og))buf_page(out,&og);
        }
      }
    }
  }
  while(ogg_stream_flush(&os,&og))buf_page(out,&og);
  ogg_stream_clear(&os); vorbis_block_clear(&vb); vorbis_dsp_clear(&vd);
  vorbis_comment_clear(&vc); vorbis_info_clear(&vi);
  return npk;
}

/* reference decode */
typedef struct {
  ogg_int64_t total;
  int maxch;
  float *pcm;    /* total*maxch */
  int *link;     /* per sample */
  int *ch;       /* per sample */
} ref_t;

static int failures=0;
#define FAIL(...) do{ printf("VIOLATION: "); printf(__VA_ARGS__); printf("\n"); failures++; }while(0)

static int build_ref(buf_t *b,ref_t *r,int maxch){
  OggVorbis_File vf; mem_t m={b,0,0,0}; int ret;
  ogg_int64_t pos=0;
  if((ret=ov_open_callbacks(&m,&vf,NULL,0,m_cb))){printf("open failed %d\n",ret);return -1;}
  r->total=ov_pcm_total(&vf,-1); r->maxch=maxch;
  r->pcm=calloc((size_t)(r->total+16)*maxch,sizeof(float));
  r->link=calloc((size_t)r->total+16,sizeof(int));
  r->ch=calloc((size_t)r->total+16,sizeof(int));
  while(1){
    float **pcm; int bs=-1; long n,i; int c,ch;
    ogg_int64_t t=ov_pcm_tell(&vf);
    if(t!=pos){FAIL("linear decode: tell %ld, expected %ld",(long)t,(long)pos);ov_clear(&vf);return -1;}
    n=ov_read_float(&vf,&pcm,1+(rnd()%3000),&bs);
    if(n==0)break;
    if(n<0){FAIL("linear decode: read error %ld at %ld",n,(long)pos);ov_clear(&vf);return -1;}
    if(pos+n>r->total){FAIL("linear decode: delivers past total (%ld+%ld > %ld)",(long)pos,n,(long)r->total);ov_clear(&vf);return -1;}
    ch=ov_info(&vf,bs)->channels;
    for(i=0;i<n;i++){
      r->link[pos+i]=bs; r->ch[pos+i]=ch;
      for(c=0;c<ch;c++)r->pcm[(size_t)(pos+i)*maxch+c]=pcm[c][i];
    }
    pos+=n;
  }
  if(pos!=r->total){FAIL("linear decode: ended at %ld, total %ld",(long)pos,(long)r->total);ov_clear(&vf);return -1;}
  ov_clear(&vf);
  return 0;
}

/* read up to want samples (all the rest if want<0) and compare with the reference.
   returns 0 ok, -1 violation */
static int check_read(OggVorbis_File *vf,ref_t *r,long want,const char *what,int use_int){
  ogg_int64_t T=ov_pcm_tell(vf);
  if(T<0||T>r->total){FAIL("%s: reported position %ld outside 0..%ld",what,(long)T,(long)r->total);return -1;}
  while(want){
    long n,i; int c,bs=-1; ogg_int64_t T2;
    int req=1+rnd()%2000;
    if(want>0&&req>want)req=want;
    if(use_int){
      static char ib[8192*2]; int ch;
      if(T<r->total){ ch=r->ch[T]; } else ch=1;
      n=ov_read(vf,ib,req*2*ch>(int)sizeof(ib)?(int)sizeof(ib):req*2*ch,0,2,1,&bs);
      if(n>0){
        long ns=n/(2*ch); short *s=(short*)ib;
        if(T+ns>r->total){FAIL("%s: read past total",what);return -1;}
        for(i=0;i<ns;i++){
          if(r->link[T+i]!=bs){FAIL("%s: sample %ld link %d expected %d",what,(long)(T+i),bs,r->link[T+i]);return -1;}
          for(c=0;c<ch;c++){
            float f=r->pcm[(size_t)(T+i)*r->maxch+c]*32768.f; int v;
            if(f>32767.f)f=32767.f; if(f<-32768.f)f=-32768.f;
            v=(int)lrintf(f);
            if(v!=s[i*ch+c]){FAIL("%s: sample %ld ch %d is %d, uninterrupted decode has %d",what,(long)(T+i),c,s[i*ch+c],v);return -1;}
          }
        }
        n=ns;
      }
    }else{
      float **pcm;
      n=ov_read_float(vf,&pcm,req,&bs);
      if(n>0){
        int ch;
        if(T+n>r->total){FAIL("%s: read of %ld at %ld goes past total %ld",what,n,(long)T,(long)r->total);return -1;}
        ch=ov_info(vf,bs)->channels;
        for(i=0;i<n;i++){
          if(r->link[T+i]!=bs){FAIL("%s: sample %ld delivered with link %d, uninterrupted decode has link %d",what,(long)(T+i),bs,r->link[T+i]);return -1;}
          for(c=0;c<ch;c++)
            if(memcmp(&pcm[c][i],&r->pcm[(size_t)(T+i)*r->maxch+c],sizeof(float))){
              FAIL("%s: sample %ld ch %d is %.9g, uninterrupted decode has %.9g",what,(long)(T+i),c,pcm[c][i],r->pcm[(size_t)(T+i)*r->maxch+c]);return -1;}
        }
      }
    }
    if(n<0){FAIL("%s: read error %ld at %ld",what,n,(long)T);return -1;}
    if(n==0){
      if(T!=r->total){FAIL("%s: end of data at %ld, total is %ld",what,(long)T,(long)r->total);return -1;}
      return 0;
    }
    T2=ov_pcm_tell(vf);
    if(T2!=T+n){FAIL("%s: position went %ld -> %ld after %ld samples",what,(long)T,(long)T2,n);return -1;}
    T=T2;
    if(want>0)want-=n;
  }
  return 0;
}

/* ------------------------------------------------------------------ */
/* Reproducer for two observations on the UNCHANGED library.
   1. a link whose first audio page has a granule position that is smaller
      than the page's sample count by more than the last packet's output
      ("samples trimmed off the beginning"): an uninterrupted ov_read_float
      from the start reports positions that jump backwards.
   2. (only with an injected, transient read error) ov_raw_seek returns 0
      and reports the total as position, and the next reads deliver samples
      past the total. */
static int fault=0;
static size_t f_read(void *ptr,size_t sz,size_t nm,void *ds){
  if(fault){fault--; errno=EIO; return 0;}
  return m_read(ptr,sz,nm,ds);
}
int main(void){
  int bad=0;
  {
    static const linkspec l0={2,44100,0.4f,60000,0,-3000,5001,0}; /* every granule position 3000 lower */
    buf_t b={0}; OggVorbis_File vf; mem_t m={&b,0,0,0}; ogg_int64_t pos=0; float **pcm; int bs; long n;
    rs=777; gen_link(&b,&l0);
    if(ov_open_callbacks(&m,&vf,NULL,0,m_cb)){printf("open failed\n");return 2;}
    printf("1. trimmed start: total %ld\n",(long)ov_pcm_total(&vf,-1));
    while(1){
      ogg_int64_t t=ov_pcm_tell(&vf);
      if(t!=pos){printf("   VIOLATION: after %ld samples read from the start ov_pcm_tell says %ld\n",(long)pos,(long)t);bad=1;break;}
      n=ov_read_float(&vf,&pcm,1024,&bs);
      if(n<=0)break;
      pos+=n;
    }
    if(!bad && pos!=ov_pcm_total(&vf,-1)){printf("   VIOLATION: %ld samples delivered, total %ld\n",(long)pos,(long)ov_pcm_total(&vf,-1));bad=1;}
    if(!bad)printf("   ok\n");
    ov_clear(&vf);
  }
  {
    static const linkspec l0={2,44100,0.4f,60000,0,0,1001,0};
    buf_t b={0}; OggVorbis_File vf; mem_t m={&b,0,0,0}; int ret; float **pcm; long n; int bs;
    ov_callbacks cb=m_cb; cb.read_func=f_read;
    rs=777; gen_link(&b,&l0);
    if(ov_open_callbacks(&m,&vf,NULL,0,cb)){printf("open failed\n");return 2;}
    fault=1;
    ret=ov_raw_seek(&vf,b.n/2);
    printf("2. ov_raw_seek with one failing read: returns %d, ov_pcm_tell=%ld (total %ld)\n",ret,(long)ov_pcm_tell(&vf),(long)ov_pcm_total(&vf,-1));
    n=ov_read_float(&vf,&pcm,1000,&bs);
    printf("   next ov_read_float returns %ld, ov_pcm_tell=%ld\n",n,(long)ov_pcm_tell(&vf));
    if(ret==0 && n>0){printf("   VIOLATION: samples delivered past the total after a seek that reported success\n");bad=1;}
    ov_clear(&vf);
  }
  return bad;
}
