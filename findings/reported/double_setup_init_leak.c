#include <stdio.h>
#include <vorbis/codec.h>
#include <vorbis/vorbisenc.h>
int main(){ vorbis_info vi; vorbis_info_init(&vi);
 int r=vorbis_encode_setup_vbr(&vi,2,44100,.4f); printf("setup %d\n",r);
 r=vorbis_encode_setup_init(&vi); printf("init1 %d\n",r);
 r=vorbis_encode_setup_init(&vi); printf("init2 %d\n",r);
 vorbis_info_clear(&vi); return 0;}
