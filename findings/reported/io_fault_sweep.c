/* demo.c - C12: after a one-shot seek-callback failure, a seek back to the
 * position the handle reports (ov_raw_tell) must behave exactly like the same
 * seek on a handle that never saw a failure.
 *
 * build (against either tree):
 *   gcc -g -I<tree>/include demo.c <build>/lib/libvorbisfile.a \
 *       <build>/lib/libvorbisenc.a <build>/lib/libvorbis.a -logg -lm -o demo
 *
 * exit 0: property holds in all scenarios; exit 1: a scenario diverged.
 * Only the public API is used; the stream is encoded in memory; all I/O goes
 * through callbacks on a memory buffer; the seek callback can be told to fail
 * on its n-th call (one-shot, returns -1 and leaves the position untouched,
 * which is what fseek() does on failure).
 */
#include <stdio.h>
#include <stdlib.h>
#include <string.h>
#include <errno.h>
#include <unistd.h>
#include <math.h>
#include <vorbis/codec.h>
#include <vorbis/vorbisenc.h>
#include <vorbis/vorbisfile.h>
#include <ogg/ogg.h>

/* ---------------------------------------------------------------- encoder */
typedef struct { unsigned char *d; size_t n, cap; } buf_t;

static void buf_add(buf_t *b, const void *p, size_t n){
  if(b->n+n>b->cap){
    b->cap=(b->n+n)*2+4096;
    b->d=realloc(b->d,b->cap);
    if(!b->d){ perror("realloc"); exit(2); }
  }
  memcpy(b->d+b->n,p,n); b->n+=n;
}
static void page_add(buf_t *b, ogg_page *og){
  buf_add(b,og->header,og->header_len);
  buf_add(b,og->body,og->body_len);
}

static void encode_link(buf_t *out, int serial, int channels, long rate,
                        double seconds, unsigned seed){
  vorbis_info vi; vorbis_comment vc; vorbis_dsp_state vd; vorbis_block vb;
  ogg_stream_state os; ogg_page og; ogg_packet op, h1, h2, h3;
  long total=(long)(seconds*rate), done=0;
  unsigned lcg=seed;
  int eos=0;

  vorbis_info_init(&vi);
  if(vorbis_encode_init_vbr(&vi,channels,rate,0.3f)){ fprintf(stderr,"enc init\n"); exit(2); }
  vorbis_comment_init(&vc);
  vorbis_comment_add_tag(&vc,"TITLE","c12 demo");
  vorbis_analysis_init(&vd,&vi);
  vorbis_block_init(&vd,&vb);
  ogg_stream_init(&os,serial);
  vorbis_analysis_headerout(&vd,&vc,&h1,&h2,&h3);
  ogg_stream_packetin(&os,&h1);
  ogg_stream_packetin(&os,&h2);
  ogg_stream_packetin(&os,&h3);
  while(ogg_stream_flush(&os,&og)) page_add(out,&og);

  while(!eos){
    if(done>=total){
      vorbis_analysis_wrote(&vd,0);
    }else{
      long n=total-done>1024?1024:total-done, i; int c;
      float **pcm=vorbis_analysis_buffer(&vd,n);
      for(i=0;i<n;i++){
        double t=(double)(done+i)/rate;
        for(c=0;c<channels;c++){
          lcg=lcg*1664525u+1013904223u;
          pcm[c][i]=(float)(0.4*sin(2*M_PI*(220.0+110.0*c+40.0*t)*t)
                            +0.05*(((lcg>>16)&0x7fff)/16384.0-1.0));
        }
      }
      vorbis_analysis_wrote(&vd,n);
      done+=n;
    }
    while(vorbis_analysis_blockout(&vd,&vb)==1){
      vorbis_analysis(&vb,NULL);
      vorbis_bitrate_addblock(&vb);
      while(vorbis_bitrate_flushpacket(&vd,&op)){
        ogg_stream_packetin(&os,&op);
        while(!eos && ogg_stream_pageout(&os,&og)){
          page_add(out,&og);
          if(ogg_page_eos(&og)) eos=1;
        }
      }
    }
  }
  ogg_stream_clear(&os);
  vorbis_block_clear(&vb);
  vorbis_dsp_clear(&vd);
  vorbis_comment_clear(&vc);
  vorbis_info_clear(&vi);
}


typedef struct {
  const unsigned char *d; ogg_int64_t n, pos;
  int calls; int fault_at; int kind; int persist; int armed; int injected; int closed;
} src_t;
enum {K_NONE,K_RDERR,K_RDZERO,K_RD1,K_SEEK,K_TELL};
static int hit(src_t*s){ int idx=s->calls++; if(!s->armed)return 0; if(s->persist? idx>=s->fault_at : idx==s->fault_at) return 1; return 0;}
static size_t cb_read(void *ptr, size_t sz, size_t nm, void *ds){
  src_t *s=ds; ogg_int64_t want=(ogg_int64_t)(sz*nm), left=s->n-s->pos;
  int h=hit(s);
  if(h && s->kind==K_RDERR){s->injected++; errno=EIO; return 0;}
  if(h && s->kind==K_RDZERO){s->injected++; errno=0; return 0;}
  if(h && s->kind==K_RD1){s->injected++; if(want>1)want=1;}
  if(want>left)want=left;
  memcpy(ptr,s->d+s->pos,(size_t)want); s->pos+=want; return (size_t)want;
}
static int cb_seek(void *ds, ogg_int64_t off, int whence){
  src_t *s=ds; ogg_int64_t np; int h=hit(s);
  if(h && s->kind==K_SEEK){s->injected++; errno=EIO; return -1;}
  switch(whence){case SEEK_SET:np=off;break;case SEEK_CUR:np=s->pos+off;break;case SEEK_END:np=s->n+off;break;default:return -1;}
  if(np<0||np>s->n)return -1; s->pos=np; return 0;
}
static long cb_tell(void *ds){ src_t*s=ds; int h=hit(s); if(h&&s->kind==K_TELL){s->injected++;return -1;} return (long)s->pos; }
static int cb_close(void *ds){ ((src_t*)ds)->closed++; return 0; }
static const ov_callbacks CB={cb_read,cb_seek,cb_close,cb_tell};
static void src_init(src_t *s, const buf_t *b){ memset(s,0,sizeof(*s)); s->d=b->d; s->n=b->n; s->fault_at=-1; }

static long read_full(OggVorbis_File *vf, char *dst, long want, int *lastsec){
  long got=0; int holes=0;
  while(got<want){ int sec=-1; long r=ov_read(vf,dst+got,(int)(want-got),0,2,1,&sec);
    if(r==OV_HOLE){ if(++holes>1000)break; continue;} if(r<=0)break; got+=r; if(lastsec)*lastsec=sec;}
  return got;
}
#define NREAD 16384
static buf_t file;
static const char*kn[]={"none","rderr","rdzero","rd1","seek","tell"};

static int compare_at(OggVorbis_File*vet, int how, ogg_int64_t pos, const char*tag){
  static char a[NREAD],b[NREAD]; src_t s2; OggVorbis_File fresh; int ra,rb,sa=-1,sb=-1; long na,nb; ogg_int64_t ta,tb;
  src_init(&s2,&file); if(ov_open_callbacks(&s2,&fresh,NULL,0,CB)){puts("fresh open fail");exit(2);}
  if(how==0){ra=ov_raw_seek(vet,pos);rb=ov_raw_seek(&fresh,pos);}
  else if(how==1){ra=ov_pcm_seek(vet,pos);rb=ov_pcm_seek(&fresh,pos);}
  else {ra=ov_pcm_seek_page(vet,pos);rb=ov_pcm_seek_page(&fresh,pos);}
  ta=ov_pcm_tell(vet);tb=ov_pcm_tell(&fresh);
  memset(a,0,NREAD);memset(b,0,NREAD);
  na=read_full(vet,a,NREAD,&sa);nb=read_full(&fresh,b,NREAD,&sb);
  ov_clear(&fresh);
  if(ra!=rb||ta!=tb||na!=nb||sa!=sb||memcmp(a,b,NREAD)){
    printf("DIVERGE %s how=%d pos=%ld: ret %d/%d tell %ld/%ld n %ld/%ld sec %d/%d\n",tag,how,(long)pos,ra,rb,(long)ta,(long)tb,na,nb,sa,sb); return 1;}
  return 0;
}

/* scenario ids: 0 open only; 1 reads; 2 raw_seek; 3 pcm_seek; 4 pcm_seek_page; 5 time_seek; 6 pcm_seek near link boundary */
static int run(int scen,int kind,int persist,int k,int *ncalls_out, ogg_int64_t cleantot, ogg_int64_t rawtot){
  src_t s; OggVorbis_File vf; int r; static char scratch[NREAD]; int bad=0; char tag[128];
  src_init(&s,&file); s.kind=kind; s.persist=persist;
  snprintf(tag,sizeof tag,"scen=%d kind=%s persist=%d k=%d",scen,kn[kind],persist,k);
  if(scen==0){ s.armed=1; s.fault_at=k; }
  r=ov_open_callbacks(&s,&vf,NULL,0,CB);
  if(scen==0){
    if(ncalls_out)*ncalls_out=s.calls;
    if(r<0){ if(s.closed){printf("CLOSED on failed open %s\n",tag);bad=1;} return bad; }
    if(s.injected && kind!=K_RD1){
      /* open succeeded in spite of fault: must be same as clean */
      if(ov_pcm_total(&vf,-1)!=cleantot||ov_raw_total(&vf,-1)!=rawtot||ov_streams(&vf)!=2){
        printf("OPEN-OK-BUT-DIFFERENT %s: links %ld pcm %ld (clean %ld) raw %ld (clean %ld)\n",tag,ov_streams(&vf),(long)ov_pcm_total(&vf,-1),(long)cleantot,(long)ov_raw_total(&vf,-1),(long)rawtot);bad=1;}
    }
    s.armed=0;
    bad|=compare_at(&vf,1,cleantot/3,tag);
    bad|=compare_at(&vf,0,100,tag);
    ov_clear(&vf); return bad;
  }
  if(r){puts("clean open failed");exit(2);}
  {int base=s.calls; s.armed=1; s.fault_at=base+k;
   switch(scen){
   case 1: { int i; for(i=0;i<12;i++) read_full(&vf,scratch,NREAD,NULL);} r=0; break;
   case 2: r=ov_raw_seek(&vf,rawtot*2/3); break;
   case 3: r=ov_pcm_seek(&vf,cleantot*3/4); break;
   case 4: r=ov_pcm_seek_page(&vf,cleantot/5); break;
   case 5: r=ov_time_seek(&vf,5.5); break;
   case 6: r=ov_pcm_seek(&vf,cleantot/2+3); break;
   }
   if(ncalls_out)*ncalls_out=s.calls-base;
   if(s.closed){printf("CLOSED %s\n",tag);bad=1;}
   s.armed=0;
   if(s.injected && r>=0 && scen!=1 && kind!=K_RD1){
     /* seek claimed success despite fault; check position vs. clean */
     /* compare via tell against fresh */
     src_t s2; OggVorbis_File f2; src_init(&s2,&file); ov_open_callbacks(&s2,&f2,NULL,0,CB);
     switch(scen){case 2:ov_raw_seek(&f2,rawtot*2/3);break;case 3:ov_pcm_seek(&f2,cleantot*3/4);break;case 4:ov_pcm_seek_page(&f2,cleantot/5);break;case 5:ov_time_seek(&f2,5.5);break;case 6:ov_pcm_seek(&f2,cleantot/2+3);break;}
     if(ov_pcm_tell(&f2)!=ov_pcm_tell(&vf)) {printf("SEEK-OK-BUT-DIFFERENT %s: ret %d tell %ld clean %ld\n",tag,r,(long)ov_pcm_tell(&vf),(long)ov_pcm_tell(&f2));bad=1;}
     ov_clear(&f2);
   }
   /* recovery */
   bad|=compare_at(&vf,0,ov_raw_tell(&vf)>=0?ov_raw_tell(&vf):0,tag);
   bad|=compare_at(&vf,1,cleantot/3,tag);
   bad|=compare_at(&vf,2,cleantot*7/8,tag);
   bad|=compare_at(&vf,1,cleantot/2,tag);
   bad|=compare_at(&vf,0,rawtot-10,tag);
  }
  ov_clear(&vf);
  if(s.closed!=1){printf("close count %d %s\n",s.closed,tag);bad=1;}
  return bad;
}

int main(int argc,char**argv){
  int scen,kind,persist,k,bad=0; ogg_int64_t cleantot,rawtot;
  setvbuf(stdout,NULL,_IONBF,0);
  encode_link(&file,0x1111,2,44100,4.0,1u);
  encode_link(&file,0x2222,1,22050,4.0,2u);
  { src_t s; OggVorbis_File vf; src_init(&s,&file); if(ov_open_callbacks(&s,&vf,NULL,0,CB))return 2; cleantot=ov_pcm_total(&vf,-1); rawtot=ov_raw_total(&vf,-1); printf("file %lu pcm %ld open calls %d\n",(unsigned long)file.n,(long)cleantot,s.calls); ov_clear(&vf);}
  for(scen=0;scen<=6;scen++){
    int n=0; run(scen,K_NONE,0,-1000000,&n,cleantot,rawtot);
    printf("scen %d: %d callbacks\n",scen,n);
    for(kind=1;kind<=5;kind++)for(persist=0;persist<2;persist++)for(k=0;k<n;k++)
      bad+=run(scen,kind,persist,k,NULL,cleantot,rawtot);
  }
  printf("total bad %d\n",bad);
  return bad!=0;
}
