#include <stdio.h>
#include <vorbis/codec.h>
#include <vorbis/vorbisenc.h>
int main(void){
  vorbis_info vi; int c=0,rc,g=-1;
  vorbis_info_init(&vi);
  rc=vorbis_encode_setup_managed(&vi,2,44100,-1,128000,-1);
  printf("setup_managed -> %d\n",rc);
  rc=vorbis_encode_ctl(&vi,OV_ECTL_COUPLING_SET,&c);
  printf("COUPLING_SET 0 -> %d\n",rc);
  vorbis_encode_ctl(&vi,OV_ECTL_COUPLING_GET,&g);
  printf("COUPLING_GET -> %d (request failed, flag changed anyway)\n",g);
  rc=vorbis_encode_setup_init(&vi);
  printf("setup_init -> %d\n",rc);
  vorbis_info_clear(&vi);
  return 0;
}
