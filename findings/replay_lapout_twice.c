/* replay_D5.c - vorbis_synthesis_lapout() (lib/block.c) moves the decoder's
 * pcm buffer together ("solidify") every time it is called, not once per
 * decoded block.  A second call on the same state shifts the data again and
 * advances pcm_returned by n1-n0 (or (n1-n0)/2) once more, so the pointer it
 * hands out walks towards / past the end of the 2*n1-float buffer and the
 * count it returns, n1+n-pcm_returned, goes negative.  lib/vorbisfile.c trusts
 * both: _ov_getlap() does memcpy(...,sizeof(float)*samples) with samples<0,
 * _ov_splice() works on pcm[j][0..n0) wherever the pointer ended up.
 *
 *  a  ov_pcm_seek(total), read to EOF, ov_pcm_seek_lap(-1) twice   (reported)
 *     (the first lapped seek fails with OV_EINVAL after lapout was called
 *     and before the decoder is restarted; the second one calls it again)
 *  b  ov_pcm_seek_lap(total-1), read to EOF, ov_pcm_seek_lap(1)    (reported)
 *     (lapout after the seek + lapout at EOF, no block decoded in between)
 *  c  ov_crosslap(vf1,vf2) twice without reading from vf2          (same root)
 *  d  stream with ONE audio packet, ov_pcm_seek_lap(0): a single call is
 *     enough here, lapout "closes a gap" to a previous block that never
 *     existed and returns 2*n0-n1                                  (related)
 *  p  probe without memory errors: at EOF call vorbis_synthesis_lapout()
 *     twice; count and pointer must not change and must stay inside vd.pcm
 *
 * Every scenario runs in a forked child; a child that dies from a signal or
 * exits non-zero (AddressSanitizer exits 1) counts as "defect".
 *
 * build (T = source tree, B = its build dir, both built with the same flags):
 *   gcc -g -fsanitize=address replay_D5.c -I$T/include $B/lib/libvorbisfile.a \
 *       $B/lib/libvorbisenc.a $B/lib/libvorbis.a -logg -lm -o replay_D5
 *   (or without -fsanitize and run under
 *    valgrind -q --trace-children=yes --error-exitcode=9 ./replay_D5)
 * run:  ./replay_D5 [letters]      default "abcdp"
 * before the fix: ASan "negative-size-param" in _ov_getlap (a,b,d), "heap-
 *   buffer-overflow" in _ov_splice (c), "p: lapout #2 returned -716 ...";
 *   every line says DEFECT, exit status 1.
 * after the fix: every line says ok, exit status 0.
 */
#include <stdio.h>
#include <stdlib.h>
#include <string.h>
#include <math.h>
#include <errno.h>
#include <unistd.h>
#include <sys/wait.h>
#include <vorbis/codec.h>
#include <vorbis/vorbisenc.h>
#include <vorbis/vorbisfile.h>

typedef struct { unsigned char *d; size_t len,cap,pos; } mem_t;

static void put(mem_t *m,ogg_page *og){
  size_t n=og->header_len+og->body_len;
  if(m->len+n>m->cap){ m->cap=(m->len+n)*2; m->d=realloc(m->d,m->cap); }
  memcpy(m->d+m->len,og->header,og->header_len);
  memcpy(m->d+m->len+og->header_len,og->body,og->body_len); m->len+=n;
}

/* 3 s mono.  clicks=0: tone+noise; clicks=1: near silence with short noise
   bursts, which makes the encoder use short blocks in mid-stream as well.
   maxpkt>0: stop after that many audio packets (the last one gets e_o_s). */
static void encode(mem_t *m,int clicks,int maxpkt){
  vorbis_info vi; vorbis_comment vc; vorbis_dsp_state vd; vorbis_block vb;
  ogg_stream_state os; ogg_page og; ogg_packet op,h[3];
  long done=0,total=44100L*3; int i,eos=0,npkt=0;
  vorbis_info_init(&vi); vorbis_encode_init_vbr(&vi,1,44100,0.3f);
  vorbis_comment_init(&vc); vorbis_analysis_init(&vd,&vi); vorbis_block_init(&vd,&vb);
  ogg_stream_init(&os,0x1234);
  vorbis_analysis_headerout(&vd,&vc,&h[0],&h[1],&h[2]);
  for(i=0;i<3;i++)ogg_stream_packetin(&os,&h[i]);
  while(ogg_stream_flush(&os,&og))put(m,&og);
  srand(1);
  while(!eos){
    if(done<total){
      float **b=vorbis_analysis_buffer(&vd,1024);
      for(i=0;i<1024;i++){
        long t=done+i; float r=(rand()%2000)/1000.f-1.f;
        b[0][i]=clicks?(t%4000<40?0.9f*r:0.01f*sinf(t*0.05f)):0.5f*sinf(t*0.05f)+0.2f*r;
      }
      vorbis_analysis_wrote(&vd,1024); done+=1024;
    }else vorbis_analysis_wrote(&vd,0);
    while(vorbis_analysis_blockout(&vd,&vb)==1){
      vorbis_analysis(&vb,NULL); vorbis_bitrate_addblock(&vb);
      while(vorbis_bitrate_flushpacket(&vd,&op)){
        if(eos)continue;
        if(++npkt==maxpkt)op.e_o_s=1;
        ogg_stream_packetin(&os,&op);
        while(!eos && (op.e_o_s?ogg_stream_flush(&os,&og):ogg_stream_pageout(&os,&og))){
          put(m,&og); if(ogg_page_eos(&og))eos=1;
        }
      }
    }
  }
  ogg_stream_clear(&os); vorbis_block_clear(&vb); vorbis_dsp_clear(&vd);
  vorbis_comment_clear(&vc); vorbis_info_clear(&vi);
}

static size_t rd(void *p,size_t sz,size_t n,void *d){
  mem_t *m=d; size_t want=sz*n;
  if(want>m->len-m->pos)want=m->len-m->pos;
  memcpy(p,m->d+m->pos,want); m->pos+=want; errno=0; return want;
}
static int sk(void *d,ogg_int64_t off,int wh){
  mem_t *m=d;
  ogg_int64_t np=off+(wh==SEEK_CUR?(ogg_int64_t)m->pos:wh==SEEK_END?(ogg_int64_t)m->len:0);
  if(np<0||np>(ogg_int64_t)m->len)return -1;
  m->pos=np; return 0;
}
static long tl(void *d){ return ((mem_t*)d)->pos; }
static const ov_callbacks cb={rd,sk,NULL,tl};

static void drain(OggVorbis_File *vf){
  char b[4096]; int sec; while(ov_read(vf,b,sizeof b,0,2,1,&sec)>0);
}

/* what lapout would return next must not be negative */
static int insane(OggVorbis_File *vf){
  vorbis_info *vi=ov_info(vf,-1);
  int lim=vorbis_info_blocksize(vi,1)/2+vorbis_info_blocksize(vi,vf->vd.W)/2;
  if(vf->vd.pcm_returned<=lim)return 0;
  printf("   decoder state: pcm_returned=%d > n1+n=%d\n",vf->vd.pcm_returned,lim);
  return 1;
}

static int scenario(int c){
  static mem_t plain,clicks,onepkt;     /* static: zeroed, pos=0 */
  OggVorbis_File vf,vf2; ogg_int64_t T; float **pcm; int r,i,first=0;
  if(c=='c'){
    mem_t second;
    encode(&clicks,1,0); second=clicks;
    if(ov_open_callbacks(&clicks,&vf,NULL,0,cb)||ov_open_callbacks(&second,&vf2,NULL,0,cb))return 2;
    T=ov_pcm_total(&vf,-1);
    ov_pcm_seek(&vf,T/2); ov_pcm_seek(&vf2,T/3);
    for(i=0;i<5;i++){
      r=ov_crosslap(&vf,&vf2);
      printf("   ov_crosslap #%d -> %d, vf2: lW=%ld W=%ld pcm_returned=%d of %d\n",i+1,r,
             vf2.vd.lW,vf2.vd.W,vf2.vd.pcm_returned,vf2.vd.pcm_storage);
      if(!i)first=vf2.vd.pcm_returned;
    }
    if(vf2.vd.lW&&vf2.vd.W)return 2;
    r=(vf2.vd.pcm_returned!=first);
    ov_clear(&vf2); ov_clear(&vf); return r;
  }
  if(c=='d'){
    encode(&onepkt,0,1);
    if(ov_open_callbacks(&onepkt,&vf,NULL,0,cb))return 2;
    printf("   ov_pcm_seek_lap(0) -> %d\n",ov_pcm_seek_lap(&vf,0));
    ov_clear(&vf); return 0;
  }
  encode(&plain,0,0);
  if(ov_open_callbacks(&plain,&vf,NULL,0,cb))return 2;
  T=ov_pcm_total(&vf,-1);
  if(c=='a'){
    ov_pcm_seek(&vf,T); drain(&vf);
    for(i=0;i<2;i++)printf("   ov_pcm_seek_lap(-1) #%d -> %d\n",i+1,ov_pcm_seek_lap(&vf,-1));
    if(insane(&vf))return 1;
  }else if(c=='b'){
    printf("   ov_pcm_seek_lap(total-1) -> %d\n",ov_pcm_seek_lap(&vf,T-1));
    drain(&vf);
    printf("   ov_pcm_seek_lap(1) -> %d\n",ov_pcm_seek_lap(&vf,1));
  }else{ /* 'p' */
    vorbis_dsp_state *v=&vf.vd; int n[2]; long off[2];
    ov_pcm_seek(&vf,T); drain(&vf);
    printf("   at EOF: lW=%ld W=%ld (long/long would hide the defect)\n",v->lW,v->W);
    for(i=0;i<2;i++){
      n[i]=vorbis_synthesis_lapout(v,&pcm); off[i]=(long)(pcm[0]-v->pcm[0]);
      printf("   lapout #%d returned %d samples at pcm[0]+%ld (buffer holds %d)\n",
             i+1,n[i],off[i],v->pcm_storage);
    }
    if(v->lW&&v->W)return 2;
    if(n[1]!=n[0]||off[1]!=off[0]||n[1]<0||off[1]+n[1]>v->pcm_storage)return 1;
  }
  ov_clear(&vf); return 0;
}

int main(int argc,char **argv){
  const char *which=argc>1?argv[1]:"abcdp"; int defect=0;
  for(;*which;which++){
    int st; pid_t pid;
    printf("%c:\n",*which); fflush(stdout);
    if(!(pid=fork())){ int r=scenario(*which); fflush(stdout); _exit(r); }
    waitpid(pid,&st,0);
    if(WIFEXITED(st)&&WEXITSTATUS(st)==0)printf("%c: ok\n",*which);
    else if(WIFEXITED(st)&&WEXITSTATUS(st)==2){ printf("%c: INCONCLUSIVE (setup)\n",*which); defect|=2; }
    else{
      if(WIFSIGNALED(st))printf("%c: DEFECT (child killed by signal %d)\n",*which,WTERMSIG(st));
      else printf("%c: DEFECT (child exit status %d)\n",*which,WEXITSTATUS(st));
      defect|=1;
    }
  }
  return defect&1?1:defect;
}
