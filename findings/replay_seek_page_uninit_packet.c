/* base_uninit_op.c - behaviour of the UNCHANGED tree (not the seeded defect).
 *
 * ov_pcm_seek_page(), "bisection found our page" branch: when the page 'best'
 * yields no packet (it only carries the tail of a packet continued from an
 * earlier page) AND best==dataoffsets[link], the rewind loop
 *     while(result>vf->dataoffsets[link]) ...
 * is skipped, and the code falls through to
 *     if(op.granulepos!=-1){ vf->pcm_offset=op.granulepos-...
 * with 'op' never written (ogg_stream_packetpeek returned 0).  The outcome
 * of the call depends on stack garbage: bogus pcm_offset, OV_EFAULT, or (if
 * the garbage happens to be -1) an endless loop.
 *
 * Build as demo.c; run under valgrind:
 *   valgrind -q --error-exitcode=9 ./base_uninit_op
 * expected on the unchanged tree: "Conditional jump or move depends on
 * uninitialised value(s)" at ov_pcm_seek_page (vorbisfile.c:1695).
 */
#include <stdio.h>
#include <stdlib.h>
#include <string.h>
#include <math.h>
#include <unistd.h>
#include <ogg/ogg.h>
#include <vorbis/codec.h>
#include <vorbis/vorbisenc.h>
#include <vorbis/vorbisfile.h>

typedef struct { unsigned char *d; long n, cap; } buf_t;
static void buf_add(buf_t *b, const void *p, long n){
  if(b->n+n>b->cap){ b->cap=(b->n+n)*2+4096; b->d=realloc(b->d,b->cap); }
  memcpy(b->d+b->n,p,n); b->n+=n;
}
static void put_page(buf_t *b, ogg_page *og){
  buf_add(b,og->header,og->header_len); buf_add(b,og->body,og->body_len);
}

static void encode_link(buf_t *out,int serial,int channels,long rate,long samples){
  vorbis_info vi; vorbis_comment vc; vorbis_dsp_state vd; vorbis_block vb;
  ogg_stream_state os; ogg_page og; ogg_packet op,h0,h1,h2;
  long done=0; int eos=0, pk=0;
  vorbis_info_init(&vi);
  if(vorbis_encode_init_vbr(&vi,channels,rate,0.1f))exit(2);
  vorbis_comment_init(&vc);
  vorbis_analysis_init(&vd,&vi); vorbis_block_init(&vd,&vb);
  ogg_stream_init(&os,serial);
  vorbis_analysis_headerout(&vd,&vc,&h0,&h1,&h2);
  ogg_stream_packetin(&os,&h0); ogg_stream_packetin(&os,&h1); ogg_stream_packetin(&os,&h2);
  while(ogg_stream_flush(&os,&og)) put_page(out,&og);
  while(!eos){
    if(done<samples){
      long n=1024,i; int c; float **b;
      if(n>samples-done)n=samples-done;
      b=vorbis_analysis_buffer(&vd,n);
      for(i=0;i<n;i++)for(c=0;c<channels;c++)
        b[c][i]=.4f*sinf(6.2831853f*330.f*(done+i)/rate);
      vorbis_analysis_wrote(&vd,n); done+=n;
    }else vorbis_analysis_wrote(&vd,0);
    while(vorbis_analysis_blockout(&vd,&vb)==1){
      vorbis_analysis(&vb,NULL); vorbis_bitrate_addblock(&vb);
      while(vorbis_bitrate_flushpacket(&vd,&op)){
        ogg_stream_packetin(&os,&op); pk++;
        if(pk%6==0||op.e_o_s)
          while(ogg_stream_flush(&os,&og)){ put_page(out,&og); if(ogg_page_eos(&og))eos=1; }
      }
    }
  }
  ogg_stream_clear(&os); vorbis_block_clear(&vb); vorbis_dsp_clear(&vd);
  vorbis_comment_clear(&vc); vorbis_info_clear(&vi);
}

typedef struct { const unsigned char *d; long n,pos; } src_t;
static size_t m_read(void *p,size_t sz,size_t nm,void *h){
  src_t *s=h; long want=(long)(sz*nm);
  if(want>s->n-s->pos)want=s->n-s->pos;
  memcpy(p,s->d+s->pos,want); s->pos+=want; return sz?want/sz:0;
}
static int m_seek(void *h,ogg_int64_t off,int wh){
  src_t *s=h; ogg_int64_t np;
  if(wh==SEEK_SET)np=off; else if(wh==SEEK_CUR)np=s->pos+off; else np=s->n+off;
  if(np<0||np>s->n)return -1;
  s->pos=(long)np; return 0;
}
static long m_tell(void *h){ return ((src_t*)h)->pos; }
static const ov_callbacks cb={m_read,m_seek,NULL,m_tell};

int main(void){
  buf_t in={0,0,0},out={0,0,0};
  ogg_sync_state oy; ogg_page og;
  int forged=0; long shift=0;
  src_t s; OggVorbis_File vf; int ret;

  alarm(50);
  setvbuf(stdout,NULL,_IONBF,0);
  encode_link(&in,0x4242,1,16000,32000);

  /* re-page: after the header pages insert a page that is 'continued',
     finishes one (orphan) packet and carries granulepos 1 */
  ogg_sync_init(&oy);
  memcpy(ogg_sync_buffer(&oy,in.n),in.d,in.n);
  ogg_sync_wrote(&oy,in.n);
  while(ogg_sync_pageout(&oy,&og)==1){
    if(!forged && ogg_page_granulepos(&og)!=0){
      unsigned char h[28],b[10];
      ogg_page f;
      long pn=ogg_page_pageno(&og);
      memset(h,0,sizeof(h)); memset(b,0x55,sizeof(b));
      memcpy(h,"OggS",4);
      h[5]=0x01;                 /* continued */
      h[6]=1;                    /* granulepos 1 */
      h[14]=0x42; h[15]=0x42;    /* serial 0x4242 */
      h[18]=pn&0xff; h[19]=(pn>>8)&0xff;
      h[26]=1; h[27]=10;         /* one segment, packet ends here */
      f.header=h; f.header_len=28; f.body=b; f.body_len=10;
      ogg_page_checksum_set(&f);
      put_page(&out,&f);
      forged=1; shift=1;
    }
    if(shift){
      long pn=ogg_page_pageno(&og)+shift;
      og.header[18]=pn&0xff; og.header[19]=(pn>>8)&0xff;
      og.header[20]=(pn>>16)&0xff; og.header[21]=(pn>>24)&0xff;
      ogg_page_checksum_set(&og);
    }
    put_page(&out,&og);
  }
  ogg_sync_clear(&oy);

  s.d=out.d; s.n=out.n; s.pos=0;
  if((ret=ov_open_callbacks(&s,&vf,NULL,0,cb))){ printf("open: %d\n",ret); return 2; }
  printf("opened: links=%ld pcm_total=%ld\n",ov_streams(&vf),(long)ov_pcm_total(&vf,-1));
  ret=ov_pcm_seek_page(&vf,100);
  printf("ov_pcm_seek_page(100) -> %d, pcm_tell=%ld\n",ret,(long)ov_pcm_tell(&vf));
  ov_clear(&vf);
  free(in.d); free(out.d);
  return 0;
}
