/* finding F45: OV_ECTL_RATEMANAGE2_SET accepts a NaN reservoir bias (and NaN damping): `bias < 0.` and `bias > 1.` are both
 * false for a NaN.  vorbis_bitrate_init then starts the reservoir at (long)(bits*NaN) (LONG_MIN on x86-64) and
 * vorbis_bitrate_addblock pads the first packet with about 2^60 zero bytes: the encoder spins and eats memory.
 * exit 0: the request is refused (or the encode finishes), exit 1: still padding after 20 s / out of memory.
 * (case D3 of the batch j mutation agent for C14; C15 R15.6 had listed the NaN bias as an assumption "never a size") */
#include <stdio.h>
#include <stdlib.h>
#include <math.h>
#include <signal.h>
#include <unistd.h>
#include <sys/resource.h>
#include <sys/wait.h>
#include <vorbis/vorbisenc.h>
static int run(void){
  vorbis_info vi; vorbis_dsp_state vd; vorbis_block vb; vorbis_comment vc; ogg_packet op,h1,h2,h3;
  struct ovectl_ratemanage2_arg ai; int i,j,r;
  vorbis_info_init(&vi);
  if(vorbis_encode_setup_managed(&vi,1,32000,-1,32000,-1))return 90;
  if(vorbis_encode_ctl(&vi,OV_ECTL_RATEMANAGE2_GET,&ai))return 91;
  ai.management_active=1; ai.bitrate_limit_min_kbps=0; ai.bitrate_limit_max_kbps=32; ai.bitrate_average_kbps=0;
  ai.bitrate_limit_reservoir_bits=8000; ai.bitrate_average_damping=3.;
  ai.bitrate_limit_reservoir_bias=nan("");
  r=vorbis_encode_ctl(&vi,OV_ECTL_RATEMANAGE2_SET,&ai);
  printf("RATEMANAGE2_SET with NaN bias returned %d\n",r); fflush(stdout);
  if(r){vorbis_info_clear(&vi);return 0;}          /* refused: fine */
  if(vorbis_encode_setup_init(&vi))return 92;
  vorbis_analysis_init(&vd,&vi); vorbis_block_init(&vd,&vb); vorbis_comment_init(&vc);
  vorbis_analysis_headerout(&vd,&vc,&h1,&h2,&h3);
  for(i=0;i<20;i++){
    float **b=vorbis_analysis_buffer(&vd,1024);
    for(j=0;j<1024;j++)b[0][j]=(rand()%2000-1000)/1000.f;
    vorbis_analysis_wrote(&vd,1024);
    while(vorbis_analysis_blockout(&vd,&vb)==1){
      vorbis_analysis(&vb,NULL); vorbis_bitrate_addblock(&vb);
      while(vorbis_bitrate_flushpacket(&vd,&op));
    }
  }
  vorbis_block_clear(&vb); vorbis_dsp_clear(&vd); vorbis_comment_clear(&vc); vorbis_info_clear(&vi);
  return 0;
}
int main(void){
  pid_t p=fork(); int st;
  if(p==0){ struct rlimit rl={1u<<30,1u<<30}; setrlimit(RLIMIT_AS,&rl); alarm(20); _exit(run()); }
  waitpid(p,&st,0);
  if(WIFSIGNALED(st)){printf("encoder killed by signal %d (14 = still padding after 20 s)\n",WTERMSIG(st));return 1;}
  printf("child exit %d\n",WEXITSTATUS(st));
  return WEXITSTATUS(st)?1:0;
}
