/* diagnosis-only replay for F12: ov_halfrate() called mid-stream re-initialises the decoder (through its
   re-seek) BEFORE it stores the new flag, so the rebuilt decoder has MDCT/window tables of the old rate while
   decode uses the new flag.  Compares a handle toggled after reading with a handle toggled right after open.
   build: cc -I/repo/include replay_halfrate_toggle.c <build>/lib/libvorbisfile.a <build>/lib/libvorbisenc.a <build>/lib/libvorbis.a -logg -lm */
#include <stdio.h>
#include <stdlib.h>
#include <string.h>
#include <math.h>
#include <vorbis/vorbisenc.h>
#include <vorbis/vorbisfile.h>
typedef struct{unsigned char*d;long n,pos;}mem;
static size_t rd(void*p,size_t s,size_t n,void*v){mem*m=v;long w=s*n;if(w>m->n-m->pos)w=m->n-m->pos;memcpy(p,m->d+m->pos,w);m->pos+=w;return w/s;}
static int sk(void*v,ogg_int64_t o,int wh){mem*m=v;long p=wh==SEEK_SET?o:wh==SEEK_CUR?m->pos+o:m->n+o;if(p<0||p>m->n)return -1;m->pos=p;return 0;}
static long tl(void*v){return((mem*)v)->pos;}
static ov_callbacks cb={rd,sk,NULL,tl};
static void put(mem*m,ogg_page*og){m->d=realloc(m->d,m->n+og->header_len+og->body_len);memcpy(m->d+m->n,og->header,og->header_len);m->n+=og->header_len;memcpy(m->d+m->n,og->body,og->body_len);m->n+=og->body_len;}
static void encode(mem*m,long total){vorbis_info vi;vorbis_comment vc;vorbis_dsp_state vd;vorbis_block vb;ogg_stream_state os;ogg_page og;ogg_packet op,h1,h2,h3;long done=0;int eos=0;
  vorbis_info_init(&vi);vorbis_encode_init_vbr(&vi,1,44100,.4f);vorbis_comment_init(&vc);vorbis_analysis_init(&vd,&vi);vorbis_block_init(&vd,&vb);ogg_stream_init(&os,7);
  vorbis_analysis_headerout(&vd,&vc,&h1,&h2,&h3);ogg_stream_packetin(&os,&h1);ogg_stream_packetin(&os,&h2);ogg_stream_packetin(&os,&h3);while(ogg_stream_flush(&os,&og))put(m,&og);
  while(!eos){long n=total-done;if(n>1024)n=1024;if(n>0){float**b=vorbis_analysis_buffer(&vd,n);for(long i=0;i<n;i++)b[0][i]=.5f*sin((done+i)*.05)+.2f*sin((done+i)*.31);}vorbis_analysis_wrote(&vd,n>0?n:0);done+=n>0?n:0;
    while(vorbis_analysis_blockout(&vd,&vb)==1){vorbis_analysis(&vb,NULL);vorbis_bitrate_addblock(&vb);while(vorbis_bitrate_flushpacket(&vd,&op)){ogg_stream_packetin(&os,&op);while(!eos&&ogg_stream_pageout(&os,&og)){put(m,&og);if(ogg_page_eos(&og))eos=1;}}}}
  ogg_stream_clear(&os);vorbis_block_clear(&vb);vorbis_dsp_clear(&vd);vorbis_comment_clear(&vc);vorbis_info_clear(&vi);}
static long readall(OggVorbis_File*vf,float*out,long max){long n=0;for(;;){float**p;int bs;long r=ov_read_float(vf,&p,4096,&bs);if(r<=0)break;for(long i=0;i<r&&n<max;i++)out[n++]=p[0][i];}return n;}
int main(void){mem m={0,0,0},a,b;OggVorbis_File A,B;long N=100000;float*ra=malloc(4*N),*rb=malloc(4*N);
  encode(&m,N);a=m;b=m;a.pos=b.pos=0;
  if(ov_open_callbacks(&a,&A,NULL,0,cb)||ov_open_callbacks(&b,&B,NULL,0,cb)){puts("open failed");return 2;}
  /* reference: half-rate from the start, then seek to P and read to the end */
  long P=20000;ov_halfrate(&A,1);ov_pcm_seek(&A,P);long na=readall(&A,ra,N);
  /* under test: read at full rate up to P, toggle, read to the end */
  ov_pcm_seek(&B,0);{long got=0;while(got<P){float**p;int bs;long want=P-got>4096?4096:P-got;long r=ov_read_float(&B,&p,want,&bs);if(r<=0)break;got+=r;}}
  printf("position before toggle: %ld\n",(long)ov_pcm_tell(&B));
  int rc=ov_halfrate(&B,1);printf("ov_halfrate=%d position after toggle: %ld\n",rc,(long)ov_pcm_tell(&B));
  long nb=readall(&B,rb,N);long diff=0;for(long i=0;i<na&&i<nb;i++)if(fabs(ra[i]-rb[i])>1e-4)diff++;
  printf("reference delivered %ld samples, toggled handle %ld, differing %ld\n",na,nb,diff);
  return (na!=nb||diff)?1:0;}
