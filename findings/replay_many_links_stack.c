/* many-links stack exhaustion probe */
#include <stdio.h>
#include <stdlib.h>
#include <string.h>
#include <signal.h>
#include <unistd.h>
#include <ogg/ogg.h>
#include <vorbis/codec.h>
#include <vorbis/vorbisenc.h>
#include <vorbis/vorbisfile.h>
typedef struct { unsigned char *d; size_t n, cap; } buf_t;
static void put(buf_t *b, const void *p, size_t n){
  if(b->n+n>b->cap){ b->cap=(b->n+n)*2+4096; b->d=realloc(b->d,b->cap); if(!b->d)exit(99);}
  memcpy(b->d+b->n,p,n); b->n+=n; }
typedef struct { const unsigned char *d; size_t n, pos; } src_t;
static size_t rd(void *p,size_t sz,size_t nm,void *ds){ src_t *s=ds; size_t w=sz*nm,l=s->n-s->pos; if(w>l)w=l; memcpy(p,s->d+s->pos,w); s->pos+=w; return w;}
static int sk(void *ds,ogg_int64_t off,int wh){ src_t *s=ds; ogg_int64_t np; if(wh==SEEK_SET)np=off; else if(wh==SEEK_CUR)np=s->pos+off; else np=s->n+off; if(np<0||np>(ogg_int64_t)s->n)return -1; s->pos=np; return 0;}
static long tl(void *ds){ return ((src_t*)ds)->pos; }
int main(int argc,char **argv){
  int N=argc>1?atoi(argv[1]):30000, k;
  buf_t hdr={0,0,0}, file={0,0,0};
  vorbis_info vi; vorbis_comment vc; vorbis_dsp_state vd; ogg_stream_state os; ogg_page og; ogg_packet h1,h2,h3;
  vorbis_info_init(&vi); if(vorbis_encode_init_vbr(&vi,1,8000,0.0f))return 99;
  vorbis_comment_init(&vc); vorbis_analysis_init(&vd,&vi);
  ogg_stream_init(&os,0);
  vorbis_analysis_headerout(&vd,&vc,&h1,&h2,&h3);
  ogg_stream_packetin(&os,&h1); ogg_stream_packetin(&os,&h2); h3.e_o_s=1; ogg_stream_packetin(&os,&h3);
  while(ogg_stream_flush(&os,&og)){ put(&hdr,og.header,og.header_len); put(&hdr,og.body,og.body_len);}
  fprintf(stderr,"link bytes %zu\n",hdr.n);
  for(k=0;k<N;k++){
    /* copy the link, re-serial every page, re-stamp CRC */
    size_t start=file.n, off=0;
    put(&file,hdr.d,hdr.n);
    while(off<hdr.n){
      unsigned char *p=file.d+start+off; int nseg=p[26],i,bl=0; ogg_page pg;
      for(i=0;i<nseg;i++)bl+=p[27+i];
      p[14]=k&0xff;p[15]=(k>>8)&0xff;p[16]=(k>>16)&0xff;p[17]=0x10;
      pg.header=p;pg.header_len=27+nseg;pg.body=p+27+nseg;pg.body_len=bl;
      ogg_page_checksum_set(&pg);
      off+=27+nseg+bl;
    }
  }
  { src_t s={file.d,file.n,0}; ov_callbacks cb={rd,sk,NULL,tl}; OggVorbis_File vf; int r;
    alarm(55);
    r=ov_open_callbacks(&s,&vf,NULL,0,cb);
    fprintf(stderr,"open=%d links=%ld\n",r,r?0:ov_streams(&vf));
    if(!r)ov_clear(&vf);
  }
  return 0;
}
