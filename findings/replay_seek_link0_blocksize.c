/* diagnosis-only replay for F13: ov_pcm_seek() sizes its "keep the packet needed for lapping" margin with
   vorbis_info_blocksize(vf->vi,1), i.e. link 0's long block, also when the target is in a later link whose
   long block is larger.  Chain: link 0 = 8 kHz (512/512... small blocks), link 1 = 44.1 kHz (256/2048).
   Sample-accurate seeks into link 1 are compared with a linear decode. */
#include <stdio.h>
#include <stdlib.h>
#include <string.h>
#include <math.h>
#include <vorbis/vorbisenc.h>
#include <vorbis/vorbisfile.h>
typedef struct{unsigned char*d;long n,pos;}mem;
static size_t rd(void*p,size_t s,size_t n,void*v){mem*m=v;long w=s*n;if(w>m->n-m->pos)w=m->n-m->pos;memcpy(p,m->d+m->pos,w);m->pos+=w;return w/s;}
static int sk(void*v,ogg_int64_t o,int wh){mem*m=v;long p=wh==SEEK_SET?o:wh==SEEK_CUR?m->pos+o:m->n+o;if(p<0||p>m->n)return -1;m->pos=p;return 0;}
static long tl(void*v){return((mem*)v)->pos;}
static ov_callbacks cb={rd,sk,NULL,tl};
static void put(mem*m,ogg_page*og){m->d=realloc(m->d,m->n+og->header_len+og->body_len);memcpy(m->d+m->n,og->header,og->header_len);m->n+=og->header_len;memcpy(m->d+m->n,og->body,og->body_len);m->n+=og->body_len;}
static void encode(mem*m,long total,long rate,float q,int serial){vorbis_info vi;vorbis_comment vc;vorbis_dsp_state vd;vorbis_block vb;ogg_stream_state os;ogg_page og;ogg_packet op,h1,h2,h3;long done=0;int eos=0;
  vorbis_info_init(&vi);if(vorbis_encode_init_vbr(&vi,1,rate,q)){puts("encode init failed");exit(2);}vorbis_comment_init(&vc);vorbis_analysis_init(&vd,&vi);vorbis_block_init(&vd,&vb);ogg_stream_init(&os,serial);
  vorbis_analysis_headerout(&vd,&vc,&h1,&h2,&h3);ogg_stream_packetin(&os,&h1);ogg_stream_packetin(&os,&h2);ogg_stream_packetin(&os,&h3);while(ogg_stream_flush(&os,&og))put(m,&og);
  while(!eos){long n=total-done;if(n>1024)n=1024;if(n>0){float**b=vorbis_analysis_buffer(&vd,n);for(long i=0;i<n;i++){long t=done+i;b[0][i]=.4f*sin(t*.05)+.2f*sin(t*.31)+((t%3000)<40?.5f*sin(t*1.9):0);}}vorbis_analysis_wrote(&vd,n>0?n:0);done+=n>0?n:0;
    while(vorbis_analysis_blockout(&vd,&vb)==1){vorbis_analysis(&vb,NULL);vorbis_bitrate_addblock(&vb);while(vorbis_bitrate_flushpacket(&vd,&op)){ogg_stream_packetin(&os,&op);while(!eos&&ogg_stream_pageout(&os,&og)){put(m,&og);if(ogg_page_eos(&og))eos=1;}}}}
  ogg_stream_clear(&os);vorbis_block_clear(&vb);vorbis_dsp_clear(&vd);vorbis_comment_clear(&vc);vorbis_info_clear(&vi);}
int main(int argc,char**argv){mem m={0,0,0},a,b;OggVorbis_File A,B;int swap=argc>1;
  if(!swap){encode(&m,200000,8000,.4f,11);encode(&m,120000,44100,.4f,22);}else{encode(&m,120000,44100,.4f,22);encode(&m,200000,8000,.4f,11);}
  a=m;b=m;a.pos=b.pos=0;
  if(ov_open_callbacks(&a,&A,NULL,0,cb)||ov_open_callbacks(&b,&B,NULL,0,cb)){puts("open failed");return 2;}
  long T=ov_pcm_total(&A,-1),L0=ov_pcm_total(&A,0);float*ref=malloc(4*T);long n=0;
  for(;;){float**p;int bs;long r=ov_read_float(&A,&p,4096,&bs);if(r<=0)break;for(long i=0;i<r&&n<T;i++)ref[n++]=p[0][i];}
  printf("links=%ld total=%ld link0=%ld decoded=%ld blocks link0 %ld/%ld link1 %ld/%ld\n",ov_streams(&A),T,L0,n,
    vorbis_info_blocksize(ov_info(&A,0),0),vorbis_info_blocksize(ov_info(&A,0),1),vorbis_info_blocksize(ov_info(&A,1),0),vorbis_info_blocksize(ov_info(&A,1),1));
  long bad=0,tried=0,firstbad=-1;
  long lo=swap?0:L0, hi=swap?L0:T;
  for(long p=lo+3000;p<hi-3000;p+=37){
    ov_pcm_seek(&B,swap?L0+100:100);            /* come from the other link */
    if(ov_pcm_seek(&B,p)){printf("seek %ld failed\n",p);return 2;}
    tried++;long got=0;float buf[64];while(got<64){float**q;int bs;long r=ov_read_float(&B,&q,64-got,&bs);if(r<=0)break;for(long i=0;i<r;i++)buf[got++]=q[0][i];}
    int d=0;for(long i=0;i<got;i++)if(fabs(buf[i]-ref[p+i])>1e-5)d=1;
    if(d||ov_pcm_tell(&B)!=p+got){bad++;if(firstbad<0)firstbad=p;}
  }
  printf("%ld of %ld sample-accurate seeks into the %s link delivered audio different from the linear decode (first at %ld)\n",bad,tried,swap?"first":"second",firstbad);
  return bad?1:0;}
