/* throwaway replay: single-link stream whose granule positions start at a positive offset */
#include <stdio.h>
#include <stdlib.h>
#include <string.h>
#include <math.h>
#include <vorbis/vorbisenc.h>
#include <vorbis/vorbisfile.h>
static void wr(FILE*f,ogg_page*og){fwrite(og->header,1,og->header_len,f);fwrite(og->body,1,og->body_len,f);}
int main(int argc,char**argv){ long OFF=atol(argv[2]); FILE*f=fopen(argv[1],"wb");
  vorbis_info vi;vorbis_comment vc;vorbis_dsp_state vd;vorbis_block vb;ogg_stream_state os;ogg_page og;ogg_packet op,h,hc,hs;int i,eos=0,secs=3;
  vorbis_info_init(&vi); if(vorbis_encode_init_vbr(&vi,1,8000,.4f))exit(9);
  vorbis_comment_init(&vc);vorbis_analysis_init(&vd,&vi);vorbis_block_init(&vd,&vb);ogg_stream_init(&os,5);
  vorbis_analysis_headerout(&vd,&vc,&h,&hc,&hs);ogg_stream_packetin(&os,&h);ogg_stream_packetin(&os,&hc);ogg_stream_packetin(&os,&hs);
  while(ogg_stream_flush(&os,&og))wr(f,&og);
  {float**b=vorbis_analysis_buffer(&vd,8000*secs);for(i=0;i<8000*secs;i++)b[0][i]=.5f*sinf(i*.05f);vorbis_analysis_wrote(&vd,8000*secs);vorbis_analysis_wrote(&vd,0);}
  while(vorbis_analysis_blockout(&vd,&vb)==1){vorbis_analysis(&vb,NULL);vorbis_bitrate_addblock(&vb);
    while(vorbis_bitrate_flushpacket(&vd,&op)){op.granulepos+=OFF;ogg_stream_packetin(&os,&op);while(!eos&&ogg_stream_pageout_fill(&os,&og,600)){wr(f,&og);if(ogg_page_eos(&og))eos=1;}}}
  while(ogg_stream_flush(&os,&og))wr(f,&og);
  ogg_stream_clear(&os);vorbis_block_clear(&vb);vorbis_dsp_clear(&vd);vorbis_comment_clear(&vc);vorbis_info_clear(&vi);fclose(f);
  OggVorbis_File vf; int r=ov_fopen(argv[1],&vf); printf("open=%d total=%ld\n",r,(long)ov_pcm_total(&vf,-1)); if(r)return 1;
  { float**pcm;int bs;long got=0,n,bad=0; ogg_int64_t t;
    while(1){ t=ov_pcm_tell(&vf); if(t!=got&&bad<3){printf("tell=%ld but %ld samples delivered so far\n",(long)t,got);bad++;} n=ov_read_float(&vf,&pcm,4096,&bs); if(n<=0)break; got+=n;}
    printf("delivered=%ld final tell=%ld mismatches_seen=%ld\n",got,(long)ov_pcm_tell(&vf),bad);
    r=ov_pcm_seek(&vf,1000); printf("seek(1000)=%d tell=%ld\n",r,(long)ov_pcm_tell(&vf)); n=ov_read_float(&vf,&pcm,4096,&bs); n=ov_read_float(&vf,&pcm,4096,&bs); n=ov_read_float(&vf,&pcm,4096,&bs);printf("after 3 reads tell=%ld\n",(long)ov_pcm_tell(&vf)); }
  ov_clear(&vf); return 0; }
