/* throwaway replay for F25 (C15): OV_ECTL_COUPLING_SET that is refused (no uncoupled template exists for a managed
   set-up: OV_EIMPL) has already stored the new coupling flag: the GET request reports the value that was refused and
   vorbis_encode_setup_init then runs with a flag that does not match the template in use.
   exit 0: a refused request leaves the flag as it was; exit 1: the flag changed although the request failed */
#include <stdio.h>
#include <vorbis/codec.h>
#include <vorbis/vorbisenc.h>
int main(void){
  vorbis_info vi; int c=0,rc,before=-1,after=-1;
  vorbis_info_init(&vi);
  rc=vorbis_encode_setup_managed(&vi,2,44100,-1,128000,-1);
  if(rc){printf("setup_managed -> %d\n",rc);return 2;}
  vorbis_encode_ctl(&vi,OV_ECTL_COUPLING_GET,&before);
  rc=vorbis_encode_ctl(&vi,OV_ECTL_COUPLING_SET,&c);
  vorbis_encode_ctl(&vi,OV_ECTL_COUPLING_GET,&after);
  printf("coupling before %d; COUPLING_SET 0 -> %d; coupling after %d\n",before,rc,after);
  vorbis_info_clear(&vi);
  if(rc<0 && after!=before){printf("DEFECT: refused request changed the set-up\n");return 1;}
  printf("OK\n");return 0;}
