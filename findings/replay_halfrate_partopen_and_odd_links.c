/* shared helpers: build Ogg Vorbis streams in memory, memory callbacks,
   reference decodes */
#include <stdio.h>
#include <stdlib.h>
#include <string.h>
#include <math.h>
#include <ogg/ogg.h>
#include <vorbis/codec.h>
#include <vorbis/vorbisenc.h>
#include <vorbis/vorbisfile.h>

typedef struct { unsigned char *d; long n, cap; } buf_t;
static void buf_add(buf_t *b,const void *p,long n){
  if(b->n+n>b->cap){ b->cap=(b->n+n)*2+4096; b->d=realloc(b->d,b->cap); }
  memcpy(b->d+b->n,p,n); b->n+=n;
}
static void buf_page(buf_t *b,ogg_page *og){
  buf_add(b,og->header,og->header_len);
  buf_add(b,og->body,og->body_len);
}

typedef struct { unsigned char *p; long bytes; } pkt_t;

/* Encode `n` samples and append one logical stream to `out`.
   bs0log: if nonzero, the short blocksize exponent in the identification
           header is rewritten to this value (6 == 64 samples) and the
           granule positions are recomputed for the new block sizes.
   endtrim: only with bs0log; samples trimmed from the end of the last block
   pkts_per_page: force a page flush every so many audio packets (0: natural)
   begtrim: (negative: three quarters of what the first block yields)
           the granule positions are lowered by this much and the first
           audio page is closed after two packets, so that the link starts
           begtrim samples into its first block (a stream cut out of a
           longer one looks like this)
   returns the link's length in samples */
static long make_link2(buf_t *out,long n,long rate,int ch,int serial,
                      int bs0log,long endtrim,int pkts_per_page,unsigned seed,
                      long begtrim){
  vorbis_info vi; vorbis_comment vc; vorbis_dsp_state vd; vorbis_block vb;
  ogg_packet h[3],op;
  pkt_t *pk=NULL; int npk=0,cappk=0;
  unsigned char *hc[3]; long hl[3];
  long done=0; int i,j,eos=0;
  ogg_stream_state os; ogg_page og;
  vorbis_info dvi; vorbis_comment dvc;
  ogg_int64_t pos=0; long last=0; long total;

  vorbis_info_init(&vi);
  if(vorbis_encode_init_vbr(&vi,ch,rate,0.3f)){fprintf(stderr,"enc init\n");exit(99);}
  vorbis_comment_init(&vc);
  vorbis_analysis_init(&vd,&vi);
  vorbis_block_init(&vd,&vb);
  vorbis_analysis_headerout(&vd,&vc,&h[0],&h[1],&h[2]);
  for(i=0;i<3;i++){
    hl[i]=h[i].bytes; hc[i]=malloc(hl[i]); memcpy(hc[i],h[i].packet,hl[i]);
  }
  if(bs0log) hc[0][28]=(hc[0][28]&0xf0)|bs0log;

  while(!eos){
    if(done<n){
      long c=n-done; float **b;
      if(c>1024)c=1024;
      b=vorbis_analysis_buffer(&vd,c);
      for(i=0;i<c;i++){
        for(j=0;j<ch;j++){
          seed=seed*1103515245u+12345u;
          b[j][i]=0.4f*sin((done+i)*(0.02+0.013*j))+
                  0.2f*(((seed>>16)&0x7fff)/16384.f-1.f);
        }
      }
      vorbis_analysis_wrote(&vd,c); done+=c;
    }else vorbis_analysis_wrote(&vd,0);
    while(vorbis_analysis_blockout(&vd,&vb)==1){
      vorbis_analysis(&vb,NULL);
      vorbis_bitrate_addblock(&vb);
      while(vorbis_bitrate_flushpacket(&vd,&op)){
        if(npk==cappk){cappk=cappk*2+64; pk=realloc(pk,cappk*sizeof(*pk));}
        pk[npk].bytes=op.bytes; pk[npk].p=malloc(op.bytes+1);
        memcpy(pk[npk].p,op.packet,op.bytes); npk++;
        if(op.e_o_s)eos=1;
      }
    }
  }
  vorbis_block_clear(&vb); vorbis_dsp_clear(&vd);
  vorbis_comment_clear(&vc); vorbis_info_clear(&vi);

  /* a decoder-side info from the (possibly rewritten) headers gives the
     block size of every packet */
  vorbis_info_init(&dvi); vorbis_comment_init(&dvc);
  for(i=0;i<3;i++){
    memset(&op,0,sizeof(op));
    op.packet=hc[i]; op.bytes=hl[i]; op.b_o_s=(i==0); op.packetno=i;
    if(vorbis_synthesis_headerin(&dvi,&dvc,&op)){fprintf(stderr,"hdr\n");exit(99);}
  }

  ogg_stream_init(&os,serial);
  for(i=0;i<3;i++){
    memset(&op,0,sizeof(op));
    op.packet=hc[i]; op.bytes=hl[i]; op.b_o_s=(i==0); op.packetno=i;
    ogg_stream_packetin(&os,&op);
    if(i==0) while(ogg_stream_flush(&os,&og))buf_page(out,&og);
  }
  while(ogg_stream_flush(&os,&og))buf_page(out,&og);

  total=n;
  for(i=0;i<npk;i++){
    long bs;
    memset(&op,0,sizeof(op));
    op.packet=pk[i].p; op.bytes=pk[i].bytes; op.packetno=3+i;
    bs=vorbis_packet_blocksize(&dvi,&op);
    if(bs<0){fprintf(stderr,"blocksize\n");exit(99);}
    if(last)pos+=(last+bs)/4;
    last=bs;
    if(i==1 && begtrim<0)begtrim=(pos*3/4)&~1L; /* pos: output of the first block */
    op.granulepos=(begtrim<0?0:pos-begtrim);
    if(i==npk-1){
      op.e_o_s=1;
      if(bs0log) total=pos-endtrim; else total=(n<pos?n:pos);
      total-=begtrim;
      op.granulepos=total;
    }
    if(i==0 && op.granulepos<0)op.granulepos=0; /* never ends a page */
    if(op.granulepos<0){fprintf(stderr,"begtrim too large\n");exit(99);}
    ogg_stream_packetin(&os,&op);
    if(begtrim && i==1)
      while(ogg_stream_flush(&os,&og))buf_page(out,&og);
    else if(pkts_per_page && (i%pkts_per_page)==pkts_per_page-1 && i!=npk-1)
      while(ogg_stream_flush(&os,&og))buf_page(out,&og);
    else
      while(ogg_stream_pageout(&os,&og))buf_page(out,&og);
  }
  while(ogg_stream_flush(&os,&og))buf_page(out,&og);
  ogg_stream_clear(&os);
  vorbis_info_clear(&dvi); vorbis_comment_clear(&dvc);
  for(i=0;i<npk;i++)free(pk[i].p);
  free(pk);
  for(i=0;i<3;i++)free(hc[i]);
  return total;
}

static long make_link(buf_t *out,long n,long rate,int ch,int serial,
                      int bs0log,long endtrim,int pkts_per_page,unsigned seed){
  return make_link2(out,n,rate,ch,serial,bs0log,endtrim,pkts_per_page,seed,0);
}

/* ---- memory data source ---- */
typedef struct {
  const unsigned char *d; long n, pos;
  int seekable;
  long reads;          /* number of read calls so far */
  long fail_read_at;   /* read call index that fails (-1 never) */
  long maxread;        /* cap per read (0 none) */
} mem_t;
static size_t mem_read(void *ptr,size_t sz,size_t nm,void *ds){
  mem_t *m=ds; long want=sz*nm;
  if(m->fail_read_at>=0 && m->reads++==m->fail_read_at)return 0;
  if(m->maxread && want>m->maxread)want=m->maxread;
  if(want>m->n-m->pos)want=m->n-m->pos;
  memcpy(ptr,m->d+m->pos,want); m->pos+=want;
  return want;
}
static int mem_seek(void *ds,ogg_int64_t off,int wh){
  mem_t *m=ds; long p;
  if(!m->seekable)return -1;
  if(wh==SEEK_SET)p=off; else if(wh==SEEK_CUR)p=m->pos+off; else p=m->n+off;
  if(p<0||p>m->n)return -1;
  m->pos=p; return 0;
}
static long mem_tell(void *ds){ mem_t *m=ds; return m->pos; }
static ov_callbacks mem_cb={mem_read,mem_seek,NULL,mem_tell};

static void mem_init(mem_t *m,buf_t *b,int seekable){
  memset(m,0,sizeof(*m)); m->d=b->d; m->n=b->n; m->seekable=seekable;
  m->fail_read_at=-1;
}

/* decoded audio of one handle from its present position to the end */
typedef struct {
  float *s; long n, cap;       /* channel 0 */
  ogg_int64_t *pos;            /* ov_pcm_tell before the sample was returned */
  int *link;
} dec_t;
static void dec_free(dec_t *d){free(d->s);free(d->pos);free(d->link);memset(d,0,sizeof(*d));}
static long decode_rest(OggVorbis_File *vf,dec_t *d,long maxsamples,int step){
  memset(d,0,sizeof(*d));
  while(maxsamples<0 || d->n<maxsamples){
    float **pcm; int sec=-1; long i;
    ogg_int64_t p=ov_pcm_tell(vf);
    int hs=ov_halfrate_p(vf);
    long r=ov_read_float(vf,&pcm,step,&sec);
    if(r==0)break;
    if(r<0){ if(r==OV_HOLE)continue; return r; }
    if(d->n+r>d->cap){
      d->cap=(d->n+r)*2+1024;
      d->s=realloc(d->s,d->cap*sizeof(float));
      d->pos=realloc(d->pos,d->cap*sizeof(ogg_int64_t));
      d->link=realloc(d->link,d->cap*sizeof(int));
    }
    /* the position reported before the read belongs to the first sample
       only if no link boundary / resync happened inside the call; use
       the position after the call instead */
    p=ov_pcm_tell(vf)-((ogg_int64_t)r<<hs);
    for(i=0;i<r;i++){
      d->s[d->n]=pcm[0][i]; d->pos[d->n]=p+((ogg_int64_t)i<<hs); d->link[d->n]=sec; d->n++;
    }
  }
  return 0;
}

/* ------------------------------------------------------------------ */
/* Reproducer for three half-rate defects of the UNCHANGED tree.
   Prints one line per defect; exits with the number of defects seen. */

int main(void){
  int defects=0;

  /* 1: ov_halfrate on a partially opened handle of a chained file */
  {
    buf_t b={0}; mem_t m; OggVorbis_File vf; dec_t d; long N[2],c[2]={0,0},i; int r1,r2;
    N[0]=make_link(&b,20000,44100,2,1,0,0,0,1);
    N[1]=make_link(&b,15000,44100,2,2,0,0,0,2);
    mem_init(&m,&b,1);
    if(ov_test_callbacks(&m,&vf,NULL,0,mem_cb))return 100;
    r1=ov_halfrate(&vf,1);
    r2=ov_test_open(&vf);
    decode_rest(&vf,&d,-1,4096);
    for(i=0;i<d.n;i++)c[d.link[i]]++;
    printf("1: ov_test_callbacks, ov_halfrate(1)=%d, ov_test_open=%d, ov_halfrate_p=%d:\n"
           "   link 0 (N=%ld) delivered %ld, link 1 (N=%ld) delivered %ld; final ov_pcm_tell %ld, ov_pcm_total %ld\n",
           r1,r2,ov_halfrate_p(&vf),N[0],c[0],N[1],c[1],(long)ov_pcm_tell(&vf),(long)ov_pcm_total(&vf,-1));
    if(r1==0 && c[1]!=(N[1]+1)/2){defects++;printf("   DEFECT: second link played at full rate while positions advance by two\n");}
    ov_clear(&vf); dec_free(&d); free(b.d);
  }

  /* 2: position one too high at the start of a link that follows a link
        of odd length */
  {
    buf_t b={0}; mem_t m; OggVorbis_File vf; float **pcm; int sec=0; long N[2],r; ogg_int64_t before;
    N[0]=make_link(&b,20001,44100,2,1,0,0,0,1);
    N[1]=make_link(&b,15000,44100,2,2,0,0,0,2);
    mem_init(&m,&b,1);
    if(ov_open_callbacks(&m,&vf,NULL,0,mem_cb))return 100;
    ov_halfrate(&vf,1);
    /* read link 0 to its end */
    do{ before=ov_pcm_tell(&vf); r=ov_read_float(&vf,&pcm,4096,&sec); }while(r>0 && sec==0);
    /* `before` is the position reported just before the first sample
       of link 1 was handed out; that sample is sample 0 of link 1,
       i.e. position N[0] */
    printf("2: link 0 has %ld samples; position reported for the first sample of link 1: %ld (want %ld);\n"
           "   ov_pcm_seek(%ld) lands on ",N[0],(long)before,N[0],N[0]);
    ov_pcm_seek(&vf,N[0]);
    printf("%ld\n",(long)ov_pcm_tell(&vf));
    if(before!=N[0]){defects++;printf("   DEFECT: linear half-rate decode reports the start of link 1 one sample late (until the next page with a granule position resynchronises it)\n");}
    ov_clear(&vf); free(b.d);
  }

  /* 3: a link that starts an odd number of samples into its first
        block */
  {
    buf_t b={0}; mem_t m; OggVorbis_File vf; float **pcm; int sec=0; long N,r; ogg_int64_t after;
    N=make_link2(&b,20000,44100,2,1,0,0,0,1,31);
    mem_init(&m,&b,1);
    if(ov_open_callbacks(&m,&vf,NULL,0,mem_cb))return 100;
    ov_halfrate(&vf,1);
    r=ov_read_float(&vf,&pcm,16,&sec);
    after=ov_pcm_tell(&vf);
    printf("3: link of %ld samples whose first page drops 31 samples from the front: the first read returned %ld samples, ov_pcm_tell is then %ld (want %ld)\n",
           N,r,(long)after,2*r);
    if(after!=2*r){defects++;printf("   DEFECT: the first sample was handed out at position %ld\n",(long)(after-2*r));}
    ov_clear(&vf); free(b.d);
  }
  return defects;
}
