/* throwaway replay for F16 (C02): the packet API allows any call order.  Decode some packets, then hand vorbis_synthesis a
   packet it rejects (after it has reset the block arena) and call vorbis_synthesis_blockin anyway: blockin reads the stale
   vb->pcm of the previous block, which points into storage _vorbis_block_ripcord has re-allocated.
   Build against an AddressSanitizer build of libvorbis; exit 0 = no invalid access. */
#include <stdio.h>
#include <stdlib.h>
#include <string.h>
#include <math.h>
#include <vorbis/vorbisenc.h>
int main(void){
  vorbis_info vi;vorbis_comment vc;vorbis_dsp_state ve;vorbis_block veb;ogg_packet op,h[3];int i,n=0;
  static ogg_packet pk[4000]; 
  vorbis_info_init(&vi); if(vorbis_encode_init_vbr(&vi,2,44100,.4f))return 2;
  vorbis_comment_init(&vc);vorbis_analysis_init(&ve,&vi);vorbis_block_init(&ve,&veb);
  vorbis_analysis_headerout(&ve,&vc,&h[0],&h[1],&h[2]);
  for(i=0;i<3;i++){unsigned char*c=malloc(h[i].bytes);memcpy(c,h[i].packet,h[i].bytes);h[i].packet=c;}
  {float**b=vorbis_analysis_buffer(&ve,44100);for(i=0;i<44100;i++){b[0][i]=.5f*sinf(i*.05f)*((i/3000)%2?1.f:.01f);b[1][i]=.4f*sinf(i*.031f);}vorbis_analysis_wrote(&ve,44100);vorbis_analysis_wrote(&ve,0);}
  while(vorbis_analysis_blockout(&ve,&veb)==1){vorbis_analysis(&veb,NULL);vorbis_bitrate_addblock(&veb);
    while(vorbis_bitrate_flushpacket(&ve,&op)){pk[n]=op;pk[n].packet=malloc(op.bytes);memcpy(pk[n].packet,op.packet,op.bytes);n++;}}
  vorbis_info di;vorbis_comment dc;vorbis_dsp_state vd;vorbis_block vb;
  vorbis_info_init(&di);vorbis_comment_init(&dc);
  for(i=0;i<3;i++)if(vorbis_synthesis_headerin(&di,&dc,&h[i]))return 2;
  if(vorbis_synthesis_init(&vd,&di))return 2; vorbis_block_init(&vd,&vb);
  for(i=0;i<n&&i<12;i++){ if(vorbis_synthesis(&vb,&pk[i])==0)vorbis_synthesis_blockin(&vd,&vb); float**pcm;int s=vorbis_synthesis_pcmout(&vd,&pcm);vorbis_synthesis_read(&vd,s);}
  /* a packet the decoder rejects: first bit set (not an audio packet) */
  unsigned char bad[1]={1}; ogg_packet bp=pk[i]; bp.packet=bad; bp.bytes=1;
  int r=vorbis_synthesis(&vb,&bp); printf("rejected packet: %d\n",r);
  r=vorbis_synthesis_blockin(&vd,&vb); printf("blockin after rejection: %d\n",r);
  vorbis_block_clear(&vb);vorbis_dsp_clear(&vd);vorbis_comment_clear(&dc);vorbis_info_clear(&di);
  printf("ok\n");return 0;}
