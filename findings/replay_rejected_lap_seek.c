/* probe_unchanged.c - reproduces three behaviours of the UNCHANGED tree that
 * are at odds with property C08 (see README.md, "Defects in the unchanged
 * tree").  Always exits 0; read the printed lines.
 *
 * Build: gcc -g -I<tree>/include probe_unchanged.c <build>/lib/libvorbisfile.a \
 *        <build>/lib/libvorbisenc.a <build>/lib/libvorbis.a -logg -lm -o probe
 */
#include <stdio.h>
#include <stdlib.h>
#include <string.h>
#include <math.h>
#include <unistd.h>
#include <ogg/ogg.h>
#include <vorbis/codec.h>
#include <vorbis/vorbisenc.h>
#include <vorbis/vorbisfile.h>

#define MAXPAGES 4096

typedef struct {
  unsigned char *data;
  size_t len, cap;
  ogg_int64_t gran[MAXPAGES]; /* granulepos of each audio page */
  int ngran;
  long rate;
  ogg_int64_t samples;        /* granulepos of the last page */
} stream_t;

static void put(stream_t *s, const void *p, size_t n){
  if(s->len+n > s->cap){
    s->cap = (s->len+n)*2;
    s->data = realloc(s->data, s->cap);
    if(!s->data){ fprintf(stderr,"oom\n"); exit(2); }
  }
  memcpy(s->data+s->len, p, n);
  s->len += n;
}

static void put_page(stream_t *s, ogg_page *og, int audio){
  put(s, og->header, og->header_len);
  put(s, og->body, og->body_len);
  if(audio && ogg_page_granulepos(og) >= 0){
    if(s->ngran >= MAXPAGES){ fprintf(stderr,"too many pages\n"); exit(2); }
    s->gran[s->ngran++] = ogg_page_granulepos(og);
    s->samples = ogg_page_granulepos(og);
  }
}

/* deterministic test signal */
static unsigned lcg = 12345u;
static float noise(void){
  lcg = lcg*1664525u + 1013904223u;
  return ((lcg>>8)&0xffff)/65536.f - .5f;
}

static size_t hdrlen;
static void encode(stream_t *s, long rate, double seconds, int serial){
  vorbis_info vi; vorbis_comment vc; vorbis_dsp_state vd; vorbis_block vb;
  ogg_stream_state os; ogg_page og; ogg_packet op;
  ogg_packet h0,h1,h2;
  long total = (long)(seconds*rate), done = 0;
  int eos = 0, pk = 0;

  memset(s, 0, sizeof(*s));
  s->rate = rate;

  vorbis_info_init(&vi);
  if(vorbis_encode_init_vbr(&vi, 1, rate, 0.3f)){ fprintf(stderr,"enc init\n"); exit(2); }
  vorbis_comment_init(&vc);
  vorbis_analysis_init(&vd, &vi);
  vorbis_block_init(&vd, &vb);
  ogg_stream_init(&os, serial);

  vorbis_analysis_headerout(&vd, &vc, &h0, &h1, &h2);
  ogg_stream_packetin(&os, &h0);
  ogg_stream_packetin(&os, &h1);
  ogg_stream_packetin(&os, &h2);
  while(ogg_stream_flush(&os, &og)) put_page(s, &og, 0);
  hdrlen=s->len;

  while(!eos){
    long n = total-done, i;
    if(n > 1024) n = 1024;
    if(n > 0){
      float **buf = vorbis_analysis_buffer(&vd, (int)n);
      for(i=0;i<n;i++){
        double t = (double)(done+i)/rate;
        buf[0][i] = (float)(0.4*sin(2*M_PI*(300.+40.*t)*t) + 0.1*noise());
      }
      vorbis_analysis_wrote(&vd, (int)n);
      done += n;
    }else{
      vorbis_analysis_wrote(&vd, 0);
    }
    while(vorbis_analysis_blockout(&vd, &vb) == 1){
      vorbis_analysis(&vb, NULL);
      vorbis_bitrate_addblock(&vb);
      while(vorbis_bitrate_flushpacket(&vd, &op)){
        ogg_stream_packetin(&os, &op);
        pk++;
        if(op.e_o_s) eos = 1;
        if(pk%6 == 0 || op.e_o_s){
          while(ogg_stream_flush(&os, &og)) put_page(s, &og, 1);
        }
      }
    }
  }
  while(ogg_stream_flush(&os, &og)) put_page(s, &og, 1);

  ogg_stream_clear(&os);
  vorbis_block_clear(&vb);
  vorbis_dsp_clear(&vd);
  vorbis_comment_clear(&vc);
  vorbis_info_clear(&vi);
}

/* memory I/O */
typedef struct { const unsigned char *d; ogg_int64_t len, pos; } mem_t;
static size_t m_read(void *p, size_t sz, size_t nm, void *ds){
  mem_t *m = ds; ogg_int64_t n = (ogg_int64_t)(sz*nm);
  if(n > m->len-m->pos) n = m->len-m->pos;
  if(n < 0) n = 0;
  memcpy(p, m->d+m->pos, (size_t)n); m->pos += n;
  return (size_t)(n/(ogg_int64_t)sz);
}
static int m_seek(void *ds, ogg_int64_t off, int wh){
  mem_t *m = ds; ogg_int64_t np;
  if(wh == SEEK_SET) np = off; else if(wh == SEEK_CUR) np = m->pos+off; else np = m->len+off;
  if(np < 0 || np > m->len) return -1;
  m->pos = np; return 0;
}
static long m_tell(void *ds){ return (long)((mem_t*)ds)->pos; }


static float *decode_all(unsigned char *d,size_t len,ogg_int64_t *n){
  mem_t m={d,(ogg_int64_t)len,0}; OggVorbis_File vf; ov_callbacks cb={m_read,m_seek,NULL,m_tell};
  float *out; ogg_int64_t got=0,tot; float **pcm; int sec; long r;
  if(ov_open_callbacks(&m,&vf,NULL,0,cb)){printf("open fail\n");exit(2);}
  tot=ov_pcm_total(&vf,-1); out=malloc(sizeof(float)*(tot+100000));
  while((r=ov_read_float(&vf,&pcm,4096,&sec))>0){memcpy(out+got,pcm[0],r*sizeof(float));got+=r;}
  *n=got; ov_clear(&vf); return out;
}
int main(void){
  static stream_t a,h; ogg_int64_t n,L,T,T2; float *ref; float **pcm; int sec; long r; int ret;
  mem_t m; OggVorbis_File vf; ov_callbacks cb={m_read,m_seek,NULL,m_tell};
  encode(&a,44100,4.3,0x1111);
  ref=decode_all(a.data,a.len,&n);
  printf("decoded %lld, total %lld\n",(long long)n,(long long)a.samples);
  /* (a) lap seek with out-of-range */
  m.d=a.data;m.len=a.len;m.pos=0;
  ov_open_callbacks(&m,&vf,NULL,0,cb); L=ov_pcm_total(&vf,-1);
  {ogg_int64_t got=0; while(got<5000){r=ov_read_float(&vf,&pcm,1000,&sec); got+=r;}}
  T=ov_pcm_tell(&vf);
  ret=ov_pcm_seek_lap(&vf,L+1000);
  T2=ov_pcm_tell(&vf);
  r=ov_read_float(&vf,&pcm,64,&sec);
  {int k,best=-1; for(k=-3000;k<=3000&&best<0;k++){int i,ok=1; if(T2+k<0)continue; for(i=0;i<r&&i<32;i++) if(fabs(pcm[0][i]-ref[T2+k+i])>1e-6){ok=0;break;} if(ok)best=k;}
   printf("(a) ov_pcm_seek_lap(L+1000) ret=%d tell before=%lld after=%lld; next read returned %ld samples matching reference at tell%+d\n",ret,(long long)T,(long long)T2,r,best);}
  ret=ov_pcm_seek_lap(&vf,-5);
  printf("    ov_pcm_seek_lap(-5) ret=%d tell=%lld\n",ret,(long long)ov_pcm_tell(&vf));
  /* plain seek for comparison */
  ov_pcm_seek(&vf,5000); r=ov_read_float(&vf,&pcm,100,&sec); T=ov_pcm_tell(&vf);
  ret=ov_pcm_seek(&vf,L+1000); T2=ov_pcm_tell(&vf); r=ov_read_float(&vf,&pcm,64,&sec);
  printf("    plain ov_pcm_seek(L+1000) ret=%d tell before=%lld after=%lld first sample diff vs ref=%g\n",ret,(long long)T,(long long)T2,fabs(pcm[0][0]-ref[T2]));
  /* (c) time seek to duration */
  ret=ov_time_seek(&vf,ov_time_total(&vf,-1)); printf("(c) ov_time_seek(duration=%f) ret=%d; ov_pcm_seek(L) ret=%d\n",ov_time_total(&vf,-1),ret,ov_pcm_seek(&vf,L));
  ov_clear(&vf);
  /* (b) chain with trailing headers-only link */
  encode(&h,32000,0.5,0x3333);
  {unsigned char *c=malloc(a.len+hdrlen); memcpy(c,a.data,a.len); memcpy(c+a.len,h.data,hdrlen);
   m.d=c;m.len=a.len+hdrlen;m.pos=0;
   ret=ov_open_callbacks(&m,&vf,NULL,0,cb); printf("(b) open A+headers-only ret=%d",ret);
   if(!ret){ L=ov_pcm_total(&vf,-1); printf(" links=%ld L=%lld",ov_streams(&vf),(long long)L);
     ret=ov_pcm_seek(&vf,L); printf(" ov_pcm_seek(L) ret=%d tell=%lld",ret,(long long)ov_pcm_tell(&vf));
     ret=ov_pcm_seek(&vf,L-1); printf(" ov_pcm_seek(L-1) ret=%d tell=%lld",ret,(long long)ov_pcm_tell(&vf));
     ret=ov_pcm_seek_page(&vf,L); printf(" ov_pcm_seek_page(L) ret=%d tell=%lld",ret,(long long)ov_pcm_tell(&vf));
     ov_clear(&vf);}
   printf("\n");}
  return 0;
}
