/* Reproduction for the defect noted in README.md under "Defects in the
 * unchanged tree": a chained file whose LAST link has headers only.
 * Build like demo.c.  On the unchanged tree it prints
 *   pcm_seek(L)=-129 tell=-1 ... pcm_seek_page(L)=0 tell=-1
 */
#include <stdio.h>
#include <stdlib.h>
#include <string.h>
#include <math.h>
#include <unistd.h>
#include <vorbis/codec.h>
#include <vorbis/vorbisenc.h>
#include <vorbis/vorbisfile.h>
typedef struct { unsigned char *d; size_t len, cap, pos; } membuf;
static void mb_add(membuf *m, const void *p, size_t n){ if(m->len+n>m->cap){m->cap=(m->len+n)*2+4096;m->d=realloc(m->d,m->cap);} memcpy(m->d+m->len,p,n); m->len+=n;}
static size_t mb_read(void *ptr,size_t size,size_t nmemb,void *ds){ membuf *m=ds; size_t want=size*nmemb,left=m->len-m->pos; if(want>left)want=left; memcpy(ptr,m->d+m->pos,want); m->pos+=want; return want/size;}
static int mb_seek(void *ds,ogg_int64_t off,int whence){ membuf *m=ds; ogg_int64_t np; if(whence==SEEK_SET)np=off; else if(whence==SEEK_CUR)np=m->pos+off; else np=m->len+off; if(np<0||np>(ogg_int64_t)m->len)return -1; m->pos=np; return 0;}
static long mb_tell(void *ds){ return ((membuf*)ds)->pos; }
static void encode(membuf *out,long rate,int ch,long nsamples,int serial){
  vorbis_info vi; vorbis_comment vc; vorbis_dsp_state vd; vorbis_block vb; ogg_stream_state os; ogg_page og; ogg_packet op,h0,h1,h2; long done=0; int eos=0;
  vorbis_info_init(&vi); vorbis_encode_init_vbr(&vi,ch,rate,.3f); vorbis_comment_init(&vc); vorbis_analysis_init(&vd,&vi); vorbis_block_init(&vd,&vb); ogg_stream_init(&os,serial);
  vorbis_analysis_headerout(&vd,&vc,&h0,&h1,&h2);
  if(nsamples==0) h2.e_o_s=1;
  ogg_stream_packetin(&os,&h0); ogg_stream_packetin(&os,&h1); ogg_stream_packetin(&os,&h2);
  while(ogg_stream_flush(&os,&og)){ mb_add(out,og.header,og.header_len); mb_add(out,og.body,og.body_len);}
  if(nsamples==0) return;
  while(!eos){
    if(done<nsamples){ long n=nsamples-done,i; int c; float **b; if(n>1024)n=1024; b=vorbis_analysis_buffer(&vd,n); for(i=0;i<n;i++)for(c=0;c<ch;c++)b[c][i]=.4f*sinf((done+i)*.02f); vorbis_analysis_wrote(&vd,n); done+=n;} else vorbis_analysis_wrote(&vd,0);
    while(vorbis_analysis_blockout(&vd,&vb)==1){ vorbis_analysis(&vb,NULL); vorbis_bitrate_addblock(&vb);
      while(vorbis_bitrate_flushpacket(&vd,&op)){ ogg_stream_packetin(&os,&op);
        while(!eos && ogg_stream_pageout(&os,&og)){ mb_add(out,og.header,og.header_len); mb_add(out,og.body,og.body_len); if(ogg_page_eos(&og))eos=1; } } } }
}
int main(){ membuf m={0}; ov_callbacks cb={mb_read,mb_seek,NULL,mb_tell}; OggVorbis_File vf; int r; char buf[4096]; int sec;
 alarm(30);
 encode(&m,44100,2,44100*2,1); encode(&m,44100,2,0,2);
 r=ov_open_callbacks(&m,&vf,NULL,0,cb); printf("open=%d\n",r); if(r)return 0;
 printf("links=%ld L=%ld L0=%ld L1=%ld\n",ov_streams(&vf),(long)ov_pcm_total(&vf,-1),(long)ov_pcm_total(&vf,0),(long)ov_pcm_total(&vf,1));
 ogg_int64_t L=ov_pcm_total(&vf,-1);
 r=ov_pcm_seek(&vf,L); printf("pcm_seek(L)=%d tell=%ld\n",r,(long)ov_pcm_tell(&vf));
 printf("read=%ld\n",ov_read(&vf,buf,sizeof buf,0,2,1,&sec));
 r=ov_pcm_seek_page(&vf,L); printf("pcm_seek_page(L)=%d tell=%ld\n",r,(long)ov_pcm_tell(&vf));
 r=ov_pcm_seek(&vf,L-1); printf("pcm_seek(L-1)=%d tell=%ld\n",r,(long)ov_pcm_tell(&vf));
 return 0;}
