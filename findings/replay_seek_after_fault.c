/* throwaway replay for F14 (C12/C08): after a seek that failed on an I/O error the handle is left in OPENED with
   current_link kept; a later sample seek into the SAME link takes the link==current_link branch of ov_pcm_seek_page,
   never reaches STREAMSET, and _make_decode_ready returns OV_EFAULT.
   usage: r <file.ogg>   (any seekable vorbis file, e.g. one written by replay_granule_offset.c with offset 0)
   exit 0: the retried seek works; exit 1: it fails with an error code although the source is healthy again */
#include <stdio.h>
#include <stdlib.h>
#include <string.h>
#include <errno.h>
#include <vorbis/vorbisfile.h>
typedef struct{unsigned char*d;long n,pos;long nread,fail_from;}src;
static size_t rd(void*p,size_t s,size_t m,void*v){src*x=v;long want=s*m;x->nread++;if(x->fail_from&&x->nread>=x->fail_from){errno=EIO;return 0;}errno=0;
  if(want>x->n-x->pos)want=x->n-x->pos;memcpy(p,x->d+x->pos,want);x->pos+=want;return want;}
static int sk(void*v,ogg_int64_t off,int wh){src*x=v;long np=wh==SEEK_SET?off:wh==SEEK_CUR?x->pos+off:x->n+off;if(np<0||np>x->n)return -1;x->pos=np;return 0;}
static long tl(void*v){src*x=v;return x->pos;}
int main(int argc,char**argv){FILE*f=fopen(argv[1],"rb");if(!f)return 2;src s;memset(&s,0,sizeof s);s.d=malloc(1<<24);s.n=fread(s.d,1,1<<24,f);fclose(f);
  ov_callbacks cb={rd,sk,NULL,tl};OggVorbis_File vf;int r=ov_open_callbacks(&s,&vf,NULL,0,cb);if(r){printf("open=%d\n",r);return 2;}
  ogg_int64_t tot=ov_pcm_total(&vf,-1);float**pcm;int bs;ov_read_float(&vf,&pcm,256,&bs);
  s.fail_from=s.nread+1;                       /* every read fails from now on */
  r=ov_pcm_seek(&vf,tot/2);printf("seek with failing reads: %d\n",r);
  s.fail_from=0;                               /* source healthy again */
  int r2=ov_pcm_seek(&vf,tot/3);printf("retried seek (same link, healthy source): %d tell=%ld\n",r2,(long)ov_pcm_tell(&vf));
  long n=ov_read_float(&vf,&pcm,256,&bs);printf("read after retry: %ld\n",n);
  ov_clear(&vf);return (r<0&&r2==0&&n>0)?0:1;}
