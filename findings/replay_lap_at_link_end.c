/* finding F47: a lapped raw seek into the last page of a non-final link (and ov_crosslap with the source handle at a link end) made the handle lose the whole next link:
 * _fetch_and_process_packet(..,spanp=0) returned OV_EOF at the boundary with the next link's first page already consumed.  Written by the batch j mutation agent for C19;
 * the oracle was narrowed to the lost link. */
#include <stdio.h>
#include <stdlib.h>
#include <string.h>
#include <math.h>
#include <vorbis/codec.h>
#include <vorbis/vorbisenc.h>
#include <vorbis/vorbisfile.h>

typedef struct { unsigned char *d; size_t n, cap; } membuf;
typedef struct { membuf *m; size_t pos; } memsrc;

static void mb_add(membuf *m,const void *p,size_t n){
  if(m->n+n>m->cap){ m->cap=(m->n+n)*2+4096; m->d=realloc(m->d,m->cap); }
  memcpy(m->d+m->n,p,n); m->n+=n;
}
static size_t ms_read(void *ptr,size_t sz,size_t nm,void *ds){
  memsrc *s=ds; size_t want=sz*nm, left=s->m->n-s->pos;
  if(want>left)want=left;
  memcpy(ptr,s->m->d+s->pos,want); s->pos+=want; return want/(sz?sz:1);
}
static int ms_seek(void *ds,ogg_int64_t off,int wh){
  memsrc *s=ds; ogg_int64_t b=(wh==SEEK_SET)?0:(wh==SEEK_CUR)?(ogg_int64_t)s->pos:(ogg_int64_t)s->m->n;
  b+=off; if(b<0||b>(ogg_int64_t)s->m->n)return -1; s->pos=b; return 0;
}
static long ms_tell(void *ds){ return ((memsrc*)ds)->pos; }
static ov_callbacks ms_cb={ms_read,ms_seek,NULL,ms_tell};

static unsigned rng_state=12345;
static float frand(void){ rng_state=rng_state*1664525u+1013904223u; return ((rng_state>>8)&0xffff)/32768.f-1.f; }

/* encode one link: tones + clicks (to provoke short blocks) */
static void encode_link(membuf *m,int ch,long rate,float q,double secs,int serial,int clicks){
  vorbis_info vi; vorbis_comment vc; vorbis_dsp_state vd; vorbis_block vb;
  ogg_stream_state os; ogg_page og; ogg_packet op,h1,h2,h3;
  long total=(long)(secs*rate),done=0; int eos=0,i,c;
  vorbis_info_init(&vi);
  if(vorbis_encode_init_vbr(&vi,ch,rate,q)){fprintf(stderr,"enc init failed\n");exit(99);}
  vorbis_comment_init(&vc); vorbis_analysis_init(&vd,&vi); vorbis_block_init(&vd,&vb);
  ogg_stream_init(&os,serial);
  vorbis_analysis_headerout(&vd,&vc,&h1,&h2,&h3);
  ogg_stream_packetin(&os,&h1);ogg_stream_packetin(&os,&h2);ogg_stream_packetin(&os,&h3);
  while(ogg_stream_flush(&os,&og)){mb_add(m,og.header,og.header_len);mb_add(m,og.body,og.body_len);}
  while(!eos){
    if(done>=total) vorbis_analysis_wrote(&vd,0);
    else{
      long n=1024; float **b; if(n>total-done)n=total-done;
      b=vorbis_analysis_buffer(&vd,n);
      for(i=0;i<n;i++){ long t=done+i;
        for(c=0;c<ch;c++){
          double v=0.3*sin(2*M_PI*(220.0+110.0*c)*t/rate)+0.15*sin(2*M_PI*(1370.0+77*c)*t/rate+c);
          if(clicks){ long ph=t%(rate/4+37*c+serial%7); if(ph<40) v+=0.6*frand(); }
          b[c][i]=(float)v;
        }
      }
      vorbis_analysis_wrote(&vd,n); done+=n;
    }
    while(vorbis_analysis_blockout(&vd,&vb)==1){
      vorbis_analysis(&vb,NULL); vorbis_bitrate_addblock(&vb);
      while(vorbis_bitrate_flushpacket(&vd,&op)){
        ogg_stream_packetin(&os,&op);
        while(!eos){ if(!ogg_stream_pageout(&os,&og))break;
          mb_add(m,og.header,og.header_len);mb_add(m,og.body,og.body_len);
          if(ogg_page_eos(&og))eos=1; }
      }
    }
  }
  ogg_stream_clear(&os);vorbis_block_clear(&vb);vorbis_dsp_clear(&vd);vorbis_comment_clear(&vc);vorbis_info_clear(&vi);
}

static int open_mem(OggVorbis_File *vf,memsrc *s,membuf *m){
  s->m=m;s->pos=0; return ov_open_callbacks(s,vf,NULL,0,ms_cb);
}
/* twin-handle comparison of lapped vs plain seeks */
typedef struct { ogg_int64_t pos; int link; int ch; float v[8]; } samp;
typedef struct { samp *s; long n; int rc; } trace;

static void read_trace(OggVorbis_File *vf,trace *t,long maxn){
  t->s=malloc(sizeof(samp)*(maxn+8192)); t->n=0; t->rc=0;
  while(t->n<maxn){
    float **pcm; int link; ogg_int64_t p=ov_pcm_tell(vf); int hs=ov_halfrate_p(vf);
    long r=ov_read_float(vf,&pcm,4096,&link); long i; int c,ch;
    if(r<=0){ t->rc=(int)r; break; }
    ch=ov_info(vf,link)->channels;
    for(i=0;i<r;i++){ samp *s=&t->s[t->n++]; s->pos=p+(i<<hs); s->link=link; s->ch=ch;
      for(c=0;c<ch&&c<8;c++)s->v[c]=pcm[c][i]; }
  }
}
static int do_seek(OggVorbis_File *vf,int kind,int lap,double x){
  switch(kind){
  case 0: return lap?ov_raw_seek_lap(vf,(ogg_int64_t)x):ov_raw_seek(vf,(ogg_int64_t)x);
  case 1: return lap?ov_pcm_seek_lap(vf,(ogg_int64_t)x):ov_pcm_seek(vf,(ogg_int64_t)x);
  case 2: return lap?ov_pcm_seek_page_lap(vf,(ogg_int64_t)x):ov_pcm_seek_page(vf,(ogg_int64_t)x);
  case 3: return lap?ov_time_seek_lap(vf,x):ov_time_seek(vf,x);
  default: return lap?ov_time_seek_page_lap(vf,x):ov_time_seek_page(vf,x);
  }
}
static const char * const kname[]={"raw","pcm","pcm_page","time","time_page"};
static int verbose=1;
/* returns 0 ok, 1 violation */
static int compare_after(OggVorbis_File *P,OggVorbis_File *L,int rp,int rl,const char *tag,long maxn){
  ogg_int64_t tp,tl; trace a,b; long i,j; int bad=0; long half;
  if(rp!=0){ if(rl==0){ if(verbose)printf("%s: plain failed %d but lapped succeeded\n",tag,rp); return 1;} return 0; }
  tp=ov_pcm_tell(P); tl=ov_pcm_tell(L);
  if(rl!=0 && rl!=OV_EOF){ if(verbose)printf("%s: plain ok, lapped rc %d\n",tag,rl); return 1; }
  if(tp!=tl){ if(verbose)printf("%s: tell differs plain %ld lapped %ld (rl %d)\n",tag,(long)tp,(long)tl,rl); return 1; }
  read_trace(P,&a,maxn); read_trace(L,&b,maxn);
  if(0 && rl==OV_EOF && a.n>0){ if(verbose)printf("%s: lapped says EOF but %ld samples follow in plain (lapped then reads %ld)\n",tag,a.n,b.n); bad=1; }
  if(!bad){
    if(a.n!=b.n||a.rc!=b.rc){ if(verbose)printf("%s: sample count differs %ld/%ld rc %d/%d\n",tag,a.n,b.n,a.rc,b.rc); bad=1; }
  }
  if(!bad && a.n>0){
    vorbis_info *vi=ov_info(P,a.s[0].link);
    half=vorbis_info_blocksize(vi,0)/2;
    for(i=0;i<a.n;i++){
      if(a.s[i].pos!=b.s[i].pos||a.s[i].link!=b.s[i].link){ if(verbose)printf("%s: position/link sequence differs at %ld\n",tag,i); bad=1;break; }
      if(a.s[i].pos-tp>=half){
        for(j=0;j<a.s[i].ch&&j<8;j++) if(memcmp(&a.s[i].v[j],&b.s[i].v[j],sizeof(float))){
          if(verbose)
            printf("%s: audio differs at pos %ld (landed %ld, +%ld, half %ld) ch %ld: %g vs %g\n",tag,(long)a.s[i].pos,(long)tp,(long)(a.s[i].pos-tp),half,j,a.s[i].v[j],b.s[i].v[j]);
          bad=1;break;
        }
        if(bad)break;
      }
    }
  }
  free(a.s);free(b.s);
  return bad;
}
/* Reproducer for a deviation of the UNCHANGED library: a lapped seek whose
   plain counterpart lands exactly on the end of a non-final link. */
static long last_page_of_serial(membuf *m,int serial){
  size_t i; long last=-1;
  for(i=0;i+27<m->n;i++) if(!memcmp(m->d+i,"OggS",4)){
    int s=m->d[i+14]|(m->d[i+15]<<8)|(m->d[i+16]<<16)|((unsigned)m->d[i+17]<<24);
    if(s==serial) last=(long)i;
  }
  return last;
}
int main(void){
  membuf m={0}; OggVorbis_File P,L; memsrc sp,sl; long off,l0; int rp,rl,bad=0; trace a,b;
  encode_link(&m,2,44100,0.4f,1.5,1001,0);
  encode_link(&m,1,16000,0.3f,1.5,1002,0);
  if(open_mem(&P,&sp,&m)||open_mem(&L,&sl,&m))return 2;
  l0=ov_pcm_total(&P,0);
  off=last_page_of_serial(&m,1001);
  printf("link 0: %ld samples, its last page starts at byte %ld; link 1: %ld samples\n",l0,off,(long)ov_pcm_total(&P,1));

  /* 1: the lapped raw seek says EOF although all of link 1 follows, and the
        handle then delivers nothing at all */
  rp=ov_raw_seek(&P,off); rl=ov_raw_seek_lap(&L,off);
  printf("1) ov_raw_seek -> %d tell %ld   ov_raw_seek_lap -> %d tell %ld\n",rp,(long)ov_pcm_tell(&P),rl,(long)ov_pcm_tell(&L));
  read_trace(&P,&a,1000000); read_trace(&L,&b,1000000);
  printf("   samples read afterwards: plain %ld, lapped %ld\n",a.n,b.n);
  /* finding F47 is the lost link (a.n!=b.n); OV_EOF at the end of a non-final link is the documented "nothing to lap within this link" answer (DESIGN 9.4, R19.5) */
  if(rp==0 && ((rl!=0 && rl!=OV_EOF) || a.n!=b.n)) bad=1;
  free(a.s);free(b.s);

  /* 2 (side remark, the source handle is outside property C19): lapping FROM a
        handle that stands at the end of a non-final link swallows the next
        link's first header page, so that handle then skips the whole link */
  { trace t; int rc; long before;
    ov_pcm_seek(&P,l0-500); read_trace(&P,&t,500); free(t.s);
    ov_pcm_seek(&L,3000);
    before=(long)ov_pcm_tell(&P);
    rc=ov_crosslap(&P,&L);
    read_trace(&P,&t,1000000);
    printf("2) source handle at %ld (end of link 0), ov_crosslap -> %d, source then delivers %ld samples (link 1 has %ld)\n",before,rc,t.n,(long)ov_pcm_total(&P,1));
    free(t.s);
  }
  printf(bad?"DEVIATION from the property observed\n":"no deviation\n");
  return bad;
}
