/* baseline_defects.c - reproduces two C10 violations of the UNCHANGED tree.
 *
 *   gcc -g -I<tree>/include baseline_defects.c <build>/lib/libvorbisfile.a \
 *       <build>/lib/libvorbisenc.a <build>/lib/libvorbis.a -logg -lm -o baseline_defects
 *
 * It chains two mono 44.1 kHz links (40000 + 30000 samples) and decodes them
 * linearly through vorbisfile, seekable and streaming, at full and half rate.
 * (Helper code is shared with demo.c; only main() and run() differ.)
 *
 * Observed on the unchanged tree:
 *   streaming full : "ret -3 at 40000"  <- OV_HOLE on an intact stream
 *   seekable  half : 35000 samples (20000 + 15000)
 *   streaming half : 50000 samples (20000 + 30000) <- link 1 at FULL rate
 */
#include <stdio.h>
#include <stdlib.h>
#include <string.h>
#include <math.h>
#include <errno.h>
#include <unistd.h>
#include <ogg/ogg.h>
#include <vorbis/codec.h>
#include <vorbis/vorbisenc.h>
#include <vorbis/vorbisfile.h>

/* ------------------------------------------------------------------ */
/* growable byte / float buffers                                       */

typedef struct { unsigned char *d; size_t n, cap; } bytes_t;
typedef struct { float *d; size_t n, cap; } floats_t;

static void bytes_add(bytes_t *b, const void *p, size_t n){
  if(b->n+n>b->cap){
    b->cap=(b->n+n)*2+1024;
    b->d=realloc(b->d,b->cap);
    if(!b->d){perror("realloc");exit(2);}
  }
  memcpy(b->d+b->n,p,n);
  b->n+=n;
}
static void floats_add(floats_t *b, float f){
  if(b->n+1>b->cap){
    b->cap=(b->n+1)*2+1024;
    b->d=realloc(b->d,b->cap*sizeof(float));
    if(!b->d){perror("realloc");exit(2);}
  }
  b->d[b->n++]=f;
}

/* ------------------------------------------------------------------ */
/* deterministic pseudo-random numbers                                 */

static unsigned long lcg_state=1;
static unsigned lcg(void){
  lcg_state=lcg_state*1103515245UL+12345UL;
  return (unsigned)((lcg_state>>16)&0x7fff);
}

/* ------------------------------------------------------------------ */
/* encoder: append one logical stream to 'out'                         */

static void encode_link(bytes_t *out,int channels,long rate,float quality,
                        long nsamples,int serialno,unsigned seed,
                        int ncomments){
  vorbis_info vi; vorbis_comment vc; vorbis_dsp_state vd; vorbis_block vb;
  ogg_stream_state os; ogg_page og; ogg_packet op;
  ogg_packet h0,h1,h2;
  long done=0; int eos=0,i,c;

  vorbis_info_init(&vi);
  if(vorbis_encode_init_vbr(&vi,channels,rate,quality)){
    fprintf(stderr,"encoder init failed\n");exit(2);
  }
  vorbis_comment_init(&vc);
  vorbis_comment_add_tag(&vc,"ENCODER","demo");
  for(i=0;i<ncomments;i++){
    char tag[200];
    int k;
    for(k=0;k<190;k++)tag[k]='a'+(char)((i*7+k*13+seed)%26);
    tag[k]=0;
    vorbis_comment_add_tag(&vc,"PADDING",tag);
  }
  vorbis_analysis_init(&vd,&vi);
  vorbis_block_init(&vd,&vb);
  ogg_stream_init(&os,serialno);

  vorbis_analysis_headerout(&vd,&vc,&h0,&h1,&h2);
  ogg_stream_packetin(&os,&h0);
  ogg_stream_packetin(&os,&h1);
  ogg_stream_packetin(&os,&h2);
  while(ogg_stream_flush(&os,&og)){
    bytes_add(out,og.header,og.header_len);
    bytes_add(out,og.body,og.body_len);
  }

  lcg_state=seed;
  while(!eos){
    long n=nsamples-done;
    if(n>1024)n=1024;
    if(n<=0){
      vorbis_analysis_wrote(&vd,0);
    }else{
      float **buf=vorbis_analysis_buffer(&vd,n);
      for(i=0;i<n;i++){
        double t=(double)(done+i)/rate;
        /* tone + occasional clicks so that both block sizes are used */
        for(c=0;c<channels;c++){
          double s=0.4*sin(2*M_PI*(220.0+110.0*c)*t);
          if(((done+i)/3000)%3==1 && ((done+i)%3000)<40)
            s+=0.5*((int)(lcg()%2000)-1000)/1000.0;
          else
            s+=0.01*((int)(lcg()%2000)-1000)/1000.0;
          buf[c][i]=(float)s;
        }
      }
      vorbis_analysis_wrote(&vd,n);
      done+=n;
    }
    while(vorbis_analysis_blockout(&vd,&vb)==1){
      vorbis_analysis(&vb,NULL);
      vorbis_bitrate_addblock(&vb);
      while(vorbis_bitrate_flushpacket(&vd,&op)){
        ogg_stream_packetin(&os,&op);
        while(!eos){
          if(!ogg_stream_pageout(&os,&og))break;
          bytes_add(out,og.header,og.header_len);
          bytes_add(out,og.body,og.body_len);
          if(ogg_page_eos(&og))eos=1;
        }
      }
    }
  }
  ogg_stream_clear(&os);
  vorbis_block_clear(&vb);
  vorbis_dsp_clear(&vd);
  vorbis_comment_clear(&vc);
  vorbis_info_clear(&vi);
}

/* ------------------------------------------------------------------ */
/* reference decode with the packet-level API                          */

static size_t link_end[16];   /* float index where each link ends (reference) */
static int    n_link_end;

static int decode_packets(const bytes_t *in,floats_t *pcm){
  ogg_sync_state oy; ogg_stream_state os; ogg_page og; ogg_packet op;
  vorbis_info vi; vorbis_comment vc; vorbis_dsp_state vd; vorbis_block vb;
  size_t pos=0; int have_os=0,headers=0,ready=0,bad=0;

  n_link_end=0;
  ogg_sync_init(&oy);
  while(1){
    int r=ogg_sync_pageout(&oy,&og);
    if(r==0){
      size_t n=in->n-pos; char *b;
      if(n==0)break;
      if(n>4096)n=4096;
      b=ogg_sync_buffer(&oy,4096);
      memcpy(b,in->d+pos,n); pos+=n;
      ogg_sync_wrote(&oy,n);
      continue;
    }
    if(r<0){ fprintf(stderr,"  P: sync hole\n"); bad=1; continue; }
    if(ogg_page_bos(&og)){
      if(have_os && n_link_end<16)link_end[n_link_end++]=pcm->n;
      if(ready){ vorbis_block_clear(&vb); vorbis_dsp_clear(&vd); ready=0; }
      if(have_os){
        ogg_stream_clear(&os); vorbis_comment_clear(&vc); vorbis_info_clear(&vi);
      }
      ogg_stream_init(&os,ogg_page_serialno(&og));
      vorbis_info_init(&vi); vorbis_comment_init(&vc);
      have_os=1; headers=0;
    }
    if(!have_os)continue;
    if(ogg_stream_pagein(&os,&og)<0)continue;
    while(1){
      r=ogg_stream_packetout(&os,&op);
      if(r==0)break;
      if(r<0){ fprintf(stderr,"  P: packet hole\n"); bad=1; continue; }
      if(headers<3){
        if(vorbis_synthesis_headerin(&vi,&vc,&op)<0){
          fprintf(stderr,"  P: bad header\n"); bad=1; break;
        }
        if(++headers==3){
          vorbis_synthesis_init(&vd,&vi);
          vorbis_block_init(&vd,&vb);
          ready=1;
        }
        continue;
      }
      if(vorbis_synthesis(&vb,&op)==0){
        float **p; int s,i,c;
        vorbis_synthesis_blockin(&vd,&vb);
        /* consume in odd little pieces, too */
        while((s=vorbis_synthesis_pcmout(&vd,&p))>0){
          if(s>37)s=37;
          for(i=0;i<s;i++)for(c=0;c<vi.channels;c++)floats_add(pcm,p[c][i]);
          vorbis_synthesis_read(&vd,s);
        }
      }
    }
  }
  if(have_os && n_link_end<16)link_end[n_link_end++]=pcm->n;
  if(ready){ vorbis_block_clear(&vb); vorbis_dsp_clear(&vd); }
  if(have_os){
    ogg_stream_clear(&os); vorbis_comment_clear(&vc); vorbis_info_clear(&vi);
  }
  ogg_sync_clear(&oy);
  return bad;
}

/* ------------------------------------------------------------------ */
/* vorbisfile decode with fragmenting callbacks                        */

typedef struct {
  const bytes_t *in;
  size_t pos;
  int mode;          /* read fragmentation schedule */
  unsigned long calls;
} src_t;

static size_t frag(src_t *s,size_t want){
  size_t k;
  switch(s->mode){
  case 0: return want;                       /* as much as asked          */
  case 1: return 1;                          /* one byte at a time        */
  case 2: k=1+(s->calls*7919UL)%61; break;   /* small, varying            */
  case 3: k=(s->calls&1)?1:want; break;      /* alternate 1 / full        */
  case 4: k=27; break;                       /* header-sized              */
  case 5: k=1+(s->calls*104729UL)%1999; break; /* medium, varying        */
  default: k=want;
  }
  return k<want?k:want;
}

static size_t cb_read(void *ptr,size_t size,size_t nmemb,void *ds){
  src_t *s=ds;
  size_t want=size*nmemb,left=s->in->n-s->pos,n;
  n=frag(s,want);
  s->calls++;
  if(n>left)n=left;
  memcpy(ptr,s->in->d+s->pos,n);
  s->pos+=n;
  errno=0;
  return n;
}
static int cb_seek(void *ds,ogg_int64_t off,int whence){
  src_t *s=ds; ogg_int64_t p;
  switch(whence){
  case SEEK_SET: p=off; break;
  case SEEK_CUR: p=(ogg_int64_t)s->pos+off; break;
  case SEEK_END: p=(ogg_int64_t)s->in->n+off; break;
  default: return -1;
  }
  if(p<0||p>(ogg_int64_t)s->in->n)return -1;
  s->pos=(size_t)p;
  return 0;
}
static long cb_tell(void *ds){ return (long)((src_t *)ds)->pos; }

static int reqlen(int lmode,unsigned long call){
  switch(lmode){
  case 0: return 4096;
  case 1: return 1;
  case 2: return 1+(int)((call*31UL)%97);
  case 3: return (call&1)?3:100000;
  default: return 4096;
  }
}

/* Known behaviour of the UNCHANGED tree (see README, "Defects in the
   unchanged tree"): in streaming mode ov_read_* reports one OV_HOLE at every
   link boundary of an intact chained stream, because the last header page of
   the new link is submitted to the stream state twice.  No audio is lost.  So
   that this program can tell the seeded change from that older problem, exactly
   one OV_HOLE is forgiven in streaming mode when it arrives exactly at a link
   boundary of the reference decode; it is counted in *known_holes. */

/* returns number of error indications; fills pcm */
static int decode_vf(const bytes_t *in,int seekable,int rmode,int lmode,
                     floats_t *pcm,int *links_seen,int *known_holes){
  OggVorbis_File vf; ov_callbacks cb; src_t src;
  int errors=0,bs=-1,lastbs=-1; unsigned long call=0;

  src.in=in; src.pos=0; src.mode=rmode; src.calls=0;
  cb.read_func=cb_read;
  cb.seek_func=seekable?cb_seek:NULL;
  cb.tell_func=seekable?cb_tell:NULL;
  cb.close_func=NULL;
  *links_seen=0;
  *known_holes=0;

  if(ov_open_callbacks(&src,&vf,NULL,0,cb)<0){
    fprintf(stderr,"  open failed (seekable=%d rmode=%d)\n",seekable,rmode);
    return 1000;
  }
  while(1){
    float **p; long r; int i,c,ch;
    r=ov_read_float(&vf,&p,reqlen(lmode,call++),&bs);
    if(r==0)break;
    if(r==OV_HOLE && !seekable){
      int k,known=0;
      for(k=0;k+1<n_link_end;k++)if(pcm->n==link_end[k])known=1;
      if(known){ (*known_holes)++; continue; }
    }
    if(r<0){
      if(errors<5)
        fprintf(stderr,"  ov_read_float returned %ld after %lu floats "
                "(seekable=%d rmode=%d lmode=%d)\n",
                r,(unsigned long)pcm->n,seekable,rmode,lmode);
      if(++errors>50)break;
      continue;
    }
    if(bs!=lastbs){ (*links_seen)++; lastbs=bs; }
    ch=ov_info(&vf,-1)->channels;
    for(i=0;i<r;i++)for(c=0;c<ch;c++)floats_add(pcm,p[c][i]);
  }
  ov_clear(&vf);
  return errors;
}

/* ------------------------------------------------------------------ */

static int compare(const char *what,const floats_t *ref,const floats_t *got){
  size_t i,n=ref->n<got->n?ref->n:got->n;
  for(i=0;i<n;i++)
    if(memcmp(&ref->d[i],&got->d[i],sizeof(float))){
      fprintf(stderr,"  %s: PCM differs at float %lu (%g vs %g); "
              "reference has %lu floats, this run %lu\n",
              what,(unsigned long)i,ref->d[i],got->d[i],
              (unsigned long)ref->n,(unsigned long)got->n);
      return 1;
    }
  if(ref->n!=got->n){
    fprintf(stderr,"  %s: PCM length differs: reference %lu floats, got %lu\n",
            what,(unsigned long)ref->n,(unsigned long)got->n);
    return 1;
  }
  return 0;
}

static int check_stream(const char *name,const bytes_t *in,int nlinks){
  floats_t ref={0,0,0};
  int fail=0,seekable,rmode,lmode,k,forgiven=0;

  printf("%s: %lu bytes, %d link(s)\n",name,(unsigned long)in->n,nlinks);
  if(decode_packets(in,&ref)){
    printf("  packet-level decode reported a hole\n"); fail=1;
  }
  printf("  packet-level reference: %lu floats in %d link(s), links end at",
         (unsigned long)ref.n,n_link_end);
  for(k=0;k<n_link_end;k++)printf(" %lu",(unsigned long)link_end[k]);
  printf("\n");
  if(n_link_end!=nlinks){ printf("  reference saw %d links\n",n_link_end); fail=1; }

  for(seekable=1;seekable>=0;seekable--)
    for(rmode=0;rmode<6;rmode++)
      for(lmode=0;lmode<4;lmode++){
        floats_t got={0,0,0}; char what[100]; int e,links,kh;
        /* keep the run time down: 1-sample requests only with two
           fragmentation schedules */
        if(lmode==1 && rmode!=0 && rmode!=2)continue;
        sprintf(what,"%s rmode=%d lmode=%d",
                seekable?"seekable":"streaming",rmode,lmode);
        e=decode_vf(in,seekable,rmode,lmode,&got,&links,&kh);
        forgiven+=kh;
        if(kh>nlinks-1){
          printf("  %s: %d holes at link boundaries\n",what,kh); fail=1;
        }
        if(links!=nlinks){
          printf("  %s: reported %d links, expected %d\n",what,links,nlinks);
          fail=1;
        }
        if(e){
          printf("  %s: %d error indication(s)\n",what,e); fail=1;
        }
        if(compare(what,&ref,&got)){
          printf("  %s: PCM mismatch\n",what); fail=1;
        }
        free(got.d);
      }
  free(ref.d);
  if(forgiven)
    printf("  note: %d OV_HOLE at streaming link boundaries forgiven "
           "(pre-existing, see README)\n",forgiven);
  printf("  %s\n",fail?"FAIL":"ok");
  return fail;
}


static int holes=0;
static long run(const bytes_t *in,int seekable,int half){
  OggVorbis_File vf; ov_callbacks cb; src_t src; long tot=0; int bs,last=-1;
  src.in=in; src.pos=0; src.mode=0; src.calls=0;
  cb.read_func=cb_read; cb.seek_func=seekable?cb_seek:NULL; cb.tell_func=seekable?cb_tell:NULL; cb.close_func=NULL;
  if(ov_open_callbacks(&src,&vf,NULL,0,cb)<0)return -1;
  if(half)printf("  ov_halfrate -> %d\n",ov_halfrate(&vf,1));
  while(1){ float **p; long r=ov_read_float(&vf,&p,4096,&bs); if(r==0)break; if(r<0){printf("  ret %ld at %ld\n",r,tot);holes++;continue;}
    if(bs!=last){printf("  link %d starts at sample %ld\n",bs,tot);last=bs;} tot+=r; }
  ov_clear(&vf); return tot;
}
int main(void){
  bytes_t s={0,0,0};
  encode_link(&s,1,44100,0.4f,40000,0x3001,31,0);
  encode_link(&s,1,44100,0.4f,30000,0x3002,32,0);
  long a,b,c,d; int bad=0;
  printf("seekable full: %ld\n",a=run(&s,1,0));
  printf("seekable half: %ld\n",b=run(&s,1,1));
  printf("streaming full: %ld\n",c=run(&s,0,0));
  printf("streaming half: %ld\n",d=run(&s,0,1));
  if(holes){printf("VIOLATION: %d hole/error indication(s) on an intact stream\n",holes);bad=1;}
  if(a!=c||b!=d){printf("VIOLATION: streaming and seekable sample counts differ (%ld/%ld full, %ld/%ld half)\n",c,a,d,b);bad=1;}
  free(s.d);
  return bad;
}
