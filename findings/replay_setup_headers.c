/* throwaway replay: crafted setup headers against the real libvorbis */
#include <stdio.h>
#include <stdlib.h>
#include <string.h>
#include <ogg/ogg.h>
#include <vorbis/codec.h>
static void str(oggpack_buffer*o,const char*s){while(*s)oggpack_write(o,*s++,8);}
static void pkt(ogg_packet*op,oggpack_buffer*o,int bos,long no){memset(op,0,sizeof*op);op->packet=oggpack_get_buffer(o);op->bytes=oggpack_bytes(o);op->b_o_s=bos;op->packetno=no;}
/* book kinds */
static void book_simple(oggpack_buffer*o,int dim,int maptype){ /* entries=1, unordered, len 1 */
  oggpack_write(o,0x564342,24);oggpack_write(o,dim,16);oggpack_write(o,1,24);
  oggpack_write(o,0,1);oggpack_write(o,0,1);oggpack_write(o,0,5);
  oggpack_write(o,maptype,4);
  if(maptype){oggpack_write(o,0,32);oggpack_write(o,0,32);oggpack_write(o,0,4);oggpack_write(o,0,1);
    /* quantvals: type1 dim0 ->0 ; type2 -> entries*dim */
    if(maptype==2){int i;for(i=0;i<dim;i++)oggpack_write(o,0,1);} else if(dim>0){oggpack_write(o,0,1);} }
}
static void book_huge(oggpack_buffer*o){ long entries=(1L<<23)-1;
  oggpack_write(o,0x564342,24);oggpack_write(o,1,16);oggpack_write(o,entries,24);
  oggpack_write(o,1,1);oggpack_write(o,21,5); /* length 22 */
  oggpack_write(o,1,23); oggpack_write(o,entries-1,23);
  oggpack_write(o,0,4);
}
int main(int argc,char**argv){
  int mode=atoi(argv[1]); /* 2=F2 hang, 3=F3 div0, 8=F8 stack */
  vorbis_info vi; vorbis_comment vc; vorbis_dsp_state vd; vorbis_block vb; ogg_packet op; oggpack_buffer o; int r;
  vorbis_info_init(&vi); vorbis_comment_init(&vc);
  oggpack_writeinit(&o); oggpack_write(&o,1,8);str(&o,"vorbis");oggpack_write(&o,0,32);oggpack_write(&o,1,8);oggpack_write(&o,44100,32);
  oggpack_write(&o,0,32);oggpack_write(&o,0,32);oggpack_write(&o,0,32);oggpack_write(&o,6,4);oggpack_write(&o,6,4);oggpack_write(&o,1,1);
  pkt(&op,&o,1,0); r=vorbis_synthesis_headerin(&vi,&vc,&op); printf("id %d\n",r); oggpack_writeclear(&o);
  oggpack_writeinit(&o); oggpack_write(&o,3,8);str(&o,"vorbis");oggpack_write(&o,0,32);oggpack_write(&o,0,32);oggpack_write(&o,1,1);
  pkt(&op,&o,0,1); r=vorbis_synthesis_headerin(&vi,&vc,&op); printf("comment %d\n",r); oggpack_writeclear(&o);
  oggpack_writeinit(&o); oggpack_write(&o,5,8);str(&o,"vorbis");
  if(mode==8){ oggpack_write(&o,1,8); book_simple(&o,1,0); book_huge(&o);}
  else { oggpack_write(&o,1,8); book_simple(&o,1,0); book_simple(&o,0,mode==2?1:2);}
  oggpack_write(&o,0,6);oggpack_write(&o,0,16); /* times */
  oggpack_write(&o,0,6);oggpack_write(&o,1,16); /* 1 floor, type 1 */
  oggpack_write(&o,0,5); oggpack_write(&o,0,2); oggpack_write(&o,1,4); /* partitions 0, mult 1, rangebits 1 */
  oggpack_write(&o,0,6);oggpack_write(&o,0,16); /* 1 residue type 0 */
  oggpack_write(&o,0,24);oggpack_write(&o,32,24);oggpack_write(&o,31,24);oggpack_write(&o,0,6);oggpack_write(&o,0,8);
  if(mode==3){oggpack_write(&o,1,3);oggpack_write(&o,0,1);oggpack_write(&o,1,8);} else {oggpack_write(&o,0,3);oggpack_write(&o,0,1);}
  oggpack_write(&o,0,6);oggpack_write(&o,0,16); /* 1 mapping type 0 */
  oggpack_write(&o,0,1);oggpack_write(&o,0,1);oggpack_write(&o,0,2);oggpack_write(&o,0,8);oggpack_write(&o,0,8);oggpack_write(&o,0,8);
  oggpack_write(&o,0,6); oggpack_write(&o,0,1);oggpack_write(&o,0,16);oggpack_write(&o,0,16);oggpack_write(&o,0,8);
  oggpack_write(&o,1,1);
  pkt(&op,&o,0,2); printf("setup bytes %ld\n",op.bytes); r=vorbis_synthesis_headerin(&vi,&vc,&op); printf("setup %d\n",r); oggpack_writeclear(&o);
  if(r)return 2;
  fflush(stdout);
  r=vorbis_synthesis_init(&vd,&vi); printf("init %d\n",r); fflush(stdout); if(r)return 3;
  vorbis_block_init(&vd,&vb);
  oggpack_writeinit(&o); oggpack_write(&o,0,1); /* audio, mode 0 (0 bits) */
  oggpack_write(&o,1,1); oggpack_write(&o,10,8); oggpack_write(&o,10,8); /* floor1 nonzero, two posts */
  oggpack_write(&o,0,1); /* phrasebook entry */ oggpack_write(&o,0,8);oggpack_write(&o,0,8);
  pkt(&op,&o,0,3); r=vorbis_synthesis(&vb,&op); printf("synthesis %d\n",r);
  return 0; }
