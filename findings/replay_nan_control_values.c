#include <stdio.h>
#include <math.h>
#include <string.h>
#include <stdlib.h>
#include <signal.h>
#include <unistd.h>
#include <vorbis/codec.h>
#include <vorbis/vorbisenc.h>
static void on_sig(int s){(void)s;write(1,"DEFECT: fatal signal while encoding\n",36);_exit(1);}
int main(int argc,char**argv){
  vorbis_info vi; vorbis_dsp_state vd; vorbis_block vb; vorbis_comment vc; ogg_packet op,h1,h2,h3; int rc,i,blocks=0;
  double v=NAN;
  int which=argc>1?atoi(argv[1]):0;
  signal(SIGSEGV,on_sig);signal(SIGFPE,on_sig);signal(SIGABRT,on_sig);signal(SIGBUS,on_sig);
  vorbis_info_init(&vi);
  rc=vorbis_encode_setup_vbr(&vi,2,44100,0.4f); if(rc){printf("setup %d\n",rc);return 2;}
  rc=vorbis_encode_ctl(&vi,which?OV_ECTL_IBLOCK_SET:OV_ECTL_LOWPASS_SET,&v); printf("ctl(NaN) -> %d\n",rc);
  rc=vorbis_encode_setup_init(&vi); printf("setup_init -> %d\n",rc); if(rc){vorbis_info_clear(&vi);printf("OK (refused)\n");return 0;}
  vorbis_comment_init(&vc); vorbis_analysis_init(&vd,&vi); vorbis_block_init(&vd,&vb);
  vorbis_analysis_headerout(&vd,&vc,&h1,&h2,&h3);
  for(i=0;i<40;i++){ float **b=vorbis_analysis_buffer(&vd,1024); int j; for(j=0;j<1024;j++){b[0][j]=sinf((i*1024+j)*0.05f)*0.5f;b[1][j]=((rand()%2000)-1000)/3000.f;} vorbis_analysis_wrote(&vd,1024);
    while(vorbis_analysis_blockout(&vd,&vb)==1){ vorbis_analysis(&vb,NULL); vorbis_bitrate_addblock(&vb); while(vorbis_bitrate_flushpacket(&vd,&op))blocks++; } }
  vorbis_analysis_wrote(&vd,0);
  while(vorbis_analysis_blockout(&vd,&vb)==1){ vorbis_analysis(&vb,NULL); vorbis_bitrate_addblock(&vb); while(vorbis_bitrate_flushpacket(&vd,&op))blocks++; }
  printf("encoded %d packets\n",blocks);
  vorbis_block_clear(&vb);vorbis_dsp_clear(&vd);vorbis_comment_clear(&vc);vorbis_info_clear(&vi);
  printf("OK\n");return 0;}
