/* see comment above main() */
#include <stdio.h>
#include <stdlib.h>
#include <string.h>
#include <math.h>
#include <unistd.h>
#include <ogg/ogg.h>
#include <vorbis/codec.h>
#include <vorbis/vorbisenc.h>
#include <vorbis/vorbisfile.h>

typedef struct { unsigned char *d; size_t len, cap, pos; } membuf;

static void mb_add(membuf *m, const void *p, size_t n){
  if(m->len+n>m->cap){
    m->cap=(m->len+n)*2+4096;
    m->d=realloc(m->d,m->cap);
    if(!m->d){perror("realloc");exit(2);}
  }
  memcpy(m->d+m->len,p,n); m->len+=n;
}

static unsigned lcg_state=12345u;
static float lcg(void){
  lcg_state=lcg_state*1664525u+1013904223u;
  return ((lcg_state>>8)&0xffff)/32768.f-1.f;
}

/* encode `seconds` of a deterministic test signal (tone + short noise
   bursts, so that both block sizes occur) and append it to m */
static void encode_link(membuf *m,long rate,double seconds,float q,int serial){
  vorbis_info vi; vorbis_comment vc; vorbis_dsp_state vd; vorbis_block vb;
  ogg_stream_state os; ogg_page og; ogg_packet op,h1,h2,h3;
  long total=(long)(rate*seconds),done=0;
  int eos=0;

  vorbis_info_init(&vi);
  if(vorbis_encode_init_vbr(&vi,1,rate,q)){fprintf(stderr,"encode init failed\n");exit(2);}
  vorbis_comment_init(&vc);
  vorbis_analysis_init(&vd,&vi);
  vorbis_block_init(&vd,&vb);
  ogg_stream_init(&os,serial);
  vorbis_analysis_headerout(&vd,&vc,&h1,&h2,&h3);
  ogg_stream_packetin(&os,&h1);ogg_stream_packetin(&os,&h2);ogg_stream_packetin(&os,&h3);
  while(ogg_stream_flush(&os,&og)){
    mb_add(m,og.header,og.header_len);mb_add(m,og.body,og.body_len);
  }
  while(!eos){
    if(done<total){
      long n=total-done>1024?1024:total-done,i;
      float **buf=vorbis_analysis_buffer(&vd,n);
      for(i=0;i<n;i++){
        long s=done+i;
        double t=(double)s/rate;
        float v=0.4f*(float)sin(2*M_PI*330.0*t);
        /* a 15 ms noise burst every 200 ms */
        if(fmod(t,0.2)<0.015)v+=0.5f*lcg();
        buf[0][i]=v;
      }
      vorbis_analysis_wrote(&vd,n);
      done+=n;
    }else
      vorbis_analysis_wrote(&vd,0);
    while(vorbis_analysis_blockout(&vd,&vb)==1){
      vorbis_analysis(&vb,NULL);
      vorbis_bitrate_addblock(&vb);
      while(vorbis_bitrate_flushpacket(&vd,&op)){
        ogg_stream_packetin(&os,&op);
        while(!eos){
          if(!ogg_stream_pageout(&os,&og))break;
          mb_add(m,og.header,og.header_len);mb_add(m,og.body,og.body_len);
          if(ogg_page_eos(&og))eos=1;
        }
      }
    }
  }
  ogg_stream_clear(&os);vorbis_block_clear(&vb);vorbis_dsp_clear(&vd);
  vorbis_comment_clear(&vc);vorbis_info_clear(&vi);
}

static size_t cb_read(void *ptr,size_t sz,size_t nm,void *ds){
  membuf *m=ds; size_t want=sz*nm,left=m->len-m->pos;
  if(want>left)want=left;
  memcpy(ptr,m->d+m->pos,want); m->pos+=want;
  return sz?want/sz:0;
}
static int cb_seek(void *ds,ogg_int64_t off,int whence){
  membuf *m=ds; ogg_int64_t np;
  if(whence==SEEK_SET)np=off;
  else if(whence==SEEK_CUR)np=(ogg_int64_t)m->pos+off;
  else np=(ogg_int64_t)m->len+off;
  if(np<0||np>(ogg_int64_t)m->len)return -1;
  m->pos=(size_t)np; return 0;
}
static long cb_tell(void *ds){ return (long)((membuf*)ds)->pos; }


/* Reproduction of a defect of the UNCHANGED tree: a chained stream whose first
 * link has all its audio in ONE page (first audio page == EOS page).  After
 * ov_open_callbacks the position is the START OF LINK 1, the whole first link
 * is never delivered by a linear decode, and ov_raw_seek() to that page from
 * inside link 0 does the same.  Build like demo.c.  Exits 1 when the defect
 * shows. */
int main(void){
  membuf m={0}; OggVorbis_File vf; ov_callbacks cb={cb_read,cb_seek,NULL,cb_tell};
  ogg_int64_t L,LA,got=0; long n; float **pcm; int sec,bad=0;
  encode_link(&m, 8000,2.0,0.3f,0x1001);   /* 16000 samples, one audio page */
  encode_link(&m,44100,1.5,0.4f,0x2002);
  if(ov_open_callbacks(&m,&vf,NULL,0,cb)){fprintf(stderr,"open failed\n");return 2;}
  L=ov_pcm_total(&vf,-1); LA=ov_pcm_total(&vf,0);
  printf("links=%ld L=%ld len(link0)=%ld\n",ov_streams(&vf),(long)L,(long)LA);
  printf("ov_pcm_tell right after open: %ld (expected 0)\n",(long)ov_pcm_tell(&vf));
  if(ov_pcm_tell(&vf)!=0)bad=1;
  while((n=ov_read_float(&vf,&pcm,4096,&sec))>0)got+=n;
  printf("linear decode delivered %ld samples (expected %ld)\n",(long)got,(long)L);
  if(got!=L)bad=1;
  ov_pcm_seek(&vf,5);
  printf("ov_pcm_seek(5): tell %ld\n",(long)ov_pcm_tell(&vf));
  ov_clear(&vf); free(m.d);
  return bad;
}
