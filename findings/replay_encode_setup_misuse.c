#include <stdio.h>
#include <stdlib.h>
#include <string.h>
#include <math.h>
#include <vorbis/codec.h>
#include <vorbis/vorbisenc.h>
static int enc(vorbis_info *vi,int ch,long samples,long chunk){
  vorbis_dsp_state vd; vorbis_block vb; vorbis_comment vc; ogg_packet op,h0,h1,h2; long done=0,pk=0; int i;
  if(vorbis_analysis_init(&vd,vi))return 1;
  vorbis_comment_init(&vc); vorbis_block_init(&vd,&vb);
  vorbis_analysis_headerout(&vd,&vc,&h0,&h1,&h2);
  while(done<samples){ long n=samples-done>chunk?chunk:samples-done,j; float **b=vorbis_analysis_buffer(&vd,n);
    for(i=0;i<ch;i++)for(j=0;j<n;j++)b[i][j]=.4f*sinf((done+j)*.02f);
    vorbis_analysis_wrote(&vd,n); done+=n;
    while(vorbis_analysis_blockout(&vd,&vb)==1){vorbis_analysis(&vb,NULL);vorbis_bitrate_addblock(&vb);while(vorbis_bitrate_flushpacket(&vd,&op))pk++;}}
  vorbis_analysis_wrote(&vd,0);
  while(vorbis_analysis_blockout(&vd,&vb)==1){vorbis_analysis(&vb,NULL);vorbis_bitrate_addblock(&vb);while(vorbis_bitrate_flushpacket(&vd,&op))pk++;}
  vorbis_block_clear(&vb);vorbis_dsp_clear(&vd);vorbis_comment_clear(&vc); printf("packets %ld\n",pk); return 0;}
int main(int argc,char**argv){
  int t=atoi(argv[1]); vorbis_info vi; vorbis_info_init(&vi);
  if(t==1){ int r=vorbis_encode_init_vbr(&vi,2,300000,.5f); printf("init %d\n",r); double lp=0; r=vorbis_encode_ctl(&vi,OV_ECTL_LOWPASS_GET,&lp); printf("ctl %d\n",r);}
  if(t==2){ int ch=atoi(argv[2]); int r=vorbis_encode_setup_vbr(&vi,ch,44100,.5f); double lp=NAN; r=vorbis_encode_ctl(&vi,OV_ECTL_LOWPASS_SET,&lp); printf("ctl %d\n",r); r=vorbis_encode_setup_init(&vi); printf("init %d\n",r); enc(&vi,ch,20000,1024); vorbis_info_clear(&vi);}
  if(t==3){ long n=atol(argv[2]); int r=vorbis_encode_init_vbr(&vi,1,44100,.5f); printf("init %d\n",r); enc(&vi,1,n,n); vorbis_info_clear(&vi);}
  if(t==4){ int k=atoi(argv[2]),i; int r=vorbis_encode_setup_vbr(&vi,2,44100,.5f); for(i=0;i<k;i++){r=vorbis_encode_setup_init(&vi); printf("init %d\n",r);} enc(&vi,2,20000,1024); vorbis_info_clear(&vi);}
  return 0;}
