/* replay_D6.c - libvorbisfile: NULL dereference in ov_halfrate_p() /
 * ov_halfrate() after a streaming (non-seekable) chained input failed at a
 * link boundary.
 *
 * When an unseekable stream crosses into a new link, _fetch_and_process_packet()
 * (lib/vorbisfile.c) does vorbis_info_clear(vf->vi) and then fetches the new
 * link's headers into vf->vi.  If that fails (here: the input ends right after
 * the new link's first page) ov_read() returns an error and the handle stays
 * OPENED with vf->vi cleared, i.e. vf->vi->codec_setup==NULL.  The handle is
 * still valid for every accessor, but
 *     ov_halfrate_p(vf) -> vorbis_synthesis_halfrate_p(vf->vi)  and
 *     ov_halfrate(vf,x) -> vorbis_synthesis_halfrate(vf->vi,x)
 * dereference codec_setup without a check (lib/synthesis.c) -> SIGSEGV.
 *
 * The program encodes two one-second links in memory, feeds link 1 plus only
 * the first page of link 2 through read-only callbacks, reads until ov_read()
 * fails, and then runs every public libvorbisfile call once, each in its own
 * child process, reporting which of them die.
 *
 * Build (static libs of the tree under test in $B/lib, headers in $S/include):
 *   gcc -g -fsanitize=address,undefined -I$S/include replay_D6.c \
 *       $B/lib/libvorbisfile.a $B/lib/libvorbisenc.a $B/lib/libvorbis.a \
 *       -logg -lm -o replay_D6
 * Run:  ./replay_D6      exit 0 = no call crashed, 1 = defect
 *
 * Unfixed tree: "ov_halfrate_p CRASH", "ov_halfrate(1) CRASH",
 *               "ov_halfrate(0) CRASH" (ASan: SEGV, NULL codec_setup, in
 *               vorbis_synthesis_halfrate_p, synthesis.c:182), everything else
 *               "ok"; last line "DEFECT: 3 call(s) crashed"; exit 1.
 * Fixed tree:   all lines "ok" (ov_halfrate_p = 0, ov_halfrate = OV_EINVAL),
 *               last line "OK"; exit 0.
 */
#define OV_EXCLUDE_STATIC_CALLBACKS
#include <stdio.h>
#include <stdlib.h>
#include <string.h>
#include <math.h>
#include <unistd.h>
#include <sys/wait.h>
#include <ogg/ogg.h>
#include <vorbis/codec.h>
#include <vorbis/vorbisenc.h>
#include <vorbis/vorbisfile.h>

typedef struct { unsigned char *d; long n, pos; } mem_t;

/* append one page; returns its total length */
static long put(mem_t *m, ogg_page *og){
  m->d = realloc(m->d, m->n + og->header_len + og->body_len);
  memcpy(m->d + m->n, og->header, og->header_len); m->n += og->header_len;
  memcpy(m->d + m->n, og->body, og->body_len);     m->n += og->body_len;
  return og->header_len + og->body_len;
}

/* append one second of 44.1kHz stereo as a complete logical stream;
   returns the length of its first (BOS) page */
static long encode(mem_t *out, int serialno){
  vorbis_info vi; vorbis_comment vc; vorbis_dsp_state vd; vorbis_block vb;
  ogg_stream_state os; ogg_page og; ogg_packet op, h[3]; int i, k, eos = 0; long first = 0;
  vorbis_info_init(&vi);
  if(vorbis_encode_init_vbr(&vi, 2, 44100, .3f)) return -1;
  vorbis_comment_init(&vc);
  vorbis_analysis_init(&vd, &vi); vorbis_block_init(&vd, &vb);
  ogg_stream_init(&os, serialno);
  vorbis_analysis_headerout(&vd, &vc, &h[0], &h[1], &h[2]);
  for(i = 0; i < 3; i++) ogg_stream_packetin(&os, &h[i]);
  while(ogg_stream_flush(&os, &og)){ long l = put(out, &og); if(!first) first = l; }
  for(k = 0; !eos; k++){
    if(k < 43){
      float **buf = vorbis_analysis_buffer(&vd, 1024);
      for(i = 0; i < 1024; i++) buf[0][i] = buf[1][i] = .4f * sin((k*1024 + i) * .05);
      vorbis_analysis_wrote(&vd, 1024);
    }else vorbis_analysis_wrote(&vd, 0);
    while(vorbis_analysis_blockout(&vd, &vb) == 1){
      vorbis_analysis(&vb, NULL); vorbis_bitrate_addblock(&vb);
      while(vorbis_bitrate_flushpacket(&vd, &op)){
        ogg_stream_packetin(&os, &op);
        while(ogg_stream_pageout(&os, &og)){ put(out, &og); if(ogg_page_eos(&og)) eos = 1; }
      }
    }
  }
  ogg_stream_clear(&os); vorbis_block_clear(&vb); vorbis_dsp_clear(&vd);
  vorbis_comment_clear(&vc); vorbis_info_clear(&vi);
  return first;
}

static size_t m_read(void *p, size_t s, size_t n, void *ds){
  mem_t *m = ds; long want = (long)(s*n);
  if(want > m->n - m->pos) want = m->n - m->pos;
  memcpy(p, m->d + m->pos, want); m->pos += want; return want / s;
}

static const char *names[] = {
  "ov_halfrate_p", "ov_halfrate(1)", "ov_halfrate(0)", "ov_info", "ov_comment",
  "ov_bitrate", "ov_bitrate_instant", "ov_time_tell", "ov_pcm_tell/ov_raw_tell",
  "ov_*_total", "ov_serialnumber/streams/seekable", "ov_read", "ov_read_float",
  "ov_*_seek", "ov_*_seek_lap", "ov_clear" };
#define NPROBES ((int)(sizeof names / sizeof *names))

/* runs in a child: bring a fresh handle into the failed state, then make one call */
static void probe(int which, mem_t *m){
  OggVorbis_File vf; ov_callbacks cb = { m_read, NULL, NULL, NULL };
  char pcm[4096]; float **fp; int sec; long r; vorbis_info *vi;
  m->pos = 0;
  if(ov_open_callbacks(m, &vf, NULL, 0, cb)) _exit(3);
  while((r = ov_read(&vf, pcm, sizeof pcm, 0, 2, 1, &sec)) > 0);
  vi = ov_info(&vf, -1);
  if(r >= 0 || !vi || vi->codec_setup){ fprintf(stderr, "failed state not reached (%ld)\n", r); _exit(3); }
  if(which == 0) printf("%-34s (ov_read had returned %ld)\n", "", r);
  printf("%-34s", names[which]); fflush(stdout);
  switch(which){
  case 0: printf(" = %d", ov_halfrate_p(&vf)); break;
  case 1: printf(" = %d", ov_halfrate(&vf, 1)); break;
  case 2: printf(" = %d", ov_halfrate(&vf, 0)); break;
  case 3: printf(" ch=%d rate=%ld bs=%d", vi->channels, vi->rate, vorbis_info_blocksize(vi, 0)); break;
  case 4: printf(" tags=%d", vorbis_comment_query_count(ov_comment(&vf, -1), "TITLE")); break;
  case 5: printf(" = %ld %ld", ov_bitrate(&vf, -1), ov_bitrate(&vf, 0)); break;
  case 6: printf(" = %ld", ov_bitrate_instant(&vf)); break;
  case 7: printf(" = %g", ov_time_tell(&vf)); break;
  case 8: printf(" = %ld %ld", (long)ov_pcm_tell(&vf), (long)ov_raw_tell(&vf)); break;
  case 9: printf(" = %ld %ld %g", (long)ov_raw_total(&vf, -1), (long)ov_pcm_total(&vf, -1), ov_time_total(&vf, -1)); break;
  case 10: printf(" = %ld %ld %ld", ov_serialnumber(&vf, -1), ov_streams(&vf), ov_seekable(&vf)); break;
  case 11: printf(" = %ld", ov_read(&vf, pcm, sizeof pcm, 0, 2, 1, &sec)); break;
  case 12: printf(" = %ld", ov_read_float(&vf, &fp, 1024, &sec)); break;
  case 13: printf(" = %d %d %d %d %d", ov_raw_seek(&vf, 0), ov_pcm_seek(&vf, 0), ov_pcm_seek_page(&vf, 0),
                  ov_time_seek(&vf, 0.), ov_time_seek_page(&vf, 0.)); break;
  case 14: printf(" = %d %d %d", ov_raw_seek_lap(&vf, 0), ov_pcm_seek_lap(&vf, 0), ov_time_seek_lap(&vf, 0.)); break;
  }
  ov_clear(&vf);
  printf("  ok\n"); fflush(stdout);
  _exit(0);
}

int main(void){
  mem_t m = {0, 0, 0}; long l1, p2; int i, crashed = 0;
  if(encode(&m, 1) < 0) return 2;
  l1 = m.n;
  if((p2 = encode(&m, 2)) < 0) return 2;
  m.n = l1 + p2;                     /* the input ends after link 2's first page */
  for(i = 0; i < NPROBES; i++){
    int st; pid_t pid = fork();
    if(pid < 0) return 2;
    if(pid == 0) probe(i, &m);
    waitpid(pid, &st, 0);
    if(WIFEXITED(st) && WEXITSTATUS(st) == 3) return 2;
    if(!WIFEXITED(st) || WEXITSTATUS(st)){ printf("  CRASH\n"); fflush(stdout); crashed++; }
  }
  free(m.d);
  if(crashed) printf("DEFECT: %d call(s) crashed\n", crashed); else puts("OK");
  return crashed ? 1 : 0;
}
