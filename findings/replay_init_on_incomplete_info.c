/* throwaway replay for F23 (C02): vorbis_synthesis_init on a vorbis_info whose headers were not (all) accepted.
   _vds_shared_init returns 1 before it has wiped the caller's vorbis_dsp_state, and vorbis_synthesis_init then calls
   vorbis_dsp_clear on it: with an uninitialised (stack garbage) state that follows wild pointers.
   exit 0: the call returns non-zero and the state can be cleared; exit 1 / crash: the defect shows */
#include <stdio.h>
#include <string.h>
#include <signal.h>
#include <unistd.h>
#include <vorbis/codec.h>
static void on_sig(int s){(void)s;write(1,"DEFECT: fatal signal in vorbis_synthesis_init\n",46);_exit(1);}
int main(void){
  vorbis_info vi; vorbis_dsp_state vd; int r;
  signal(SIGSEGV,on_sig);signal(SIGBUS,on_sig);signal(SIGABRT,on_sig);
  vorbis_info_init(&vi);
  memset(&vd,0xAA,sizeof vd);                 /* what an automatic variable may hold */
  r=vorbis_synthesis_init(&vd,&vi);            /* no header was ever submitted */
  printf("vorbis_synthesis_init on an empty info = %d (must be non-zero)\n",r);
  vorbis_dsp_clear(&vd);
  vorbis_info_clear(&vi);
  printf(r?"OK\n":"WRONG\n");
  return r?0:1;}
