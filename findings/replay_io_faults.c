/* throwaway replay for F9: fault-injecting callbacks over a memory image of a 3-link chain */
#include <stdio.h>
#include <stdlib.h>
#include <string.h>
#include <errno.h>
#include <vorbis/vorbisfile.h>
typedef struct{unsigned char*d;long n,pos;long nread,nseek,ntell;long fread_at,fseek_at,fseekend;int fails;}src;
static size_t rd(void*p,size_t s,size_t m,void*v){src*x=v;long want=s*m;x->nread++;if(x->nread==x->fread_at){x->fails++;errno=EIO;return 0;}errno=0;if(want>x->n-x->pos)want=x->n-x->pos;memcpy(p,x->d+x->pos,want);x->pos+=want;return want;}
static int sk(void*v,ogg_int64_t off,int wh){src*x=v;x->nseek++;if(x->nseek==x->fseek_at||(wh==SEEK_END&&x->fseekend)){x->fails++;if(wh==SEEK_END)x->fseekend=0;return -1;}long np=wh==SEEK_SET?off:wh==SEEK_CUR?x->pos+off:x->n+off;if(np<0||np>x->n)return -1;x->pos=np;return 0;}
static long tl(void*v){src*x=v;x->ntell++;return x->pos;}
int main(int argc,char**argv){FILE*f=fopen(argv[1],"rb");src s;memset(&s,0,sizeof s);s.d=malloc(1<<24);s.n=fread(s.d,1,1<<24,f);fclose(f);
  ov_callbacks cb={rd,sk,NULL,tl};OggVorbis_File vf;int r;
  /* clean */
  r=ov_open_callbacks(&s,&vf,NULL,0,cb);long reads=s.nread,seeks=s.nseek;ogg_int64_t tot=ov_pcm_total(&vf,-1);long links=ov_streams(&vf);
  printf("clean: open=%d links=%ld total=%ld reads=%ld seeks=%ld\n",r,links,(long)tot,reads,seeks);ov_clear(&vf);
  /* A: SEEK_END fails once */
  memset(&s.pos,0,sizeof s-((char*)&s.pos-(char*)&s));s.fseekend=1;
  r=ov_open_callbacks(&s,&vf,NULL,0,cb);printf("A seek(SEEK_END) fails: open=%d fails=%d",r,s.fails);if(!r){printf(" links=%ld total=%ld end=%ld",ov_streams(&vf),(long)ov_pcm_total(&vf,-1),(long)vf.end);ov_clear(&vf);}printf("\n");
  /* B: k-th read fails, one shot */
  {long k,swallowed=0,diff=0;for(k=1;k<=reads;k++){memset(&s.pos,0,sizeof s-((char*)&s.pos-(char*)&s));s.fread_at=k;r=ov_open_callbacks(&s,&vf,NULL,0,cb);
     if(r==0&&s.fails){swallowed++;if(ov_pcm_total(&vf,-1)!=tot||ov_streams(&vf)!=links){diff++;if(diff<4)printf("  B k=%ld: open=0 after failed read; links=%ld total=%ld\n",k,ov_streams(&vf),(long)ov_pcm_total(&vf,-1));}}
     if(r==0)ov_clear(&vf);}
   printf("B: %ld read-fault points; open returned 0 after a failed read at %ld of them; %ld with wrong links/total\n",reads,swallowed,diff);}
  /* C: ov_halfrate with failing seek inside its ov_pcm_seek */
  {memset(&s.pos,0,sizeof s-((char*)&s.pos-(char*)&s));r=ov_open_callbacks(&s,&vf,NULL,0,cb);float**pcm;int bs;ov_read_float(&vf,&pcm,256,&bs);ov_read_float(&vf,&pcm,256,&bs);
   ogg_int64_t before=ov_pcm_tell(&vf);s.fseek_at=s.nseek+1;r=ov_halfrate(&vf,1);printf("C ov_halfrate with first seek failing: ret=%d fails=%d tell before=%ld after=%ld\n",r,s.fails,(long)before,(long)ov_pcm_tell(&vf));ov_clear(&vf);}
  return 0;}
