/* throwaway replay for F26 (C03/C19): lapped seeks on a stream whose short block size is 64.
   vorbis_window() returns NULL for a block of 64 samples (its test `window[W]-1<0` was meant for the half-rate case only),
   and ov_crosslap / the ov_*_seek_lap functions hand the result to _ov_splice, which indexes it.
   The stream is made by encoding a second of audio and rewriting the block-size byte of the identification header
   (byte 28 of the packet) from 0xb8 (256/2048) to 0x86 (64/256), CRC repaired: the headers are legal, the audio decodes
   to noise, which does not matter here.
   exit 0: the lapped seek returns; exit 1: it crashes */
#include <stdio.h>
#include <stdlib.h>
#include <string.h>
#include <math.h>
#include <signal.h>
#include <unistd.h>
#include <vorbis/codec.h>
#include <vorbis/vorbisenc.h>
#include <vorbis/vorbisfile.h>
typedef struct{unsigned char*d;long n,cap,pos;}mem;
static void add(mem*m,const void*p,long n){if(m->n+n>m->cap){m->cap=(m->n+n)*2+4096;m->d=realloc(m->d,m->cap);}memcpy(m->d+m->n,p,n);m->n+=n;}
static size_t rd(void*p,size_t s,size_t k,void*v){mem*m=v;long w=s*k;if(w>m->n-m->pos)w=m->n-m->pos;memcpy(p,m->d+m->pos,w);m->pos+=w;return w;}
static int sk(void*v,ogg_int64_t o,int wh){mem*m=v;long np=wh==SEEK_SET?o:wh==SEEK_CUR?m->pos+o:m->n+o;if(np<0||np>m->n)return -1;m->pos=np;return 0;}
static long tl(void*v){return ((mem*)v)->pos;}
static void on_sig(int s){(void)s;write(1,"DEFECT: fatal signal in a lapped seek\n",38);_exit(1);}
int main(void){
  vorbis_info vi;vorbis_comment vc;vorbis_dsp_state vd;vorbis_block vb;ogg_stream_state os;ogg_page og;ogg_packet op,h1,h2,h3;mem m={0};int i,eos=0;
  vorbis_info_init(&vi);if(vorbis_encode_init_vbr(&vi,2,44100,0.3f))return 2;
  vorbis_comment_init(&vc);vorbis_analysis_init(&vd,&vi);vorbis_block_init(&vd,&vb);ogg_stream_init(&os,77);
  vorbis_analysis_headerout(&vd,&vc,&h1,&h2,&h3);ogg_stream_packetin(&os,&h1);ogg_stream_packetin(&os,&h2);ogg_stream_packetin(&os,&h3);
  while(ogg_stream_flush(&os,&og)){add(&m,og.header,og.header_len);add(&m,og.body,og.body_len);}
  for(i=0;i<44 && !eos;i++){float**b=vorbis_analysis_buffer(&vd,1024);int j;for(j=0;j<1024;j++){b[0][j]=sinf((i*1024+j)*.03f)*.4f;b[1][j]=sinf((i*1024+j)*.05f)*.4f;}
    vorbis_analysis_wrote(&vd,i==43?0:1024);
    while(vorbis_analysis_blockout(&vd,&vb)==1){vorbis_analysis(&vb,NULL);vorbis_bitrate_addblock(&vb);
      while(vorbis_bitrate_flushpacket(&vd,&op)){ogg_stream_packetin(&os,&op);
        while(!eos&&ogg_stream_pageout(&os,&og)){add(&m,og.header,og.header_len);add(&m,og.body,og.body_len);if(ogg_page_eos(&og))eos=1;}}}}
  ogg_stream_clear(&os);vorbis_block_clear(&vb);vorbis_dsp_clear(&vd);vorbis_comment_clear(&vc);vorbis_info_clear(&vi);
  /* first page: 27 header bytes + 1 lacing value, then the 30-byte identification packet */
  if(m.n<60||m.d[26]!=1||m.d[27]!=30||m.d[56]!=0xb8){printf("unexpected stream layout (%d %d %02x)\n",m.d[26],m.d[27],m.d[56]);return 2;}
  m.d[56]=0x86;
  og.header=m.d;og.header_len=28;og.body=m.d+28;og.body_len=30;ogg_page_checksum_set(&og);
  {OggVorbis_File vf;ov_callbacks cb={rd,sk,NULL,tl};char buf[4096];int bs;long r;
   signal(SIGSEGV,on_sig);signal(SIGBUS,on_sig);signal(SIGFPE,on_sig);
   if(ov_open_callbacks(&m,&vf,NULL,0,cb)){printf("open failed\n");return 2;}
   printf("short block size %ld\n",vorbis_info_blocksize(ov_info(&vf,-1),0));
   r=ov_read(&vf,buf,sizeof buf,0,2,1,&bs);printf("ov_read -> %ld\n",r);
   r=ov_raw_seek_lap(&vf,0);printf("ov_raw_seek_lap(0) -> %ld\n",r);
   r=ov_pcm_seek_lap(&vf,2000);printf("ov_pcm_seek_lap(2000) -> %ld\n",r);
   r=ov_read(&vf,buf,sizeof buf,0,2,1,&bs);printf("ov_read -> %ld\n",r);
   ov_clear(&vf);}
  free(m.d);
  printf("OK\n");return 0;}
