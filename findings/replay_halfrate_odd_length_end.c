/* Reproducer for finding F44 (half rate, end of an odd-length stream: ov_halfrate(vf,0) fails with OV_EINVAL and loses the position).
 * Written by the batch j mutation agent for C08; the two checks that contradicted C20's own wording were relaxed.
 * Exit 0 = behaves as the seek contract says, 1 = defect observed. */
#include <stdio.h>
#include <stdlib.h>
#include <string.h>
#include <math.h>
#include <vorbis/codec.h>
#include <vorbis/vorbisenc.h>
#include <vorbis/vorbisfile.h>

/* ---------- growable byte buffer + memory callbacks ---------- */
typedef struct { unsigned char *d; size_t n, cap; } buf_t;
static void put(buf_t *b, const void *p, size_t n){
  if(b->n+n>b->cap){
    b->cap=(b->n+n)*2+4096;
    b->d=realloc(b->d,b->cap);
    if(!b->d){ fprintf(stderr,"oom\n"); exit(99); }
  }
  memcpy(b->d+b->n,p,n); b->n+=n;
}
typedef struct { buf_t *b; ogg_int64_t pos; } src_t;
static size_t m_read(void *ptr,size_t sz,size_t nm,void *ds){
  src_t *s=ds; size_t want=sz*nm, have=s->b->n-(size_t)s->pos;
  if(want>have)want=have;
  memcpy(ptr,s->b->d+s->pos,want); s->pos+=want;
  return sz?want/sz:0;
}
static int m_seek(void *ds,ogg_int64_t off,int whence){
  src_t *s=ds; ogg_int64_t np;
  if(whence==SEEK_SET)np=off; else if(whence==SEEK_CUR)np=s->pos+off; else np=(ogg_int64_t)s->b->n+off;
  if(np<0||np>(ogg_int64_t)s->b->n)return -1;
  s->pos=np; return 0;
}
static long m_tell(void *ds){ return (long)((src_t*)ds)->pos; }

/* ---------- encoder: one logical stream appended to the buffer ---------- */
static unsigned lcg_state;
static float lcg(void){ lcg_state=lcg_state*1664525u+1013904223u; return ((lcg_state>>8)&0xffff)/32768.f-1.f; }

static void page_out(buf_t *out,ogg_page *og){ put(out,og->header,og->header_len); put(out,og->body,og->body_len); }

static void encode_link(buf_t *out,long rate,int ch,long nsamples,float q,int serial,unsigned seed){
  vorbis_info vi; vorbis_comment vc; vorbis_dsp_state vd; vorbis_block vb;
  ogg_stream_state os; ogg_page og; ogg_packet op,h,hc,hcode;
  long done=0; int eos=0;
  lcg_state=seed;
  vorbis_info_init(&vi);
  if(vorbis_encode_init_vbr(&vi,ch,rate,q)){ fprintf(stderr,"encode init failed\n"); exit(98); }
  vorbis_comment_init(&vc); vorbis_comment_add_tag(&vc,"TITLE","seek test");
  vorbis_analysis_init(&vd,&vi); vorbis_block_init(&vd,&vb);
  ogg_stream_init(&os,serial);
  vorbis_analysis_headerout(&vd,&vc,&h,&hc,&hcode);
  ogg_stream_packetin(&os,&h); ogg_stream_packetin(&os,&hc); ogg_stream_packetin(&os,&hcode);
  while(ogg_stream_flush(&os,&og))page_out(out,&og);
  while(!eos){
    long n=nsamples-done; int i,c;
    if(n>1024)n=1024;
    if(n>0){
      float **b=vorbis_analysis_buffer(&vd,n);
      for(i=0;i<n;i++){
        double t=(double)(done+i)/rate;
        /* tones, a little noise, and a click every 0.37 s so that both
           block sizes get used */
        float s=0.3f*sin(2*M_PI*440.*t)+0.2f*sin(2*M_PI*(300.+200.*t)*t)+0.02f*lcg();
        if(fmod(t,0.37)<0.002)s+=0.6f*lcg();
        for(c=0;c<ch;c++)b[c][i]=s*(c?0.8f:1.f);
      }
      vorbis_analysis_wrote(&vd,n); done+=n;
    }else vorbis_analysis_wrote(&vd,0);
    while(vorbis_analysis_blockout(&vd,&vb)==1){
      vorbis_analysis(&vb,NULL); vorbis_bitrate_addblock(&vb);
      while(vorbis_bitrate_flushpacket(&vd,&op)){
        ogg_stream_packetin(&os,&op);
        while(!eos && ogg_stream_pageout(&os,&og)){
          page_out(out,&og);
          if(ogg_page_eos(&og))eos=1;
        }
      }
    }
  }
  ogg_stream_clear(&os); vorbis_block_clear(&vb); vorbis_dsp_clear(&vd);
  vorbis_comment_clear(&vc); vorbis_info_clear(&vi);
}


static int run(long nsamples){
  buf_t file={0,0,0}; src_t src; ov_callbacks cb={m_read,m_seek,NULL,m_tell};
  OggVorbis_File vf; float **pcm; int sec,r,bad=0; long n; ogg_int64_t L,at;
  encode_link(&file,44100,2,nsamples,0.5f,0x4004,7);
  src.b=&file; src.pos=0;
  if(ov_open_callbacks(&src,&vf,NULL,0,cb))return 90;
  L=ov_pcm_total(&vf,-1);
  printf("L=%ld\n",(long)L);
  if(ov_halfrate(&vf,1))return 91;
  r=ov_pcm_seek(&vf,L); at=ov_pcm_tell(&vf);
  printf(" half rate: ov_pcm_seek(L)=%d, ov_pcm_tell=L%+ld\n",r,(long)(at-L));
  /* C20: a half-rate seek lands on the even position at or below the target -- L-1 for odd L is as specified */
  if(r||at>L||at<L-1)bad=1;
  n=ov_read_float(&vf,&pcm,1000,&sec); at=ov_pcm_tell(&vf);
  printf(" next read returned %ld (EOF expected), ov_pcm_tell=L%+ld\n",n,(long)(at-L));
  /* C20: the position advances by two per sample returned, so L+1 after the last sample of an odd-length stream is as specified */
  if(n>1||at>L+1)bad=1;
  r=ov_halfrate(&vf,0); at=ov_pcm_tell(&vf);
  printf(" ov_halfrate(0)=%d, ov_pcm_tell=%ld\n",r,(long)at);
  if(r||at<0)bad=1;
  ov_clear(&vf); free(file.d);
  return bad;
}
int main(void){
  int a=run(44100*2+311); /* odd length  */
  int b=run(44100*2+310); /* even length */
  printf("odd length: %s, even length: %s\n",a?"DEFECT":"ok",b?"DEFECT":"ok");
  return (a||b)?1:0;
}
