/* unchanged_tree_defects.c - reproduces, on the UNCHANGED tree, two call
 * histories after which ov_raw_seek succeeds but the reported position does
 * not match the audio delivered (property C07).  Not part of the seeded change.
 *
 * Build:
 *   gcc -g -I<tree>/include unchanged_tree_defects.c <build>/lib/libvorbisfile.a \
 *       <build>/lib/libvorbisenc.a <build>/lib/libvorbis.a -logg -lm -o udef
 * Prints one line per case; exit status = number of cases that violate C07.
 */
#include <stdio.h>
#include <stdlib.h>
#include <string.h>
#include <math.h>
#include <unistd.h>
#include <vorbis/codec.h>
#include <vorbis/vorbisenc.h>
#include <vorbis/vorbisfile.h>

typedef struct { unsigned char *d; long len, cap; } buf_t;
static void buf_add(buf_t *b, const void *p, long n){
  if(b->len+n>b->cap){ b->cap=(b->len+n)*2+4096; b->d=realloc(b->d,b->cap); }
  memcpy(b->d+b->len,p,n); b->len+=n;
}
static unsigned lcg=12345;
static float rnd(void){ lcg=lcg*1103515245u+12345u; return ((lcg>>8)&0xffff)/32768.f-1.f; }

/* encode one link; *firstdata / *lastdata receive the byte offsets of its
   first and last audio page */
static void encode_link(buf_t *out,int serial,long rate,int ch,long nsamp,float q,long *firstdata,long *lastdata){
  vorbis_info vi; vorbis_comment vc; vorbis_dsp_state vd; vorbis_block vb;
  ogg_stream_state os; ogg_page og; ogg_packet op; long done=0; int eos=0;
  *firstdata=-1;
  vorbis_info_init(&vi);
  if(vorbis_encode_init_vbr(&vi,ch,rate,q))exit(2);
  vorbis_comment_init(&vc); vorbis_analysis_init(&vd,&vi); vorbis_block_init(&vd,&vb);
  ogg_stream_init(&os,serial);
  { ogg_packet h,hc,hb; vorbis_analysis_headerout(&vd,&vc,&h,&hc,&hb);
    ogg_stream_packetin(&os,&h); ogg_stream_packetin(&os,&hc); ogg_stream_packetin(&os,&hb);
    while(ogg_stream_flush(&os,&og)){ buf_add(out,og.header,og.header_len); buf_add(out,og.body,og.body_len);} }
  while(!eos){
    long n=nsamp-done; if(n>1024)n=1024;
    if(n==0) vorbis_analysis_wrote(&vd,0);
    else{ float **b=vorbis_analysis_buffer(&vd,n); long i; int c;
      for(i=0;i<n;i++){ long t=done+i; for(c=0;c<ch;c++){
        float v=0.3f*sinf(t*0.05f*(c+1)+serial)+0.05f*rnd(); if((t%5000)<40) v+=0.6f*rnd(); b[c][i]=v; } }
      vorbis_analysis_wrote(&vd,n); done+=n; }
    while(vorbis_analysis_blockout(&vd,&vb)==1){
      vorbis_analysis(&vb,NULL); vorbis_bitrate_addblock(&vb);
      while(vorbis_bitrate_flushpacket(&vd,&op)){
        ogg_stream_packetin(&os,&op);
        while(!eos){
          if(!ogg_stream_pageout(&os,&og))break;
          if(*firstdata<0)*firstdata=out->len;
          *lastdata=out->len;
          buf_add(out,og.header,og.header_len); buf_add(out,og.body,og.body_len);
          if(ogg_page_eos(&og))eos=1;
        } } } }
  ogg_stream_clear(&os); vorbis_block_clear(&vb); vorbis_dsp_clear(&vd);
  vorbis_comment_clear(&vc); vorbis_info_clear(&vi);
}

typedef struct { buf_t *b; long pos; } mem_t;
static size_t m_read(void *p,size_t s,size_t n,void *ds){ mem_t *m=ds; long want=(long)(s*n);
  if(want>m->b->len-m->pos)want=m->b->len-m->pos; if(want<0)want=0;
  memcpy(p,m->b->d+m->pos,want); m->pos+=want; return (size_t)want; }
static int m_seek(void *ds,ogg_int64_t off,int wh){ mem_t *m=ds; long np;
  np=(long)(wh==SEEK_SET?off:wh==SEEK_CUR?m->pos+off:m->b->len+off);
  if(np<0||np>m->b->len)return -1; m->pos=np; return 0; }
static long m_tell(void *ds){ return ((mem_t*)ds)->pos; }
static ov_callbacks cbs={m_read,m_seek,NULL,m_tell};

static float *ref; static int *reflink; static long reftotal;
static void make_ref(buf_t *b){
  mem_t m; OggVorbis_File vf; long pos=0; m.b=b; m.pos=0;
  if(ov_open_callbacks(&m,&vf,NULL,0,cbs))exit(2);
  reftotal=(long)ov_pcm_total(&vf,-1);
  ref=malloc((reftotal+1)*sizeof(*ref)); reflink=malloc((reftotal+1)*sizeof(*reflink));
  while(1){ float **pcm; int bs; long i,n=ov_read_float(&vf,&pcm,4096,&bs); if(n<=0)break;
    for(i=0;i<n&&pos+i<reftotal;i++){ ref[pos+i]=pcm[0][i]; reflink[pos+i]=bs; } pos+=n; }
  if(pos!=reftotal){ printf("linear decode delivered %ld of %ld\n",pos,reftotal); exit(2); }
  ov_clear(&vf);
}
/* returns 1 when what follows the seek contradicts the reported position */
static int check_read(OggVorbis_File *vf,long want,const char *ctx){
  while(want>0){ float **pcm; int bs; long i,n; long t=(long)ov_pcm_tell(vf),t2;
    n=ov_read_float(vf,&pcm,want>4096?4096:(int)want,&bs); t2=(long)ov_pcm_tell(vf);
    if(n<0){ printf("  VIOLATION %s: read error %ld at %ld\n",ctx,n,t); return 1; }
    if(n==0){ if(t!=reftotal){ printf("  VIOLATION %s: EOF at %ld, total %ld\n",ctx,t,reftotal); return 1;} return 0; }
    if(t<0||t+n>reftotal){ printf("  VIOLATION %s: position %ld, then %ld more samples were delivered; total is %ld\n",ctx,t,n,reftotal); return 1; }
    if(t2!=t+n){ printf("  VIOLATION %s: position %ld -> %ld for %ld samples\n",ctx,t,t2,n); return 1; }
    for(i=0;i<n;i++) if(pcm[0][i]!=ref[t+i]||bs!=reflink[t+i]){
      printf("  VIOLATION %s: sample/link at reported position %ld differ from the uninterrupted decode (link %d, expected %d)\n",ctx,t+i,bs,reflink[t+i]); return 1; }
    want-=n; }
  return 0;
}

int main(void){
  int bad=0; alarm(50);

  /* ---- U1: byte seek into the last page of the link the decoder is in ---- */
  { buf_t b={0,0,0}; long f0,l0,f1,l1,f2,l2,link1_start; mem_t m; OggVorbis_File vf; int ret; long pos;
    encode_link(&b,1001,44100,2,60000,0.3f,&f0,&l0); link1_start=b.len;
    encode_link(&b,1002,44100,2,30000,0.3f,&f1,&l1);
    encode_link(&b,1003,44100,2,50000,0.3f,&f2,&l2);
    make_ref(&b);
    m.b=&b; m.pos=0; if(ov_open_callbacks(&m,&vf,NULL,0,cbs))return 2;
    pos=l0+1;                 /* one byte past the start of link 0's last page */
    printf("U1: 3 links, link 0 occupies bytes 0..%ld, its last page starts at %ld\n",link1_start,l0);
    /* control: the decoder is in link 2 when the same byte seek is made */
    ret=ov_pcm_seek(&vf,reftotal-20000); check_read(&vf,1000,"U1 control set-up");
    ret=ov_raw_seek(&vf,pos);
    printf(" control  (from link 2) ov_raw_seek(%ld) -> %d, ov_pcm_tell=%ld\n",pos,ret,(long)ov_pcm_tell(&vf));
    if(!ret && check_read(&vf,5000,"U1 control")){ printf("  (unexpected)\n"); bad++; }
    /* the history that goes wrong: read in link 0 first */
    ret=ov_pcm_seek(&vf,1000); check_read(&vf,1000,"U1 set-up");
    ret=ov_raw_seek(&vf,pos);
    printf(" history  (from link 0) ov_raw_seek(%ld) -> %d, ov_pcm_tell=%ld (total %ld)\n",pos,ret,(long)ov_pcm_tell(&vf),reftotal);
    if(!ret) bad+=check_read(&vf,5000,"U1");
    ov_clear(&vf); free(b.d); free(ref); free(reflink);
  }

  /* ---- U2: byte seek to the only audio page of a one-page link that is not link 0 ---- */
  { buf_t b={0,0,0}; long f0,l0,f1,l1,f2,l2; mem_t m; OggVorbis_File vf; int ret; long start1;
    encode_link(&b,2001,44100,2,60000,0.3f,&f0,&l0);
    encode_link(&b,2002,22050,1,1500,0.5f,&f1,&l1);      /* 1500 samples: one audio page */
    encode_link(&b,2003,44100,2,50000,0.3f,&f2,&l2);
    make_ref(&b);
    m.b=&b; m.pos=0; if(ov_open_callbacks(&m,&vf,NULL,0,cbs))return 2;
    start1=(long)ov_pcm_total(&vf,0);
    printf("U2: link 1 has %ld samples on %s audio page (byte %ld); it starts at sample %ld\n",
           (long)ov_pcm_total(&vf,1),f1==l1?"one":"several",f1,start1);
    ret=ov_raw_seek(&vf,f1);
    printf(" ov_raw_seek(%ld) -> %d, ov_pcm_tell=%ld (link 1 starts at %ld)\n",f1,ret,(long)ov_pcm_tell(&vf),start1);
    if(!ret) bad+=check_read(&vf,5000,"U2");
    ov_clear(&vf); free(b.d); free(ref); free(reflink);
  }
  printf("%d case(s) violate C07\n",bad);
  return bad;
}
