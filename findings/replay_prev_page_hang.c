/* replay_D4.c - endless loop in lib/vorbisfile.c _get_prev_page_serial() and
 * its sibling _get_prev_page() when the data source runs dry.
 *
 * Both functions search backwards ("begin-=CHUNKSIZE; if(begin<0)begin=0;")
 * until they have seen a page.  If the read callback reports end of data
 * (returns 0, errno 0) although seek/tell promised more - a file truncated
 * under us, a network source that died - nothing is ever found, begin stays 0
 * and the outer while(offset==-1) spins forever re-reading offset 0.
 *
 *  S1  ov_open_callbacks(): the source is cut to 0 bytes right after the
 *      library asked for its length (seek(0,SEEK_END)/tell).
 *      -> _open_seekable2 -> _get_prev_page_serial never returns.
 *  S2  ov_pcm_seek_page() on a successfully opened handle whose source dies
 *      after k more read calls, k=0..119.  The target sits behind a page that
 *      holds only the tail of a packet begun on the previous page, so the seek
 *      has to call _get_prev_page; if the source dies right there -> hang.
 *
 * Each attempt runs in a forked child under alarm().  "replay_D4 1 0" or
 * "replay_D4 2 44" runs a single attempt without fork (for gdb).
 *
 * build: gcc -g replay_D4.c -I$T/include $B/lib/libvorbisfile.a \
 *            $B/lib/libvorbisenc.a $B/lib/libvorbis.a -logg -lm -o replay_D4
 * before the fix:  "S1 ... HANG" and "S2 ... HANG (k=..)", exit status 1
 * after the fix:   "S1 ... returned -137" (OV_EBADLINK), "S2 ... no hang",
 *                  exit status 0
 */
#include <stdio.h>
#include <stdlib.h>
#include <string.h>
#include <math.h>
#include <errno.h>
#include <unistd.h>
#include <sys/wait.h>
#include <vorbis/codec.h>
#include <vorbis/vorbisenc.h>
#include <vorbis/vorbisfile.h>

static unsigned char *buf; static size_t blen, bcap;
static ogg_int64_t big_gp=-1;          /* granulepos of the page-spanning packet */

static void put(ogg_page *og){
  size_t n=og->header_len+og->body_len;
  if(blen+n>bcap){ bcap=(blen+n)*2; buf=realloc(buf,bcap); }
  memcpy(buf+blen,og->header,og->header_len);
  memcpy(buf+blen+og->header_len,og->body,og->body_len); blen+=n;
}

/* 3 s of mono noise+tone; audio packet #60 is padded with zero bytes (ignored
   by the decoder) to 66000 bytes so that it must span two pages, and the page
   stream is flushed behind it: page A = first 255 segments (granulepos -1),
   page B = the tail of that packet only (granulepos set). */
static void encode(void){
  vorbis_info vi; vorbis_comment vc; vorbis_dsp_state vd; vorbis_block vb;
  ogg_stream_state os; ogg_page og; ogg_packet op,h[3];
  static unsigned char pad[66000];
  long done=0,total=44100L*3; int i,eos=0,npkt=0;
  vorbis_info_init(&vi); vorbis_encode_init_vbr(&vi,1,44100,0.3f);
  vorbis_comment_init(&vc); vorbis_analysis_init(&vd,&vi); vorbis_block_init(&vd,&vb);
  ogg_stream_init(&os,0x1234);
  vorbis_analysis_headerout(&vd,&vc,&h[0],&h[1],&h[2]);
  for(i=0;i<3;i++)ogg_stream_packetin(&os,&h[i]);
  while(ogg_stream_flush(&os,&og))put(&og);
  srand(1);
  while(!eos){
    if(done<total){
      float **b=vorbis_analysis_buffer(&vd,1024);
      for(i=0;i<1024;i++)
        b[0][i]=0.5f*sinf((done+i)*0.05f)+0.2f*((rand()%2000)/1000.f-1.f);
      vorbis_analysis_wrote(&vd,1024); done+=1024;
    }else vorbis_analysis_wrote(&vd,0);
    while(vorbis_analysis_blockout(&vd,&vb)==1){
      vorbis_analysis(&vb,NULL); vorbis_bitrate_addblock(&vb);
      while(vorbis_bitrate_flushpacket(&vd,&op)){
        int big=(++npkt==60);
        if(big){
          memcpy(pad,op.packet,op.bytes); op.packet=pad; op.bytes=sizeof pad;
          big_gp=op.granulepos;
        }
        ogg_stream_packetin(&os,&op);
        while(!eos && (big?ogg_stream_flush(&os,&og):ogg_stream_pageout(&os,&og))){
          put(&og); if(ogg_page_eos(&og))eos=1;
        }
      }
    }
  }
  ogg_stream_clear(&os); vorbis_block_clear(&vb); vorbis_dsp_clear(&vd);
  vorbis_comment_clear(&vc); vorbis_info_clear(&vi);
}

/* in-memory data source: 'size' is what seek/tell report, 'avail' is what read
   can actually deliver, 'budget' the number of read calls left (-1: no limit) */
typedef struct { size_t size,avail,pos; int cut_after_seek_end; long budget; } src_t;
static size_t rd(void *p,size_t sz,size_t n,void *d){
  src_t *s=d; size_t want=sz*n,have=s->pos<s->avail?s->avail-s->pos:0;
  errno=0;
  if(s->budget==0)return 0;
  if(s->budget>0)s->budget--;
  if(want>have)want=have;
  memcpy(p,buf+s->pos,want); s->pos+=want; return want;
}
static int sk(void *d,ogg_int64_t off,int wh){
  src_t *s=d;
  ogg_int64_t np=off+(wh==SEEK_CUR?(ogg_int64_t)s->pos:wh==SEEK_END?(ogg_int64_t)s->size:0);
  if(np<0||np>(ogg_int64_t)s->size)return -1;
  if(wh==SEEK_END && s->cut_after_seek_end)s->avail=0;   /* truncated under us */
  s->pos=np; return 0;
}
static long tl(void *d){ return ((src_t*)d)->pos; }
static const ov_callbacks cb={rd,sk,NULL,tl};

/* one attempt; the caller has armed the alarm */
static int attempt(int scenario,long k){
  OggVorbis_File vf; src_t s={blen,blen,0,scenario==1,-1}; int r;
  r=ov_open_callbacks(&s,&vf,NULL,0,cb);
  if(scenario==2){
    if(r)return -200;                       /* the intact stream must open */
    s.budget=k;
    r=ov_pcm_seek_page(&vf,big_gp+1);
  }
  return r;
}

/* run one attempt in a child; returns 1 if it had to be killed by the alarm */
static int hangs(int scenario,long k,int *code){
  int st; pid_t pid;
  fflush(stdout);
  if(!(pid=fork())){
    alarm(scenario==1?3:1);
    _exit(-attempt(scenario,k)&0xff);       /* OV_* codes are 0..-138 */
  }
  waitpid(pid,&st,0);
  if(WIFSIGNALED(st))return 1;
  *code=WEXITSTATUS(st); return 0;
}

int main(int argc,char **argv){
  int defect=0,code=0; long k;
  encode();
  if(argc==3){                              /* "replay_D4 2 44": one attempt, */
    alarm(3);                               /* no fork (for a debugger)       */
    printf("returned %d\n",attempt(atoi(argv[1]),atol(argv[2]))); return 0;
  }
  printf("stream: %lu bytes, page-spanning packet ends at granulepos %ld\n",
         (unsigned long)blen,(long)big_gp);

  if(hangs(1,0,&code)){ printf("S1 open on a source that ran dry: HANG (killed by alarm)\n"); defect=1; }
  else printf("S1 open on a source that ran dry: returned %d\n",-code);

  if(hangs(2,-1,&code)||code){ printf("S2 setup problem: seek on the intact source failed (%d)\n",code); return 2; }
  for(k=0;k<120;k++)
    if(hangs(2,k,&code)){ printf("S2 ov_pcm_seek_page, source dies after %ld reads: HANG (k=%ld)\n",k,k); defect=1; break; }
    else if(code==200){ printf("S2 setup problem: open failed\n"); return 2; }
  if(k==120)printf("S2 ov_pcm_seek_page, source dying after 0..119 reads: no hang\n");

  puts(defect?"DEFECT: backward page search does not terminate":"OK");
  return defect;
}
