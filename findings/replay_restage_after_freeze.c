/* unchanged_defects.c - two defects of the UNCHANGED tree that violate C15.
 * They need a sanitizer build of the library to become visible:
 *
 *   cmake -S <tree> -B <san> -G Ninja -DCMAKE_BUILD_TYPE=Debug \
 *     -DCMAKE_C_FLAGS="-fsanitize=address,undefined -fno-sanitize=shift -fno-sanitize-recover=undefined -g -O1"
 *   ninja -C <san>
 *   gcc -g -fsanitize=address,undefined -I<tree>/include unchanged_defects.c \
 *       <san>/lib/libvorbisenc.a <san>/lib/libvorbis.a -logg -lm -o ud
 *   ./ud 1      # defect A
 *   ./ud 2      # defect B
 * (-fno-sanitize=shift only silences the long known "left shift of negative
 *  value" in _vp_psy_init, psy.c:319, which otherwise stops every run.)
 */
#include <stdio.h>
#include <stdlib.h>
#include <math.h>
#include <vorbis/codec.h>
#include <vorbis/vorbisenc.h>

static unsigned long long rng = 12345;
static float rnd(void){
  rng = rng * 6364136223846793005ULL + 1442695040888963407ULL;
  return (float)((rng >> 33) & 0xffff) / 32768.f - 1.f;
}

static long encode(vorbis_info *vi, int ch, long frames){
  vorbis_dsp_state vd; vorbis_block vb; vorbis_comment vc;
  ogg_packet op, h0, h1, h2;
  long total = 0, done = 0;
  int r, c, i;
  if((r = vorbis_analysis_init(&vd, vi))){ printf("analysis_init %d\n", r); return -1; }
  vorbis_comment_init(&vc);
  vorbis_block_init(&vd, &vb);
  printf("headerout %d\n", vorbis_analysis_headerout(&vd, &vc, &h0, &h1, &h2));
  while(done <= frames){
    int n = done < frames ? 1024 : 0;
    if(n){
      float **b = vorbis_analysis_buffer(&vd, n);
      for(c = 0; c < ch; c++)
        for(i = 0; i < n; i++)
          b[c][i] = (((done + i) / 3000) & 1) ? .8f * rnd() : .0008f * rnd();
    }
    vorbis_analysis_wrote(&vd, n);
    done += n ? n : frames + 1;
    while(vorbis_analysis_blockout(&vd, &vb) == 1){
      vorbis_analysis(&vb, NULL);
      vorbis_bitrate_addblock(&vb);
      while(vorbis_bitrate_flushpacket(&vd, &op)) total += op.bytes;
    }
  }
  vorbis_block_clear(&vb); vorbis_dsp_clear(&vd); vorbis_comment_clear(&vc);
  return total;
}

int main(int argc, char **argv){
  int t = argc > 1 ? atoi(argv[1]) : 1, r;
  vorbis_info vi;
  vorbis_info_init(&vi);
  if(t == 1){
    /* A: the staging calls ignore set_in_stone.  After a completed stereo
       set-up, vorbis_encode_setup_vbr(1 channel) returns 0 and re-stamps
       vi->channels=1 although the frozen tables (coupling step 0<->1) are
       for two channels; analysis then indexes channel 1 of a 1-channel
       block. */
    r = vorbis_encode_init_vbr(&vi, 2, 44100, .1f);  printf("init_vbr(2ch) %d\n", r);
    r = vorbis_encode_setup_vbr(&vi, 1, 44100, .1f); printf("setup_vbr(1ch) %d, vi.channels=%d\n", r, vi.channels);
    printf("bytes %ld\n", encode(&vi, 1, 50000));
  }else{
    /* B: OV_ECTL_RATEMANAGE2_SET accepts a NaN reservoir bias (both range
       tests compare false); vorbis_bitrate_init converts reservoir*NaN to
       long (undefined), and vorbis_bitrate_addblock overflows on it. */
    struct ovectl_ratemanage2_arg a;
    r = vorbis_encode_setup_managed(&vi, 2, 44100, 64000, 64000, 64000); printf("setup_managed %d\n", r);
    r = vorbis_encode_ctl(&vi, OV_ECTL_RATEMANAGE2_GET, &a);             printf("get %d\n", r);
    a.bitrate_limit_reservoir_bias = NAN;
    r = vorbis_encode_ctl(&vi, OV_ECTL_RATEMANAGE2_SET, &a);             printf("set(bias=NaN) %d\n", r);
    r = vorbis_encode_setup_init(&vi);                                   printf("setup_init %d\n", r);
    printf("bytes %ld\n", encode(&vi, 2, 200000));
  }
  vorbis_info_clear(&vi);
  return 0;
}
