/* demo.c - C09: "opening a chained file accounts for every link and every
 * sample".
 *
 * Build (against either tree):
 *   gcc -g -I<tree>/include demo.c <build>/lib/libvorbisfile.a \
 *       <build>/lib/libvorbisenc.a <build>/lib/libvorbis.a -logg -lm -o demo
 *
 * Exit status 0: every scenario satisfied the property.
 * Exit status 1: some scenario violated it (the details are printed).
 *
 * What it does: encodes a handful of logical Vorbis streams in memory
 * (different channel counts, rates, lengths, comments, serial numbers),
 * re-paginates them in a few ways, concatenates them into chained physical
 * streams, opens each chain through ov_open_callbacks on a seekable memory
 * source and checks
 *   - ov_streams, and per link ov_info channels/rate, ov_comment,
 *     ov_serialnumber, ov_pcm_total, ov_time_total, and the grand totals,
 *   - that ov_read_float from the start delivers, with no negative return
 *     value, exactly the samples of link 0, link 1, ... in order, each
 *     bit-identical to a reference decode of that link alone done directly
 *     with libogg + libvorbis (no vorbisfile involved).
 * Everything is deterministic (fixed LCG noise, fixed serial numbers).
 *
 * The seeded change makes _bisect_forward_serialno measure the initial
 * granule offset of links 1..k-1 with the codec setup of link 0.  It shows
 * in the chains whose first link has smaller block sizes than a later one
 * ("D E F A", "C A"): ov_pcm_total / ov_time_total of the later link and the
 * grand total come out too small, while the chains that start with a
 * 44.1/48 kHz link still pass.
 *
 * `demo --known-defects` additionally runs two scenarios that already fail on
 * the UNCHANGED tree (see README.md); they are not part of the default run.
 */
#include <stdio.h>
#include <stdlib.h>
#include <string.h>
#include <math.h>
#include <unistd.h>
#include <ogg/ogg.h>
#include <vorbis/codec.h>
#include <vorbis/vorbisenc.h>
#include <vorbis/vorbisfile.h>

/* ---------------------------------------------------------------- util */

typedef struct { unsigned char *d; size_t n, cap; } buf_t;

static void buf_add(buf_t *b, const void *p, size_t n){
  if(b->n+n>b->cap){
    b->cap=(b->n+n)*2+1024;
    b->d=realloc(b->d,b->cap);
    if(!b->d){ fprintf(stderr,"oom\n"); exit(3); }
  }
  memcpy(b->d+b->n,p,n);
  b->n+=n;
}

static unsigned lcg_state;
static float lcg_noise(void){
  lcg_state=lcg_state*1664525u+1013904223u;
  return ((int)(lcg_state>>9)%20001-10000)/20000.f;
}

/* ------------------------------------------------- one logical stream */

typedef struct {
  int   channels;
  long  rate;
  long  nsamples;      /* samples handed to the encoder */
  long  serial;
  char  tag[64];       /* comment TITLE=<tag> */
  int   pagemode;      /* 0: libogg default paging
                          1: flush a page after every audio packet
                          2: audio paged with ogg_stream_pageout_fill(...,300)
                          3: the three headers and nothing else */
  buf_t bytes;         /* the encoded logical stream */
  /* reference decode */
  long   ref_n;        /* samples per channel */
  float *ref;          /* ref[c*ref_n + i] */
} link_t;

static void encode_link(link_t *L){
  vorbis_info vi; vorbis_comment vc; vorbis_dsp_state vd; vorbis_block vb;
  ogg_stream_state os; ogg_page og; ogg_packet op;
  ogg_packet h0,h1,h2;
  char cbuf[96];
  long done=0;
  int eos=0;

  lcg_state=(unsigned)L->serial*2654435761u+12345u;
  L->bytes.d=NULL; L->bytes.n=L->bytes.cap=0;

  vorbis_info_init(&vi);
  if(vorbis_encode_init_vbr(&vi,L->channels,L->rate,0.3f)){
    fprintf(stderr,"encoder init failed\n"); exit(3);
  }
  vorbis_comment_init(&vc);
  snprintf(cbuf,sizeof cbuf,"TITLE=%s",L->tag);
  vorbis_comment_add(&vc,cbuf);
  vorbis_analysis_init(&vd,&vi);
  vorbis_block_init(&vd,&vb);
  ogg_stream_init(&os,L->serial);

  vorbis_analysis_headerout(&vd,&vc,&h0,&h1,&h2);
  ogg_stream_packetin(&os,&h0);
  ogg_stream_packetin(&os,&h1);
  ogg_stream_packetin(&os,&h2);
  while(ogg_stream_flush(&os,&og)){
    buf_add(&L->bytes,og.header,og.header_len);
    buf_add(&L->bytes,og.body,og.body_len);
  }

  if(L->pagemode==3)eos=1; /* headers only: no audio packet at all */

  while(!eos){
    long n=L->nsamples-done;
    if(n>1024)n=1024;
    if(n<=0){
      vorbis_analysis_wrote(&vd,0);
    }else{
      float **pcm=vorbis_analysis_buffer(&vd,n);
      long i; int c;
      for(i=0;i<n;i++){
        float t=(float)(done+i)/L->rate;
        for(c=0;c<L->channels;c++)
          pcm[c][i]=0.4f*sinf(6.2831853f*(330.f+110.f*c)*t)+0.3f*lcg_noise();
      }
      vorbis_analysis_wrote(&vd,n);
      done+=n;
    }
    while(vorbis_analysis_blockout(&vd,&vb)==1){
      vorbis_analysis(&vb,NULL);
      vorbis_bitrate_addblock(&vb);
      while(vorbis_bitrate_flushpacket(&vd,&op)){
        ogg_stream_packetin(&os,&op);
        for(;;){
          int r;
          if(L->pagemode==1)      r=ogg_stream_flush(&os,&og);
          else if(L->pagemode==2) r=ogg_stream_pageout_fill(&os,&og,300);
          else                    r=ogg_stream_pageout(&os,&og);
          if(!r)break;
          buf_add(&L->bytes,og.header,og.header_len);
          buf_add(&L->bytes,og.body,og.body_len);
          if(ogg_page_eos(&og))eos=1;
        }
      }
    }
    if(n<=0 && !eos){
      /* the encoder is drained; push out whatever is left */
      while(ogg_stream_flush(&os,&og)){
        buf_add(&L->bytes,og.header,og.header_len);
        buf_add(&L->bytes,og.body,og.body_len);
      }
      eos=1;
    }
  }

  ogg_stream_clear(&os);
  vorbis_block_clear(&vb);
  vorbis_dsp_clear(&vd);
  vorbis_comment_clear(&vc);
  vorbis_info_clear(&vi);
}

/* reference decode of one logical stream with libogg+libvorbis only */
static void reference_decode(link_t *L){
  ogg_sync_state oy; ogg_stream_state os; ogg_page og; ogg_packet op;
  vorbis_info vi; vorbis_comment vc; vorbis_dsp_state vd; vorbis_block vb;
  int hdr=0, inited=0, streaminit=0;
  long cap=0;
  char *p;

  L->ref=NULL; L->ref_n=0;
  ogg_sync_init(&oy);
  p=ogg_sync_buffer(&oy,L->bytes.n);
  memcpy(p,L->bytes.d,L->bytes.n);
  ogg_sync_wrote(&oy,L->bytes.n);
  vorbis_info_init(&vi);
  vorbis_comment_init(&vc);

  while(ogg_sync_pageout(&oy,&og)==1){
    if(!streaminit){ ogg_stream_init(&os,ogg_page_serialno(&og)); streaminit=1; }
    ogg_stream_pagein(&os,&og);
    while(ogg_stream_packetout(&os,&op)==1){
      if(hdr<3){
        if(vorbis_synthesis_headerin(&vi,&vc,&op)){
          fprintf(stderr,"reference: bad header\n"); exit(3);
        }
        hdr++;
        if(hdr==3){
          vorbis_synthesis_init(&vd,&vi);
          vorbis_block_init(&vd,&vb);
          inited=1;
        }
      }else{
        float **pcm; int n;
        if(vorbis_synthesis(&vb,&op)==0)
          vorbis_synthesis_blockin(&vd,&vb);
        while((n=vorbis_synthesis_pcmout(&vd,&pcm))>0){
          int c; long i;
          if(L->ref_n+n>cap){
            long ncap=(L->ref_n+n)*2+4096;
            float *nr=calloc((size_t)ncap*vi.channels,sizeof(float));
            for(c=0;c<vi.channels;c++)
              if(L->ref_n)memcpy(nr+(size_t)c*ncap,L->ref+(size_t)c*cap,L->ref_n*sizeof(float));
            free(L->ref);
            L->ref=nr; cap=ncap;
          }
          for(c=0;c<vi.channels;c++)
            for(i=0;i<n;i++)
              L->ref[(size_t)c*cap+L->ref_n+i]=pcm[c][i];
          L->ref_n+=n;
          vorbis_synthesis_read(&vd,n);
        }
      }
    }
  }
  /* compact to stride ref_n */
  if(L->ref && cap!=L->ref_n){
    int c;
    float *nr=calloc((size_t)(L->ref_n?L->ref_n:1)*vi.channels,sizeof(float));
    for(c=0;c<vi.channels;c++)
      memcpy(nr+(size_t)c*L->ref_n,L->ref+(size_t)c*cap,L->ref_n*sizeof(float));
    free(L->ref);
    L->ref=nr;
  }
  if(inited){ vorbis_block_clear(&vb); vorbis_dsp_clear(&vd); }
  if(streaminit)ogg_stream_clear(&os);
  vorbis_comment_clear(&vc);
  vorbis_info_clear(&vi);
  ogg_sync_clear(&oy);
}

/* ------------------------------------------------ memory data source */

typedef struct { const unsigned char *d; ogg_int64_t n, pos; } mem_t;

static size_t m_read(void *ptr,size_t sz,size_t nm,void *ds){
  mem_t *m=ds;
  ogg_int64_t want=(ogg_int64_t)(sz*nm), left=m->n-m->pos;
  if(want>left)want=left;
  if(want<=0)return 0;
  memcpy(ptr,m->d+m->pos,(size_t)want);
  m->pos+=want;
  return (size_t)want;
}
static int m_seek(void *ds,ogg_int64_t off,int wh){
  mem_t *m=ds; ogg_int64_t p;
  if(wh==SEEK_SET)p=off; else if(wh==SEEK_CUR)p=m->pos+off; else p=m->n+off;
  if(p<0||p>m->n)return -1;
  m->pos=p;
  return 0;
}
static long m_tell(void *ds){ return (long)((mem_t*)ds)->pos; }

/* ----------------------------------------------------- the check */

static int failures;
#define FAIL(...) do{ printf("  FAIL: " __VA_ARGS__); printf("\n"); failures++; bad++; }while(0)

static int check_chain(const char *name, link_t **links, int k){
  buf_t phys={0,0,0};
  mem_t src;
  OggVorbis_File vf;
  ov_callbacks cb={m_read,m_seek,NULL,m_tell};
  int i,bad=0,ret;
  ogg_int64_t sum=0;
  long *got;
  int order_bad=0, lastlink=0;
  long negatives=0;

  printf("%s (%d links)\n",name,k);
  for(i=0;i<k;i++)buf_add(&phys,links[i]->bytes.d,links[i]->bytes.n);
  src.d=phys.d; src.n=(ogg_int64_t)phys.n; src.pos=0;

  ret=ov_open_callbacks(&src,&vf,NULL,0,cb);
  if(ret){
    FAIL("ov_open_callbacks returned %d",ret);
    free(phys.d);
    return bad;
  }
  if(!ov_seekable(&vf))FAIL("not seekable");
  if(ov_streams(&vf)!=k)FAIL("ov_streams=%ld, expected %d",ov_streams(&vf),k);

  for(i=0;i<k && i<ov_streams(&vf);i++){
    link_t *L=links[i];
    vorbis_info *vi=ov_info(&vf,i);
    vorbis_comment *vc=ov_comment(&vf,i);
    char want[96];
    snprintf(want,sizeof want,"TITLE=%s",L->tag);
    if(!vi || vi->channels!=L->channels || vi->rate!=L->rate)
      FAIL("link %d: info %d ch %ld Hz, expected %d ch %ld Hz",i,
           vi?vi->channels:-1,vi?vi->rate:-1,L->channels,L->rate);
    if(!vc || vc->comments!=1 || strcmp(vc->user_comments[0],want))
      FAIL("link %d: comment mismatch (expected %s)",i,want);
    if(ov_serialnumber(&vf,i)!=L->serial)
      FAIL("link %d: serial %ld, expected %ld",i,ov_serialnumber(&vf,i),L->serial);
    if(ov_pcm_total(&vf,i)!=L->ref_n)
      FAIL("link %d: ov_pcm_total=%ld, reference decode has %ld samples",i,
           (long)ov_pcm_total(&vf,i),L->ref_n);
    if(fabs(ov_time_total(&vf,i)-(double)L->ref_n/L->rate)>1e-9)
      FAIL("link %d: ov_time_total=%f, expected %f",i,
           ov_time_total(&vf,i),(double)L->ref_n/L->rate);
    sum+=L->ref_n;
  }
  if(ov_pcm_total(&vf,-1)!=sum)
    FAIL("ov_pcm_total(-1)=%ld, expected %ld",(long)ov_pcm_total(&vf,-1),(long)sum);

  /* read everything from the start */
  got=calloc(k,sizeof *got);
  for(;;){
    float **pcm; int bs=-1;
    long n=ov_read_float(&vf,&pcm,4096,&bs);
    if(n==0)break;
    if(n<0){
      negatives++;
      FAIL("ov_read_float returned %ld",n);
      if(negatives>20)break;
      continue;
    }
    if(bs<0||bs>=k){ FAIL("bitstream index %d out of range",bs); break; }
    if(bs<lastlink)order_bad=1;
    lastlink=bs;
    {
      link_t *L=links[bs];
      int c; long j;
      if(ov_info(&vf,-1)->channels!=L->channels)
        FAIL("link %d: current info has %d channels while reading",bs,ov_info(&vf,-1)->channels);
      for(c=0;c<L->channels;c++)
        for(j=0;j<n;j++){
          long idx=got[bs]+j;
          if(idx>=L->ref_n)continue; /* counted below */
          if(memcmp(&pcm[c][j],&L->ref[(size_t)c*L->ref_n+idx],sizeof(float))){
            FAIL("link %d: sample %ld of channel %d differs from the reference decode",bs,idx,c);
            c=L->channels; break;
          }
        }
      got[bs]+=n;
    }
  }
  if(order_bad)FAIL("links were not delivered in order");
  for(i=0;i<k;i++)
    if(got[i]!=links[i]->ref_n)
      FAIL("link %d: read delivered %ld samples, reference decode has %ld",i,got[i],links[i]->ref_n);
  if(!bad){
    printf("  ok:");
    for(i=0;i<k;i++)printf(" [%dch %ldHz %ld]",links[i]->channels,links[i]->rate,got[i]);
    printf("\n");
  }
  free(got);
  ov_clear(&vf);
  free(phys.d);
  return bad;
}

/* ---------------------------------------------------------------- main */

static link_t mk(int ch,long rate,long n,long serial,const char *tag,int pagemode){
  link_t L;
  memset(&L,0,sizeof L);
  L.channels=ch; L.rate=rate; L.nsamples=n; L.serial=serial; L.pagemode=pagemode;
  snprintf(L.tag,sizeof L.tag,"%s",tag);
  encode_link(&L);
  reference_decode(&L);
  return L;
}

int main(int argc,char **argv){
  link_t A,B,C,D,E,F,G,H;
  link_t *ch[8];
  int known=(argc>1 && !strcmp(argv[1],"--known-defects"));

  alarm(50);
  setvbuf(stdout,NULL,_IOLBF,0);

  A=mk(2,44100,60000,0x1111,"alpha",0);   /* several default pages          */
  B=mk(1,8000 ,700  ,0x2222,"bravo",0);   /* audio fits in one page         */
  C=mk(2,22050,0    ,0x3333,"charlie",0); /* zero samples                   */
  D=mk(1,16000,30000,0x4444,"delta",1);   /* one packet per page            */
  E=mk(2,32000,90000,0x5555,"echo",2);    /* small pages                    */
  F=mk(1,11025,900  ,0x6666,"foxtrot",1); /* short, one packet per page     */
  G=mk(2,48000,400000,0x7777,"golf",0);   /* bigger than the 64k chunk size */

  H=mk(2,44100,0    ,0x8888,"hotel",3);   /* headers only                   */

  printf("links: A=%ld B=%ld C=%ld D=%ld E=%ld F=%ld G=%ld samples; bytes A=%zu B=%zu C=%zu D=%zu E=%zu F=%zu G=%zu\n",
         A.ref_n,B.ref_n,C.ref_n,D.ref_n,E.ref_n,F.ref_n,G.ref_n,
         A.bytes.n,B.bytes.n,C.bytes.n,D.bytes.n,E.bytes.n,F.bytes.n,G.bytes.n);

  ch[0]=&A;                                   check_chain("single A",ch,1);
  ch[0]=&B;                                   check_chain("single B (one audio page)",ch,1);
  ch[0]=&C;                                   check_chain("single C (zero samples)",ch,1);
  ch[0]=&A; ch[1]=&D;                         check_chain("A D",ch,2);
  ch[0]=&A; ch[1]=&B; ch[2]=&D;               check_chain("A B D",ch,3);
  ch[0]=&A; ch[1]=&C; ch[2]=&E;               check_chain("A C E",ch,3);
  ch[0]=&D; ch[1]=&E; ch[2]=&F; ch[3]=&A;     check_chain("D E F A",ch,4);
  ch[0]=&A; ch[1]=&B;                         check_chain("A B (ends on a one-page link)",ch,2);
  ch[0]=&A; ch[1]=&C;                         check_chain("A C (ends on a zero-sample link)",ch,2);
  ch[0]=&G; ch[1]=&A; ch[2]=&E;               check_chain("G A E (large first link)",ch,3);
  ch[0]=&A; ch[1]=&G; ch[2]=&B; ch[3]=&E; ch[4]=&C; ch[5]=&D; ch[6]=&F;
                                              check_chain("A G B E C D F",ch,7);
  ch[0]=&C; ch[1]=&A;                         check_chain("C A (starts on a zero-sample link)",ch,2);
  ch[0]=&F; ch[1]=&B; ch[2]=&C;               check_chain("F B C (all short)",ch,3);

  if(known){
    /* behaviour of the UNCHANGED tree that already violates the property;
       not part of the default run so that the default run exits 0 there */
    ch[0]=&B; ch[1]=&A;                       check_chain("KNOWN: B A (starts on a one-page link)",ch,2);
    ch[0]=&A; ch[1]=&H; ch[2]=&D;             check_chain("KNOWN: A H D (headers-only link in the middle)",ch,3);
    ch[0]=&A; ch[1]=&H;                       check_chain("works: A H (headers-only link last)",ch,2);
    ch[0]=&H; ch[1]=&A;                       check_chain("works: H A (headers-only link first)",ch,2);
    ch[0]=&H;                                 check_chain("works: H alone",ch,1);
  }

  printf("%s (%d failures)\n",failures?"PROPERTY VIOLATED":"all scenarios ok",failures);
  return failures?1:0;
}
