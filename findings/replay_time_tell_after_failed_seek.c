/* replay_d3_time_tell.c -- ov_time_tell() reads vf->vi[-1] after a failed seek.
 *
 * Demonstrates: when a seek on a seekable handle fails (here: the seek
 * callback reports an I/O error) vorbisfile leaves vf->pcm_offset==-1 and
 * ready_state==OPENED.  ov_time_tell() then searches the links from the last
 * to the first for "pcm_offset >= start of link"; -1 matches none, the loop
 * ends with link==-1 and the return expression divides by vf->vi[-1].rate:
 * a heap read 48 bytes in front of the vorbis_info array (the result is
 * -1/garbage, possibly -inf or a division by zero).
 *
 * The program encodes two short streams, chains them in memory, opens them
 * with callbacks whose seek can be told to fail, provokes a failed
 * ov_pcm_seek() and then calls the position/info accessors.  Expected: no
 * out-of-bounds access; ov_pcm_tell() and ov_time_tell() report "no position"
 * with a negative value (ov_pcm_tell gives -1); after the data source works
 * again a seek succeeds and ov_time_tell() matches the target.
 *
 * Build WITH AddressSanitizer (library and replay); without it the stray read
 * is silent and only a plausibility check of the value remains (it prints
 * "WRONG ... stray memory" unless the garbage happens to look like a rate):
 *   gcc -g -fsanitize=address,undefined -I$SRC/include replay_d3_time_tell.c \
 *       $BUILD/lib/libvorbisfile.a $BUILD/lib/libvorbisenc.a $BUILD/lib/libvorbis.a \
 *       -logg -lm -o replay_d3
 * Output, unchanged tree: "ERROR: AddressSanitizer: heap-buffer-overflow ...
 *                         in ov_time_tell lib/vorbisfile.c:1884", exit status 1.
 * Output, fixed tree:     "time_tell=-131.000000" (OV_EINVAL) ..., "PASS", exit 0.
 */
#include <stdio.h>
#include <stdlib.h>
#include <string.h>
#include <math.h>
#include <ogg/ogg.h>
#include <vorbis/codec.h>
#include <vorbis/vorbisenc.h>
#include <vorbis/vorbisfile.h>

#define RATE 8000

typedef struct { unsigned char *d; size_t len, cap, pos; int fail; } membuf;

static void put(membuf *m, const void *p, size_t n){
  if(m->len+n>m->cap){ m->cap=(m->len+n)*2; m->d=realloc(m->d,m->cap); }
  memcpy(m->d+m->len,p,n); m->len+=n;
}
static void putpage(membuf *m, ogg_page *og){
  put(m,og->header,og->header_len); put(m,og->body,og->body_len);
}

/* append one complete logical Vorbis stream of exactly `samples` samples */
static void encode_link(membuf *m, int serial, long samples){
  vorbis_info vi; vorbis_comment vc; vorbis_dsp_state vd; vorbis_block vb;
  ogg_stream_state os; ogg_page og; ogg_packet op, h[3];
  long done=0; int eos=0, i;

  vorbis_info_init(&vi);
  if(vorbis_encode_init_vbr(&vi,1,RATE,0.3f)){ fprintf(stderr,"encoder init failed\n"); exit(2); }
  vorbis_comment_init(&vc);
  vorbis_analysis_init(&vd,&vi);
  vorbis_block_init(&vd,&vb);
  ogg_stream_init(&os,serial);
  vorbis_analysis_headerout(&vd,&vc,&h[0],&h[1],&h[2]);
  for(i=0;i<3;i++)ogg_stream_packetin(&os,&h[i]);
  while(ogg_stream_flush(&os,&og))putpage(m,&og);

  while(!eos){
    long n=samples-done; if(n>1024)n=1024;
    if(n>0){
      float **b=vorbis_analysis_buffer(&vd,n);
      for(i=0;i<n;i++)b[0][i]=0.5f*sinf((done+i)*0.05f);
    }
    vorbis_analysis_wrote(&vd,n); done+=n;
    while(vorbis_analysis_blockout(&vd,&vb)==1){
      vorbis_analysis(&vb,NULL);
      vorbis_bitrate_addblock(&vb);
      while(vorbis_bitrate_flushpacket(&vd,&op)){
        ogg_stream_packetin(&os,&op);
        while(!eos && (op.packetno%4==0?ogg_stream_flush(&os,&og):ogg_stream_pageout(&os,&og))){
          putpage(m,&og);
          if(ogg_page_eos(&og))eos=1;
        }
      }
    }
  }
  ogg_stream_clear(&os); vorbis_block_clear(&vb); vorbis_dsp_clear(&vd);
  vorbis_comment_clear(&vc); vorbis_info_clear(&vi);
}

static size_t rd(void *p,size_t s,size_t n,void *ds){
  membuf *m=ds; size_t want=s*n, left=m->len-m->pos;
  if(want>left)want=left;
  memcpy(p,m->d+m->pos,want); m->pos+=want; return s?want/s:0;
}
static int sk(void *ds,ogg_int64_t off,int wh){
  membuf *m=ds; ogg_int64_t b=wh==SEEK_SET?0:wh==SEEK_CUR?(ogg_int64_t)m->pos:(ogg_int64_t)m->len;
  if(m->fail)return -1;                          /* simulated I/O error */
  if(b+off<0||b+off>(ogg_int64_t)m->len)return -1;
  m->pos=b+off; return 0;
}
static long tl(void *ds){ return ((membuf*)ds)->pos; }

int main(void){
  membuf m={0}; OggVorbis_File vf; ov_callbacks cb={rd,sk,NULL,tl};
  int r,bad=0; double t; ogg_int64_t p; char buf[256]; int sec;

  setvbuf(stdout,NULL,_IONBF,0);
  encode_link(&m,0x1111,10000);
  encode_link(&m,0x2222,12000);
  if(ov_open_callbacks(&m,&vf,NULL,0,cb)||ov_streams(&vf)!=2){ printf("open failed\n"); return 2; }
  if(ov_read(&vf,buf,sizeof buf,0,2,1,&sec)<=0){ printf("read failed\n"); return 2; }
  printf("before: pcm_tell=%lld time_tell=%f\n",(long long)ov_pcm_tell(&vf),ov_time_tell(&vf));

  m.fail=1;
  r=ov_pcm_seek(&vf,15000);
  printf("ov_pcm_seek with failing seek callback = %d\n",r);
  if(r==0){ printf("seek unexpectedly succeeded\n"); return 2; }

  /* accessors on the handle left behind by the failed seek */
  printf("raw_tell=%lld\n",(long long)ov_raw_tell(&vf));
  p=ov_pcm_tell(&vf);
  printf("pcm_tell=%lld\n",(long long)p);
  if(p>=0){ printf("WRONG: a position is reported after a failed seek\n"); bad=1; }
  printf("bitrate_instant=%ld bitrate=%ld serial=%lx info=%p comment=%p\n",ov_bitrate_instant(&vf),
         ov_bitrate(&vf,-1),(unsigned long)ov_serialnumber(&vf,-1),(void*)ov_info(&vf,-1),(void*)ov_comment(&vf,-1));
  printf("pcm_total=%lld time_total=%f\n",(long long)ov_pcm_total(&vf,-1),ov_time_total(&vf,-1));
  t=ov_time_tell(&vf);                           /* <- reads vf->vi[-1].rate */
  printf("time_tell=%f\n",t);
  /* acceptable: a negative OV_* code / -1, or position -1 expressed in seconds */
  if(!(t<0) || isinf(t) || (t!=floor(t) && fabs(t+1./RATE)>1e-12)){
    printf("WRONG: ov_time_tell must report 'no position', got a value computed from stray memory\n"); bad=1; }

  /* the handle must be usable again once the data source recovers */
  m.fail=0;
  r=ov_pcm_seek(&vf,15000);
  t=ov_time_tell(&vf);
  printf("after recovery: ov_pcm_seek=%d pcm_tell=%lld time_tell=%f\n",r,(long long)ov_pcm_tell(&vf),t);
  if(r||ov_pcm_tell(&vf)!=15000||fabs(t-15000./RATE)>1e-9){ printf("WRONG: seek after recovery\n"); bad=1; }

  ov_clear(&vf); free(m.d);
  printf(bad?"FAIL\n":"PASS\n");
  return bad;
}
