/* replay_D1.c - libvorbis: a failed vorbis_synthesis_init() poisons the
 * vorbis_info so that the next vorbis_synthesis_init() "succeeds" with
 * zeroed codebooks.
 *
 * lib/block.c:_vds_shared_init(), decode side: when vorbis_book_init_decode()
 * rejects a codebook (here: an over-populated Huffman tree, which the header
 * parser accepts) the abort_books path frees every ci->book_param[] but leaves
 * the calloc'ed ci->fullbooks array in place.  A second init on the same
 * vorbis_info sees ci->fullbooks!=NULL, skips codebook set-up and returns 0.
 * libvorbisfile retries exactly like that: ov_read() returns OV_EBADLINK and
 * stays in STREAMSET, the next ov_read() runs _make_decode_ready() again.
 * Decoding then runs on all-zero codebooks: integer division by zero
 * (book dim==0) in lib/res0.c (_01inverse / res2_inverse) -> SIGFPE.
 *
 * The program encodes one second of audio in memory, rewrites three codeword
 * lengths of codebook 0 in the setup header to 1 (so the tree is
 * over-populated), and then
 *   A) calls vorbis_synthesis_init() twice on the parsed headers,
 *   B) opens the stream with ov_open_callbacks() and calls ov_read() twice.
 *
 * Build (static libs of the tree under test in $B/lib, headers in $S/include):
 *   gcc -g -fsanitize=address,undefined -I$S/include replay_D1.c \
 *       $B/lib/libvorbisfile.a $B/lib/libvorbisenc.a $B/lib/libvorbis.a \
 *       -logg -lm -o replay_D1
 * Run:  ./replay_D1        exit 0 = correct, 1 = defect (signals are caught)
 *       ./replay_D1 raw    same, but lets the crash / sanitizer report through
 *
 * Unfixed tree:  "A: init#1=1 init#2=0", "B: ov_read#1=-137", then
 *                "DEFECT: fatal signal ..."; exit 1.  With "raw": UBSan
 *                "res0.c:818: division by zero", ASan/valgrind "FPE in
 *                res2_inverse" (res0.c:818, .../partitions_per_word, the zero dim).
 * Fixed tree:    "A: init#1=1 init#2=1", "B: ov_read#1=-137 ov_read#2=-137",
 *                "OK"; exit 0.
 */
#define OV_EXCLUDE_STATIC_CALLBACKS
#include <stdio.h>
#include <stdlib.h>
#include <string.h>
#include <math.h>
#include <signal.h>
#include <unistd.h>
#include <ogg/ogg.h>
#include <vorbis/codec.h>
#include <vorbis/vorbisenc.h>
#include <vorbis/vorbisfile.h>

typedef struct { unsigned char *d; long n, pos; } mem_t;

static void put(mem_t *m, ogg_page *og){
  m->d = realloc(m->d, m->n + og->header_len + og->body_len);
  memcpy(m->d + m->n, og->header, og->header_len); m->n += og->header_len;
  memcpy(m->d + m->n, og->body, og->body_len);     m->n += og->body_len;
}

/* LSb-first bit access, as used by the Vorbis packer */
static unsigned long getbits(unsigned char *b, long p, int n){
  unsigned long v = 0; int i;
  for(i = 0; i < n; i++, p++) v |= (unsigned long)((b[p>>3] >> (p&7)) & 1) << i;
  return v;
}
static void setbits(unsigned char *b, long p, int n, unsigned long v){
  int i;
  for(i = 0; i < n; i++, p++)
    b[p>>3] = (b[p>>3] & ~(1 << (p&7))) | (((v >> i) & 1) << (p&7));
}

/* make the first three used entries of codebook 0 one bit long: the header
   parser (vorbis_staticbook_unpack) accepts this, the Huffman tree builder
   (_make_words, from vorbis_book_init_decode) rejects it as over-populated */
static int corrupt_book0(ogg_packet *op){
  unsigned char *b = op->packet;
  long p = 64, entries, i; int sparse, done = 0;  /* "\5vorbis" + book count */
  if(getbits(b, p, 24) != 0x564342) return -1;
  entries = getbits(b, p + 40, 24);
  if(getbits(b, p + 64, 1)) return -1;            /* length-ordered: not handled */
  sparse = getbits(b, p + 65, 1);
  p += 66;
  for(i = 0; i < entries && done < 3; i++){
    if(sparse && !getbits(b, p++, 1)) continue;
    setbits(b, p, 5, 0); p += 5; done++;
  }
  return done == 3 ? 0 : -1;
}

/* one second of 44.1kHz stereo, setup header damaged; header packets are
   also handed back (copied) for the direct libvorbis check */
static int encode(mem_t *out, ogg_packet hdr[3]){
  vorbis_info vi; vorbis_comment vc; vorbis_dsp_state vd; vorbis_block vb;
  ogg_stream_state os; ogg_page og; ogg_packet op; int i, k, eos = 0;
  vorbis_info_init(&vi);
  if(vorbis_encode_init_vbr(&vi, 2, 44100, .3f)) return -1;
  vorbis_comment_init(&vc);
  vorbis_analysis_init(&vd, &vi); vorbis_block_init(&vd, &vb);
  ogg_stream_init(&os, 0x1234);
  vorbis_analysis_headerout(&vd, &vc, &hdr[0], &hdr[1], &hdr[2]);
  if(corrupt_book0(&hdr[2])) return -1;
  for(i = 0; i < 3; i++){
    unsigned char *c = malloc(hdr[i].bytes);
    ogg_stream_packetin(&os, &hdr[i]);
    memcpy(c, hdr[i].packet, hdr[i].bytes); hdr[i].packet = c;
  }
  while(ogg_stream_flush(&os, &og)) put(out, &og);
  for(k = 0; !eos; k++){
    if(k < 43){
      float **buf = vorbis_analysis_buffer(&vd, 1024);
      for(i = 0; i < 1024; i++)
        buf[0][i] = buf[1][i] = .4f * sin((k*1024 + i) * .05) + .1f * ((rand()%200)/100.f - 1);
      vorbis_analysis_wrote(&vd, 1024);
    }else vorbis_analysis_wrote(&vd, 0);
    while(vorbis_analysis_blockout(&vd, &vb) == 1){
      vorbis_analysis(&vb, NULL); vorbis_bitrate_addblock(&vb);
      while(vorbis_bitrate_flushpacket(&vd, &op)){
        ogg_stream_packetin(&os, &op);
        while(ogg_stream_pageout(&os, &og)){ put(out, &og); if(ogg_page_eos(&og)) eos = 1; }
      }
    }
  }
  ogg_stream_clear(&os); vorbis_block_clear(&vb); vorbis_dsp_clear(&vd);
  vorbis_comment_clear(&vc); vorbis_info_clear(&vi);
  return 0;
}

static size_t m_read(void *p, size_t s, size_t n, void *ds){
  mem_t *m = ds; long want = (long)(s*n);
  if(want > m->n - m->pos) want = m->n - m->pos;
  memcpy(p, m->d + m->pos, want); m->pos += want; return want / s;
}
static int m_seek(void *ds, ogg_int64_t off, int wh){
  mem_t *m = ds; long b = wh == SEEK_SET ? 0 : wh == SEEK_CUR ? m->pos : m->n;
  if(b + off < 0 || b + off > m->n) return -1;
  m->pos = b + off; return 0;
}
static long m_tell(void *ds){ return ((mem_t *)ds)->pos; }

static void on_signal(int s){
  static const char msg[] = "DEFECT: fatal signal (SIGFPE/SIGSEGV) while decoding after a failed init\n";
  (void)s; if(write(2, msg, sizeof(msg) - 1) < 0){} _exit(1);
}

int main(int argc, char **argv){
  mem_t m = {0, 0, 0}; ogg_packet hdr[3]; int bad = 0, i;
  if(encode(&m, hdr)){ fprintf(stderr, "could not build the test stream\n"); return 2; }
  if(!(argc > 1 && !strcmp(argv[1], "raw"))){ signal(SIGFPE, on_signal); signal(SIGSEGV, on_signal); }

  { /* A: libvorbis alone */
    vorbis_info vi; vorbis_comment vc; vorbis_dsp_state vd; int r1, r2;
    vorbis_info_init(&vi); vorbis_comment_init(&vc);
    for(i = 0; i < 3; i++)
      if(vorbis_synthesis_headerin(&vi, &vc, &hdr[i])){ fprintf(stderr, "header %d rejected\n", i); return 2; }
    r1 = vorbis_synthesis_init(&vd, &vi);
    r2 = vorbis_synthesis_init(&vd, &vi);
    printf("A: init#1=%d init#2=%d   (both must fail)\n", r1, r2);
    if(r1 == 0){ fprintf(stderr, "corruption was not effective\n"); return 2; }
    if(r2 == 0){ bad = 1; vorbis_dsp_clear(&vd); }
    vorbis_comment_clear(&vc); vorbis_info_clear(&vi);
  }
  { /* B: libvorbisfile retries the init on the next ov_read */
    OggVorbis_File vf; ov_callbacks cb = { m_read, m_seek, NULL, m_tell };
    char pcm[4096]; int sec; long r;
    if((i = ov_open_callbacks(&m, &vf, NULL, 0, cb))){ fprintf(stderr, "ov_open: %d\n", i); return 2; }
    r = ov_read(&vf, pcm, sizeof pcm, 0, 2, 1, &sec);
    printf("B: ov_read#1=%ld", r); fflush(stdout);
    r = ov_read(&vf, pcm, sizeof pcm, 0, 2, 1, &sec);   /* unfixed: SIGFPE in here */
    printf(" ov_read#2=%ld   (both must be OV_EBADLINK=%d)\n", r, OV_EBADLINK);
    if(r >= 0) bad = 1;
    ov_clear(&vf);
  }
  for(i = 0; i < 3; i++) free(hdr[i].packet);
  free(m.d);
  puts(bad ? "DEFECT" : "OK");
  return bad;
}
