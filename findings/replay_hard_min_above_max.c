/* Reproducer for UNCHANGED_DEFECT.md: vorbis_encode_init accepts a
   max/nominal/min triple whose hard minimum lies far above its hard maximum;
   vorbis_bitrate_addblock then hands a negative size to oggpack_writetrunc.
   Exit 0 = no defect seen, 1 = packet with negative length, crash = wild write. */
#include <stdio.h>
#include <stdlib.h>
#include <math.h>
#include <vorbis/codec.h>
#include <vorbis/vorbisenc.h>

static int run(long mx,long nom,long mn){
  vorbis_info vi; vorbis_dsp_state vd; vorbis_block vb; vorbis_comment vc;
  ogg_packet op,h1,h2,h3;
  int i,j,k,bad=0,r;
  vorbis_info_init(&vi);
  r=vorbis_encode_init(&vi,2,44100,mx,nom,mn);
  printf("vorbis_encode_init(2,44100,max=%ld,nominal=%ld,min=%ld) = %d\n",mx,nom,mn,r);
  if(r)return 0;
  vorbis_comment_init(&vc);
  vorbis_analysis_init(&vd,&vi);
  vorbis_block_init(&vd,&vb);
  vorbis_analysis_headerout(&vd,&vc,&h1,&h2,&h3);
  for(k=0;k<=40;k++){
    if(k<40){
      float **b=vorbis_analysis_buffer(&vd,1024);
      for(i=0;i<1024;i++)for(j=0;j<2;j++)
        b[j][i]=.5*sin((k*1024+i)*.05*(j+1))+((rand()%1000)/5000.);
      vorbis_analysis_wrote(&vd,1024);
    }else vorbis_analysis_wrote(&vd,0);
    while(vorbis_analysis_blockout(&vd,&vb)==1){
      vorbis_analysis(&vb,NULL);
      vorbis_bitrate_addblock(&vb);
      while(vorbis_bitrate_flushpacket(&vd,&op))
        if(op.bytes<0){
          if(!bad)printf("  packet %ld has length %ld\n",(long)op.packetno,op.bytes);
          bad=1;
        }
    }
  }
  vorbis_block_clear(&vb); vorbis_dsp_clear(&vd);
  vorbis_comment_clear(&vc); vorbis_info_clear(&vi);
  return bad;
}

int main(void){
  int bad=0;
  setvbuf(stdout,NULL,_IOLBF,0);
  bad|=run(1000,45000,2000000);      /* negative packet lengths, heap underflow */
  bad|=run(1000,45000,2000000000);   /* wild write far below the buffer: SIGSEGV */
  return bad;
}
