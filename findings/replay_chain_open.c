/* throwaway replay: 3-link chained stream, third link has a truncated setup header */
#include <stdio.h>
#include <stdlib.h>
#include <string.h>
#include <math.h>
#include <vorbis/vorbisenc.h>
#include <vorbis/vorbisfile.h>
static void wr(FILE*f,ogg_page*og){fwrite(og->header,1,og->header_len,f);fwrite(og->body,1,og->body_len,f);}
static void link_(FILE*f,int serial,int breaksetup,int secs){
  vorbis_info vi;vorbis_comment vc;vorbis_dsp_state vd;vorbis_block vb;ogg_stream_state os;ogg_page og;ogg_packet op,h,hc,hs;int i,eos=0;
  vorbis_info_init(&vi); if(vorbis_encode_init_vbr(&vi,1,8000,.4f))exit(9);
  vorbis_comment_init(&vc);vorbis_analysis_init(&vd,&vi);vorbis_block_init(&vd,&vb);ogg_stream_init(&os,serial);
  vorbis_analysis_headerout(&vd,&vc,&h,&hc,&hs);
  if(breaksetup)hs.bytes/=2;
  ogg_stream_packetin(&os,&h);ogg_stream_packetin(&os,&hc);ogg_stream_packetin(&os,&hs);
  while(ogg_stream_flush(&os,&og))wr(f,&og);
  {float**b=vorbis_analysis_buffer(&vd,8000*secs);for(i=0;i<8000*secs;i++)b[0][i]=.5f*sinf(i*.05f);vorbis_analysis_wrote(&vd,8000*secs);vorbis_analysis_wrote(&vd,0);}
  while(vorbis_analysis_blockout(&vd,&vb)==1){vorbis_analysis(&vb,NULL);vorbis_bitrate_addblock(&vb);
    while(vorbis_bitrate_flushpacket(&vd,&op)){ogg_stream_packetin(&os,&op);while(!eos&&ogg_stream_pageout(&os,&og)){wr(f,&og);if(ogg_page_eos(&og))eos=1;}}}
  while(ogg_stream_flush(&os,&og))wr(f,&og);
  ogg_stream_clear(&os);vorbis_block_clear(&vb);vorbis_dsp_clear(&vd);vorbis_comment_clear(&vc);vorbis_info_clear(&vi);
}
int main(int argc,char**argv){ const char*fn=argv[1]; int broken=atoi(argv[2]);
  FILE*f=fopen(fn,"wb"); link_(f,1,0,2); link_(f,2,0,2); link_(f,3,broken,2); fclose(f);
  OggVorbis_File vf; int r=ov_fopen(fn,&vf); printf("ov_fopen=%d\n",r); if(!r){printf("links=%ld total=%ld\n",ov_streams(&vf),(long)ov_pcm_total(&vf,-1)); ov_clear(&vf);} return 0; }
