/* repro.c -- stale ogg_page use in ov_pcm_seek_page() (lib/vorbisfile.c)
 *
 * Public API only (libvorbisenc to make a real Vorbis stream, libogg to
 * frame it, vorbisfile with memory callbacks to read it back).
 *
 *   gcc -g -I<tree>/include repro.c <build>/lib/libvorbisfile.a \
 *       <build>/lib/libvorbisenc.a <build>/lib/libvorbis.a -logg -lm -o repro
 *
 *   valgrind ./repro realloc     invalid reads of free'd sync buffer in
 *                                ogg_page_serialno() <- ov_pcm_seek_page()
 *   ./repro recycle              SIGSEGV: memcpy(.., negative) in
 *                                ogg_stream_pagein() <- ov_pcm_seek_page()
 *   ./repro wrong                seek returns 0, but decodes other audio than
 *                                the same seek on the clean file (exit 3)
 *   ./repro control              same stream without the junk run: fine
 *
 * File layout (one physical stream, one Vorbis link, serial VSER):
 *   [V bos][F bos][V comment+setup]            headers
 *   [P1]   first audio page of V: NPK1 packets, granulepos g1 (~85% of total)
 *   [F1]   one small page of a foreign (multiplexed) stream
 *   [junk] ~600 kB that holds no V page (see modes)
 *   [V tail pages]                             granulepos > g1
 * Then ov_pcm_seek_page(vf, g1): a position that lies on the first audio page.
 */
#include <stdio.h>
#include <stdlib.h>
#include <string.h>
#include <math.h>
#include <vorbis/codec.h>
#include <vorbis/vorbisenc.h>
#include <vorbis/vorbisfile.h>

#define VSER 0x11223344
#define FSER 0x55667788
#define NPK1 250           /* audio packets on the first audio page */
#define JUNK 600000
#ifndef RECYCLE_AT
#define RECYCLE_AT 443074
#endif

typedef struct { unsigned char *d; long n, cap, pos; } mem_t;
static mem_t M;

static void put(const void *p, long n){
  if(M.n+n>M.cap){ M.cap=(M.n+n)*2+65536; M.d=realloc(M.d,M.cap); }
  memcpy(M.d+M.n,p,n); M.n+=n;
}
static void putpage(ogg_page *og){ put(og->header,og->header_len); put(og->body,og->body_len); }
static void putfill(long n,int c){ unsigned char *b=malloc(n); memset(b,c,n); put(b,n); free(b); }

static size_t rd(void *p,size_t s,size_t n,void *ds){
  mem_t *m=ds; long want=(long)(s*n), left=m->n-m->pos;
  if(want>left)want=left;
  if(want<0)want=0;
  memcpy(p,m->d+m->pos,want); m->pos+=want; return want/s;
}
static int sk(void *ds,ogg_int64_t off,int wh){
  mem_t *m=ds; long b= wh==SEEK_SET?0: wh==SEEK_CUR?m->pos:m->n;
  if(b+off<0||b+off>m->n)return -1;
  m->pos=b+off; return 0;
}
static long tl(void *ds){ return ((mem_t*)ds)->pos; }

/* a byte run that is NOT an Ogg page ("XggS"), but which, looked at through
   a stale ogg_page, reads: version 0, continued, serial VSER, 255 lacing
   values of 255 */
static void evil_header(unsigned char *h,int benign){
  int i;
  memset(h,0,282);
  memcpy(h,"XggS",4);
  h[4]=0; h[5]=1;
  if(benign){ /* "wrong" mode: a fresh page of serial VSER with one 64-byte packet */
    h[5]=0; h[14]=VSER&0xff; h[15]=(VSER>>8)&0xff; h[16]=(VSER>>16)&0xff; h[17]=(VSER>>24)&0xff;
    h[26]=1; h[27]=64; return;
  }
  h[14]=VSER&0xff; h[15]=(VSER>>8)&0xff; h[16]=(VSER>>16)&0xff; h[17]=(VSER>>24)&0xff;
  h[26]=255;
  for(i=0;i<255;i++)h[27+i]=255;
}

static ogg_int64_t g1;

static void build(const char *mode){
  vorbis_info vi; vorbis_comment vc; vorbis_dsp_state vd; vorbis_block vb;
  ogg_stream_state os, fs; ogg_page og; ogg_packet op, h0,h1,h2;
  int npk=0, done=0, i; long fed=0; const long total=300*1024;
  long junk_start;

  vorbis_info_init(&vi);
  if(vorbis_encode_init_vbr(&vi,1,44100,0.1f)){fprintf(stderr,"enc init\n");exit(9);}
  vorbis_comment_init(&vc);
  vorbis_analysis_init(&vd,&vi); vorbis_block_init(&vd,&vb);
  ogg_stream_init(&os,VSER); ogg_stream_init(&fs,FSER);

  vorbis_analysis_headerout(&vd,&vc,&h0,&h1,&h2);
  ogg_stream_packetin(&os,&h0);
  while(ogg_stream_flush(&os,&og))putpage(&og);                /* V bos */
  if(strcmp(mode,"control")){
    unsigned char fb[8]="foreign"; ogg_packet fp; memset(&fp,0,sizeof fp);
    fp.packet=fb; fp.bytes=8; fp.b_o_s=1; fp.granulepos=0; fp.packetno=0;
    ogg_stream_packetin(&fs,&fp);
    while(ogg_stream_flush(&fs,&og))putpage(&og);              /* F bos */
  }
  ogg_stream_packetin(&os,&h1); ogg_stream_packetin(&os,&h2);
  while(ogg_stream_flush(&os,&og))putpage(&og);                /* V headers */

  /* very quiet tone: small packets, so that many fit on one page */
  while(!done){
    if(fed<total){
      float **b=vorbis_analysis_buffer(&vd,1024);
      for(i=0;i<1024;i++)b[0][i]=0.001f*sinf((fed+i)*0.05f);
      fed+=1024; vorbis_analysis_wrote(&vd,1024);
    }else vorbis_analysis_wrote(&vd,0);
    while(vorbis_analysis_blockout(&vd,&vb)==1){
      vorbis_analysis(&vb,NULL); vorbis_bitrate_addblock(&vb);
      while(vorbis_bitrate_flushpacket(&vd,&op)){
        ogg_stream_packetin(&os,&op); npk++;
        if(npk==NPK1){
          /* first audio page */
          int pages=0;
          while(ogg_stream_flush_fill(&os,&og,65025)){ putpage(&og); pages++; g1=ogg_page_granulepos(&og); }
          if(pages!=1){fprintf(stderr,"first audio data took %d pages\n",pages);exit(9);}
          if(strcmp(mode,"control")){
            unsigned char fb[64]; ogg_packet fp; memset(&fp,0,sizeof fp); memset(fb,0x22,64);
            fp.packet=fb; fp.bytes=64; fp.granulepos=1; fp.packetno=1;
            ogg_stream_packetin(&fs,&fp);
            while(ogg_stream_flush(&fs,&og))putpage(&og);      /* F1 */
            junk_start=M.n;
            if(!strcmp(mode,"realloc")){
              /* looks like the start of a maximal page; CRC will not match */
              unsigned char h[282]; memset(h,0,282); memcpy(h,"OggS",4);
              h[14]=FSER&0xff; h[15]=(FSER>>8)&0xff; h[16]=(FSER>>16)&0xff; h[17]=(FSER>>24)&0xff;
              h[18]=2; h[22]=0xde; h[23]=0xad; h[26]=255; memset(h+27,255,255);
              put(h,282);
            }
            putfill(junk_start+JUNK-M.n,0x22);
          }
        }else if(npk>NPK1 && (npk-NPK1)%10==0){
          while(ogg_stream_flush(&os,&og))putpage(&og);
        }
        if(op.e_o_s)done=1;
      }
    }
  }
  while(ogg_stream_flush(&os,&og))putpage(&og);
  (void)junk_start;
  ogg_stream_clear(&os); ogg_stream_clear(&fs);
  vorbis_block_clear(&vb); vorbis_dsp_clear(&vd); vorbis_comment_clear(&vc); vorbis_info_clear(&vi);
}

/* seek to g1 on the current M, decode n samples into out; returns seek rc */
static int seek_and_decode(float *out,int n,long evil_at,int benign){
  OggVorbis_File vf; ov_callbacks cb={rd,sk,NULL,tl};
  int rc,got=0,sec,holes=0; float **pcm;
  if(evil_at>=0){ unsigned char h[282]; evil_header(h,benign); memcpy(M.d+evil_at,h,benign?28:282); }
  M.pos=0;
  if((rc=ov_open_callbacks(&M,&vf,NULL,0,cb))){fprintf(stderr,"open %d\n",rc);exit(9);}
  fprintf(stderr,"opened: links=%d total=%ld, first audio page granulepos g1=%ld, file=%ld bytes\n",
          (int)ov_streams(&vf),(long)ov_pcm_total(&vf,-1),(long)g1,M.n);
  rc=ov_pcm_seek_page(&vf,g1);
  fprintf(stderr,"ov_pcm_seek_page(%ld) = %d, ov_pcm_tell=%ld, raw_tell=%ld\n",(long)g1,rc,(long)ov_pcm_tell(&vf),(long)ov_raw_tell(&vf));
  memset(out,0,n*sizeof(float));
  while(rc==0 && got<n){
    long r=ov_read_float(&vf,&pcm,n-got,&sec);
    if(r<0 && holes++<100){ fprintf(stderr,"ov_read_float -> %ld\n",r); continue; }
    if(r<=0)break;
    memcpy(out+got,pcm[0],r*sizeof(float)); got+=r;
  }
  fprintf(stderr,"decoded %d samples after the seek, now at pcm %ld\n",got,(long)ov_pcm_tell(&vf));
  ov_clear(&vf);
  return rc;
}

int main(int argc,char **argv){
  const char *mode=argc>1?argv[1]:"realloc";
  long evil_at=argc>2?atol(argv[2]):-1;
  static float a[4096],b[4096];
  int rc;
  build(strcmp(mode,"wrong")?mode:"recycle");
  if(!strcmp(mode,"recycle") && evil_at<0) evil_at=RECYCLE_AT;
  if(!strcmp(mode,"wrong")   && evil_at<0) evil_at=RECYCLE_AT;
  rc=seek_and_decode(a,4096,evil_at,!strcmp(mode,"wrong"));
  if(!strcmp(mode,"control"))return rc?1:0;
  /* reference: the clean file */
  { mem_t keep=M; memset(&M,0,sizeof M); build("control"); seek_and_decode(b,4096,-1,0); free(M.d); M=keep; }
  if(rc==0 && memcmp(a,b,sizeof a)){ fprintf(stderr,"WRONG AUDIO after a seek that returned 0\n"); return 3; }
  return rc?2:0;
}
