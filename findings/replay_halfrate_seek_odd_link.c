/* replay_d2_halfrate_seek.c -- ov_pcm_seek() spins forever at half rate.
 *
 * Demonstrates: with ov_halfrate(vf,1), the final "discard samples" loop of
 * ov_pcm_seek() (lib/vorbisfile.c) runs while pcm_offset < (pos rounded down
 * to even) but discards (pos-pcm_offset)>>1 samples per turn.  When
 * vf->pcm_offset is odd and pos is even the distance is odd, it shrinks to 1,
 * the discard count becomes 0 and the loop never ends.  pcm_offset is odd for
 * every decode position in a link that starts at an odd absolute sample, i.e.
 * in a chained stream whose preceding links have an odd total length.
 *
 * The program encodes two short mono streams (the first one 10001 samples
 * long), concatenates them into one chained physical stream in memory, turns
 * half-rate decoding on and seeks to even and odd targets in both links.
 * Expected for each seek: it returns 0 in finite time and
 *    pos-1 <= ov_pcm_tell() <= pos        (never past the target, less than
 *                                          one half-rate sample before it)
 * and, where the link starts on an even sample, ov_pcm_tell()==(pos&~1).
 *
 * Build (from the directory holding this file; BUILD = cmake build dir of the
 * tree, SRC = source tree):
 *   gcc -g -fsanitize=address,undefined -I$SRC/include replay_d2_halfrate_seek.c \
 *       $BUILD/lib/libvorbisfile.a $BUILD/lib/libvorbisenc.a $BUILD/lib/libvorbis.a \
 *       -logg -lm -o replay_d2
 * (UBSan "left shift of negative value" lines from psy.c/floor1.c/sharedbook.c
 * on stderr are unrelated.)
 * Output, unchanged tree: ok lines for 4000, 4001, 10001, then
 *                         "HANG: ov_pcm_seek(10002) did not return within 5s",
 *                         "FAIL", exit status 1.
 * Output, fixed tree:     one "ok" line per seek (even targets in the second
 *                         link land on pos-1), "PASS", exit status 0.
 */
#include <stdio.h>
#include <stdlib.h>
#include <string.h>
#include <math.h>
#include <signal.h>
#include <unistd.h>
#include <ogg/ogg.h>
#include <vorbis/codec.h>
#include <vorbis/vorbisenc.h>
#include <vorbis/vorbisfile.h>

#define RATE 8000

typedef struct { unsigned char *d; size_t len, cap, pos; } membuf;

static void put(membuf *m, const void *p, size_t n){
  if(m->len+n>m->cap){ m->cap=(m->len+n)*2; m->d=realloc(m->d,m->cap); }
  memcpy(m->d+m->len,p,n); m->len+=n;
}
static void putpage(membuf *m, ogg_page *og){
  put(m,og->header,og->header_len); put(m,og->body,og->body_len);
}

/* append one complete logical Vorbis stream of exactly `samples` samples */
static void encode_link(membuf *m, int serial, long samples){
  vorbis_info vi; vorbis_comment vc; vorbis_dsp_state vd; vorbis_block vb;
  ogg_stream_state os; ogg_page og; ogg_packet op, h[3];
  long done=0; int eos=0, i;

  vorbis_info_init(&vi);
  if(vorbis_encode_init_vbr(&vi,1,RATE,0.3f)){ fprintf(stderr,"encoder init failed\n"); exit(2); }
  vorbis_comment_init(&vc);
  vorbis_analysis_init(&vd,&vi);
  vorbis_block_init(&vd,&vb);
  ogg_stream_init(&os,serial);
  vorbis_analysis_headerout(&vd,&vc,&h[0],&h[1],&h[2]);
  for(i=0;i<3;i++)ogg_stream_packetin(&os,&h[i]);
  while(ogg_stream_flush(&os,&og))putpage(m,&og);

  while(!eos){
    long n=samples-done; if(n>1024)n=1024;
    if(n>0){
      float **b=vorbis_analysis_buffer(&vd,n);
      for(i=0;i<n;i++)b[0][i]=0.5f*sinf((done+i)*0.05f*(1+serial%3));
    }
    vorbis_analysis_wrote(&vd,n); done+=n;
    while(vorbis_analysis_blockout(&vd,&vb)==1){
      vorbis_analysis(&vb,NULL);
      vorbis_bitrate_addblock(&vb);
      while(vorbis_bitrate_flushpacket(&vd,&op)){
        ogg_stream_packetin(&os,&op);
        /* small pages: flush after every few packets */
        while(!eos && (op.packetno%4==0?ogg_stream_flush(&os,&og):ogg_stream_pageout(&os,&og))){
          putpage(m,&og);
          if(ogg_page_eos(&og))eos=1;
        }
      }
    }
  }
  ogg_stream_clear(&os); vorbis_block_clear(&vb); vorbis_dsp_clear(&vd);
  vorbis_comment_clear(&vc); vorbis_info_clear(&vi);
}

static size_t rd(void *p,size_t s,size_t n,void *ds){
  membuf *m=ds; size_t want=s*n, left=m->len-m->pos;
  if(want>left)want=left;
  memcpy(p,m->d+m->pos,want); m->pos+=want; return s?want/s:0;
}
static int sk(void *ds,ogg_int64_t off,int wh){
  membuf *m=ds; ogg_int64_t b=wh==SEEK_SET?0:wh==SEEK_CUR?(ogg_int64_t)m->pos:(ogg_int64_t)m->len;
  if(b+off<0||b+off>(ogg_int64_t)m->len)return -1;
  m->pos=b+off; return 0;
}
static long tl(void *ds){ return ((membuf*)ds)->pos; }

static volatile long long cur=-1;
static void onalarm(int s){
  char b[96]; int n=snprintf(b,sizeof b,"HANG: ov_pcm_seek(%lld) did not return within 5s\nFAIL\n",cur);
  (void)s; if(write(1,b,n)<0){} _exit(1);
}

int main(void){
  membuf m={0}; OggVorbis_File vf; ov_callbacks cb={rd,sk,NULL,tl};
  long len0=10001, len1=12000;            /* first link has an odd length */
  /* targets: first link (even grid), then second link (odd grid): even and odd */
  ogg_int64_t t[]={4000,4001, 10001,10002,10003, 12000,12001, 15001,15002, 20000,21998,21999,22000};
  int i,bad=0;

  setvbuf(stdout,NULL,_IONBF,0);
  encode_link(&m,0x1111,len0);
  encode_link(&m,0x2222,len1);
  if(ov_open_callbacks(&m,&vf,NULL,0,cb)){ printf("open failed\n"); return 2; }
  printf("links=%ld lengths=%lld+%lld total=%lld\n",ov_streams(&vf),
         (long long)ov_pcm_total(&vf,0),(long long)ov_pcm_total(&vf,1),(long long)ov_pcm_total(&vf,-1));
  if(ov_streams(&vf)!=2||ov_pcm_total(&vf,0)!=len0){ printf("unexpected test stream\n"); return 2; }
  if(ov_halfrate(&vf,1)){ printf("half rate unavailable\n"); return 2; }

  signal(SIGALRM,onalarm);
  for(i=0;i<(int)(sizeof t/sizeof *t);i++){
    ogg_int64_t pos=t[i],got; int r,ok;
    cur=pos; alarm(5);
    r=ov_pcm_seek(&vf,pos);
    alarm(0);
    got=ov_pcm_tell(&vf);
    ok=(r==0 && got<=pos && got>=pos-1);
    if(pos<len0 && got!=(pos&~(ogg_int64_t)1))ok=0;  /* even grid: exact */
    printf("%s: ov_pcm_seek(%lld)=%d tell=%lld\n",ok?"ok":"WRONG",(long long)pos,r,(long long)got);
    if(!ok)bad=1;
    { float **pcm; int sec; if(ov_read_float(&vf,&pcm,64,&sec)<0){ printf("WRONG: read after seek failed\n"); bad=1; } }
  }
  /* ov_halfrate() re-seeks to the current position: same loop */
  ov_halfrate(&vf,0);
  if(ov_pcm_seek(&vf,12000)||ov_pcm_tell(&vf)!=12000){ printf("WRONG: full-rate seek\n"); bad=1; }
  cur=12000; alarm(5); i=ov_halfrate(&vf,1); alarm(0);
  printf("%s: ov_halfrate(1) at 12000 =%d tell=%lld\n",i==0&&ov_pcm_tell(&vf)==11999?"ok":"WRONG",i,(long long)ov_pcm_tell(&vf));
  if(i||ov_pcm_tell(&vf)!=11999)bad=1;
  ov_clear(&vf); free(m.d);
  printf(bad?"FAIL\n":"PASS\n");
  return bad;
}
